(* VamMonoRefs.v — C14 (pointer stability), the functions that only ever add map references: the forward half of an
   allocation (allocateMemoryPage and below: RecordSuballocSubfree, then Map for a persistently mapped request) and the whole
   of BeginDefragPass (the same two steps per committed or refused move).  For a fixed memory object M:
     RG k v      every block whose memory is M has at least k map references
     FWD v v'    (M is not a future handle) RG k is kept for every k, and if RG 1 holds before, no vkUnmapMemory of M is
                 logged: RecordSuballocSubfree drops the hysteresis mapping only at zero references.
   No invariant of the allocator is needed. *)
From Coq Require Import ZArith List Bool Lia Permutation.
From Arsenal Require Import Util Budget VamDev VamBlockList VamDefrag Vam VamInvMeta VamInv VamInvUpd VamInvDev VamInvStep VamInvStep2.
From Arsenal Require Import VamAcct VamBal VamCallPass.
From Arsenal Require SyncMem Pass Defrag VamGran VamMemStable.
Import ListNotations.
Open Scope Z_scope.

Section Mono.
Variable c : vcfg.
Variable M : Z.

Definition P (k : call) : Prop := k <> CUnmap M /\ forall ty size ded, k <> CAlloc M ty size ded 0.
Notation NAm := (NA P).

Definition BL (v : vam) (b : block) : Prop := exists lr l, get_blist v lr = Some l /\ In b (bl_blocks l).
Definition RG (k : Z) (v : vam) : Prop := forall b, BL v b -> bk_mem b = M -> k <= SyncMem.mapRefs (bk_sm b).

Definition FWD (v v' : vam) : Prop :=
  M <= m_next (v_m v) -> M <= m_next (v_m v') /\ (forall k, RG k v -> RG k v') /\ (RG 1 v -> NAm (v_m v) (v_m v')).

Lemma FWD_refl v : FWD v v.
Proof. intros H. split; [exact H|]. split; [auto|intros _; apply NA_refl]. Qed.

Lemma FWD_trans a b d : FWD a b -> FWD b d -> FWD a d.
Proof.
  intros H1 H2 Ha. destruct (H1 Ha) as (Hb & R1 & N1). destruct (H2 Hb) as (Hd & R2 & N2).
  split; [exact Hd|]. split; [auto|]. intros Hr. eapply NA_trans; [apply N1; exact Hr|apply N2; apply R1; exact Hr].
Qed.

Lemma RG_same k v v' : (forall lr, get_blist v' lr = get_blist v lr) -> RG k v -> RG k v'.
Proof. intros E H b (lr & l & Hg & Hb). apply H. exists lr, l. rewrite <- E. auto. Qed.

(* the machine changes, the lists do not *)
Lemma FWD_mach v m' : m_next (v_m v) <= m_next m' -> NAm (v_m v) m' -> FWD v (set_m v m').
Proof. intros Hn Hna Ha. split; [cbn; lia|]. split; [intros k; apply RG_same; intros; apply get_blist_set_m|intros _; exact Hna]. Qed.

Lemma FWD_lists v v' : v_m v' = v_m v -> (forall k, RG k v -> RG k v') -> FWD v v'.
Proof. intros Em Hr Ha. rewrite Em. split; [exact Ha|]. split; [exact Hr|intros _; apply NA_refl]. Qed.

Lemma RG_set_blist k v lr l0 l' :
  get_blist v lr = Some l0 -> (forall b', In b' (bl_blocks l') -> In b' (bl_blocks l0) \/ (bk_mem b' = M -> k <= SyncMem.mapRefs (bk_sm b'))) ->
  RG k v -> RG k (set_blist v lr l').
Proof.
  intros Hg Hs H b (lr1 & l1 & Hg1 & Hb) Em. destruct (lref_eq_dec lr1 lr) as [->|Hne].
  - rewrite (get_set_blist_same _ _ _ _ Hg) in Hg1. injection Hg1 as <-. destruct (Hs b Hb) as [Hold|Hnew]; [apply H; [exists lr, l0; auto|exact Em]|auto].
  - rewrite get_set_blist_other in Hg1 by congruence. apply H; [exists lr1, l1; auto|exact Em].
Qed.

Lemma RG_put_block k v lr nb : (bk_mem nb = M -> k <= SyncMem.mapRefs (bk_sm nb)) -> RG k v -> RG k (put_block v lr nb).
Proof.
  intros Hn H. unfold put_block. destruct (get_blist v lr) as [l|] eqn:Hg; [|exact H]. apply (RG_set_blist k v lr l _ Hg); [|exact H].
  intros b' Hb'. cbn in Hb'. destruct (VamGran.rb_cases' _ _ _ Hb') as [->|Hin]; auto.
Qed.

Lemma RG_block k v lr bid b : RG k v -> get_block v lr bid = Some b -> bk_mem b = M -> k <= SyncMem.mapRefs (bk_sm b).
Proof. intros H Hgb. destruct (get_block_in _ _ _ _ Hgb) as (l & Hg & Hb & _). apply H. exists lr, l. auto. Qed.

(* ---- SynchronizedMemory *)

Lemma sm_sub_keep m mem s : (mem = M -> 1 <= SyncMem.mapRefs s) -> NAm m (fst (sm_sub m mem s)).
Proof.
  intros Hr. unfold sm_sub, SyncMem.do_sub. destruct (_ <=? _); [|apply NA_refl]. destruct (_ <=? -2); [|apply NA_refl]. destruct (SyncMem.extra s); [|apply NA_refl].
  destruct (SyncMem.mapRefs s =? 0) eqn:E0; cbn [andb]; [|apply NA_refl]. destruct (SyncMem.mapped s); [|apply NA_refl]. cbn [fst].
  unfold dev_unmap. apply NA_log'; [reflexivity|]. split; [|intros; discriminate]. intros E. injection E as ->. apply Z.eqb_eq in E0. specialize (Hr eq_refl). lia.
Qed.

Lemma do_map_mono s f : SyncMem.mapRefs s <= SyncMem.mapRefs (fst (fst (SyncMem.do_map s 1 f))).
Proof.
  unfold SyncMem.do_map. cbn [Z.eqb]. pose proof (post_map_unmap_refs s) as Hp. destruct (SyncMem.post_map_unmap s) as (s1 & sw). cbn [fst] in Hp.
  destruct (0 <? SyncMem.references s) eqn:Eo.
  - destruct (SyncMem.mapped _); cbn; lia.
  - destruct f; cbn; [destruct sw; cbn; lia|]. apply Z.ltb_ge in Eo. unfold SyncMem.references in Eo. destruct (SyncMem.extra s); lia.
Qed.

Lemma sm_map_mono m mem s : SyncMem.mapRefs s <= SyncMem.mapRefs (snd (fst (sm_map c m mem s))).
Proof.
  unfold sm_map. destruct (dev_map c m mem) as (m1 & code). pose proof (do_map_mono s (negb (code =? 0))) as H.
  destruct (SyncMem.do_map s 1 _) as ((s' & r) & cs). cbn [fst snd] in *. exact H.
Qed.

Lemma P_free mem : P (CFree mem). Proof. split; intros; discriminate. Qed.
Lemma P_map mem off size r : P (CMap mem off size r). Proof. split; intros; discriminate. Qed.

(* vkAllocateMemory hands out the next handle *)
Lemma alloc_vk_fresh m ty size ded : M <= m_next m -> NAm m (fst (alloc_vk c m ty size ded)).
Proof.
  intros Hm. unfold alloc_vk.
  assert (H : NAm m (fst (fst (dev_alloc c m ty size ded)))).
  { unfold dev_alloc. assert (Pf : forall r, r <> 0 -> P (CAlloc 0 ty size ded r)) by (intros r Hr; split; [discriminate|intros ty' s' d' E; injection E as _ _ _ _ E; contradiction]).
    destruct (negb _); [apply NA_log'; [reflexivity|apply Pf; discriminate]|]. destruct (size <=? 0); [apply NA_log'; [reflexivity|apply Pf; discriminate]|].
    destruct (dev_fault (m_fault m) (m_fired m) 0) as ((f1 & fired1) & r).
    destruct (negb (r =? 0)) eqn:Er; [apply NA_log'; [reflexivity|apply Pf; apply negb_true_iff, Z.eqb_neq in Er; exact Er]|].
    destruct (_ && _); [apply NA_log'; [reflexivity|apply Pf; discriminate]|].
    destruct (_ <? _); [apply NA_log'; [reflexivity|apply Pf; discriminate]|].
    destruct (DEV_TABLE <=? _); cbn [fst]; apply NA_log'; [reflexivity|apply Pf; discriminate|reflexivity|].
    split; [discriminate|]. intros ty' s' d' E. injection E as E _ _ _. cbn in E. lia. }
  destruct (dev_alloc c m ty size ded) as ((m1 & code) & id). cbn [fst] in H.
  destruct (Budget.alloc_mem _ _ _ _ _) as ((b' & r) & cs). destruct cs; cbn [fst]; [apply NA_eq; reflexivity|].
  eapply NA_trans; [exact H|apply NA_eq; reflexivity].
Qed.

Lemma sm_map_next m mem s : m_next (fst (fst (sm_map c m mem s))) = m_next m.
Proof.
  unfold sm_map, dev_map. destruct (find_mem _ _); [|destruct (SyncMem.do_map _ _ _) as ((s' & r) & cs); destruct cs; reflexivity].
  destruct (negb _); [destruct (SyncMem.do_map _ _ _) as ((s' & r) & cs); destruct cs; reflexivity|].
  destruct (_ <=? 0); [destruct (SyncMem.do_map _ _ _) as ((s' & r) & cs); destruct cs; reflexivity|].
  destruct (dev_fault _ _ _) as ((f1 & fi) & r0). destruct (negb _); destruct (SyncMem.do_map _ _ _) as ((s' & r) & cs); destruct cs; reflexivity.
Qed.

Lemma sm_sub_next m mem s : m_next (fst (sm_sub m mem s)) = m_next m.
Proof. unfold sm_sub. destruct (SyncMem.do_sub s) as ((s' & r) & cs). destruct cs; reflexivity. Qed.

Lemma add_allocation_next m h size : m_next (add_allocation c m h size) = m_next m.
Proof. unfold add_allocation. destruct (Budget.add_alloc _ _ _ _) as ((b' & r) & cs). reflexivity. Qed.

(* RecordSuballocSubfree, then Map if asked for, on block b; the block gets the new SynchronizedMemory state *)
Lemma sub_map_F v lr b (mapped : bool) :
  BL v b ->
  let '(m1, s1) := sm_sub (v_m v) (bk_mem b) (bk_sm b) in
  let '(m2, s2, mr) := if mapped then sm_map c m1 (bk_mem b) s1 else (m1, s1, OK tt) in
  FWD v (put_block (set_m v m2) lr (mkBlock (bk_id b) (bk_mem b) s2 (bk_meta b))) /\ SyncMem.mapRefs (bk_sm b) <= SyncMem.mapRefs s2.
Proof.
  intros Hb. pose proof (sm_sub_refs (v_m v) (bk_mem b) (bk_sm b)) as E1. pose proof (sm_sub_next (v_m v) (bk_mem b) (bk_sm b)) as N1.
  pose proof (sm_sub_keep (v_m v) (bk_mem b) (bk_sm b)) as K1.
  destruct (sm_sub (v_m v) (bk_mem b) (bk_sm b)) as (m1 & s1). cbn [fst snd] in *.
  assert (H2 : SyncMem.mapRefs s1 <= SyncMem.mapRefs (snd (fst (if mapped then sm_map c m1 (bk_mem b) s1 else (m1, s1, OK tt)))) /\
               m_next (fst (fst (if mapped then sm_map c m1 (bk_mem b) s1 else (m1, s1, OK tt)))) = m_next m1 /\
               NAm m1 (fst (fst (if mapped then sm_map c m1 (bk_mem b) s1 else (m1, s1, OK tt))))).
  { destruct mapped; [split; [apply sm_map_mono|split; [apply sm_map_next|apply (sm_map_NA c P P_map)]]|cbn; split; [lia|split; [reflexivity|apply NA_refl]]]. }
  destruct (if mapped then sm_map c m1 (bk_mem b) s1 else (m1, s1, OK tt)) as ((m2 & s2) & mr). cbn [fst snd] in H2. destruct H2 as (E2 & N2 & K2).
  split; [|lia]. intros Ha. split; [unfold put_block; destruct (get_blist (set_m v m2) lr); [rewrite set_blist_m|]; cbn; lia|]. split.
  - intros k Hk. apply RG_put_block; [cbn; intros Em; specialize (Hk b Hb Em); lia|]. eapply RG_same; [|exact Hk]. intros; apply get_blist_set_m.
  - intros H1. assert (Em : v_m (put_block (set_m v m2) lr (mkBlock (bk_id b) (bk_mem b) s2 (bk_meta b))) = m2) by (rewrite put_block_m; reflexivity).
    rewrite Em. eapply NA_trans; [apply K1; intros E; apply (H1 b Hb E)|exact K2].
Qed.

Lemma RG_set_blist' k v lr l0 l' :
  get_blist v lr = Some l0 ->
  (forall b', In b' (bl_blocks l') -> exists b, In b (bl_blocks l0) /\ bk_mem b = bk_mem b' /\ bk_sm b = bk_sm b') ->
  RG k v -> RG k (set_blist v lr l').
Proof.
  intros Hg Hs H b (lr1 & l1 & Hg1 & Hb) Em. destruct (lref_eq_dec lr1 lr) as [->|Hne].
  - rewrite (get_set_blist_same _ _ _ _ Hg) in Hg1. injection Hg1 as <-. destruct (Hs b Hb) as (b0 & Hb0 & E1 & E2). rewrite <- E2. apply H; [exists lr, l0; auto|congruence].
  - rewrite get_set_blist_other in Hg1 by congruence. apply H; [exists lr1, l1; auto|exact Em].
Qed.

(* ---------------------------------------------------------------- BeginDefragPass *)

Lemma commit_attempt_F v lr slot dst : FWD v (fst (commit_attempt c v lr slot dst)).
Proof.
  unfold commit_attempt. destruct (get_block v lr dst) as [b|] eqn:Hgb; [|apply FWD_refl].
  destruct (get_block_in _ _ _ _ Hgb) as (l & Hg & Hb & _).
  pose proof (sub_map_F v lr b (a_persist (get_alloc v (Z.of_nat slot))) ltac:(exists lr, l; auto)) as H.
  destruct (sm_sub _ _ _) as (m1 & s1). destruct (if a_persist _ then _ else _) as ((m2 & s2) & mr). exact (proj1 H).
Qed.

Lemma FWD_tab_mach v t m' : m_next (v_m v) <= m_next m' -> NAm (v_m v) m' -> FWD v (set_m (set_tab v t) m').
Proof.
  intros Hn Hna Ha. split; [cbn; lia|]. split; [|intros _; exact Hna].
  intros k. apply RG_same. intros lr. rewrite get_blist_set_m. apply get_blist_set_tab.
Qed.

Lemma commit_move_F v lr mv : FWD v (fst (commit_move c v lr mv)).
Proof.
  unfold commit_move. destruct (get_blist v lr) as [l|] eqn:Hg; [|apply FWD_refl]. destruct (get_block v lr _) as [b|] eqn:Hgb; [|apply FWD_refl].
  destruct (negb _); [apply FWD_refl|].
  destruct (get_block_in _ _ _ _ Hgb) as (l' & Hg' & Hb & _).
  pose proof (sub_map_F v lr b (a_persist (get_alloc v (Z.of_nat (Defrag.m_src mv)))) ltac:(exists lr, l'; auto)) as H.
  destruct (sm_sub _ _ _) as (m1 & s1). destruct (if a_persist _ then _ else _) as ((m2 & s2) & mr). destruct H as (H & _).
  set (v2 := put_block (set_m v m2) lr _) in *.
  destruct mr as [[]|code| |]; try exact H. destruct (_ && _); [exact H|]. cbn [fst].
  eapply FWD_trans; [exact H|]. apply FWD_tab_mach; [rewrite add_allocation_next; cbn; lia|apply (add_allocation_NA c P)].
Qed.

Lemma replay_log_F log : forall v lr, FWD v (fst (replay_log c v lr log)).
Proof.
  induction log as [|at_ tl IH]; intros v lr; cbn [replay_log]; [apply FWD_refl|]. destruct at_ as [slot dst|mv].
  - pose proof (commit_attempt_F v lr slot dst) as H. destruct (commit_attempt c v lr slot dst) as (v1 & r). cbn [fst] in H.
    destruct r as [[]|code| |]; try exact H. eapply FWD_trans; [exact H|apply IH].
  - pose proof (commit_move_F v lr mv) as H. destruct (commit_move c v lr mv) as (v1 & r). cbn [fst] in H.
    destruct r as [[]|code| |]; try exact H. eapply FWD_trans; [exact H|apply IH].
Qed.

Lemma unproject_same bs bl b' : In b' (unproject_blocks bs bl) -> exists b, In b bs /\ bk_mem b = bk_mem b' /\ bk_sm b = bk_sm b'.
Proof.
  unfold unproject_blocks. intros H. apply in_map_iff in H. destruct H as (b & E & Hb). exists b. split; [exact Hb|].
  destruct (Defrag.find_id (bk_id b) bl); subst b'; auto.
Qed.

Lemma collect_list_F v dc p : FWD v (fst (collect_list c v dc p)).
Proof.
  unfold collect_list. destruct (project v (dc_lr dc)); [|apply FWD_refl]. destruct (get_blist v (dc_lr dc)) as [l|] eqn:Hg; [|apply FWD_refl].
  destruct (Defrag.collect_moves_f _ _ _ _ _ _) as (((cs & env) & log) & wr).
  set (v1 := set_blist v (dc_lr dc) _).
  assert (H1 : FWD v v1).
  { apply FWD_lists; [apply set_blist_m|]. intros k. apply (RG_set_blist' k v _ l _ Hg). intros b' Hb'. cbn in Hb'. apply (unproject_same _ _ _ Hb'). }
  assert (H2 : FWD v (fst (replay_log c v1 (dc_lr dc) log))) by (eapply FWD_trans; [exact H1|apply replay_log_F]).
  destruct wr; try apply FWD_refl; (destruct (replay_log c v1 (dc_lr dc) log) as (v2 & r); cbn [fst] in H2; destruct r as [[]|code| |]; exact H2).
Qed.

Lemma pass_loop_F fuel : forall v run p, FWD v (fst (fst (pass_loop c fuel v run p))).
Proof.
  induction fuel as [|f IH]; intros v run p; cbn [pass_loop]; [apply FWD_refl|]. destruct (nth_z _ _) as [dc|]; [|apply FWD_refl].
  pose proof (collect_list_F v dc p) as H. destruct (collect_list c v dc p) as (v1 & r). cbn [fst] in H.
  destruct r as [(dc' & p')|code| |]; cbn [fst]; try exact H. destruct (Defrag.c_moves (dc_ctx dc')); [|exact H]. eapply FWD_trans; [exact H|apply IH].
Qed.

Lemma defrag_pass_F v run : FWD v (fst (fst (defrag_pass c v run))).
Proof. apply pass_loop_F. Qed.

(* ---------------------------------------------------------------- allocateMemoryPage and below *)

Lemma FWD_alloc_mach v s a m' : m_next (v_m v) <= m_next m' -> NAm (v_m v) m' -> FWD v (set_m (set_alloc v s a) m').
Proof. intros. unfold set_alloc. apply FWD_tab_mach; auto. Qed.

Lemma commit_request_F v lr bid rq reqsize align flags sub slot : FWD v (fst (commit_request c v lr bid rq reqsize align flags sub slot)).
Proof.
  unfold commit_request. destruct (get_blist v lr) as [l|] eqn:Hg; [|apply FWD_refl]. destruct (get_block v lr bid) as [b|] eqn:Hgb; [|apply FWD_refl].
  destruct (get_block_in _ _ _ _ Hgb) as (l' & Hg' & Hb & _).
  pose proof (sub_map_F v lr b (fl flags F_MAPPED) ltac:(exists lr, l'; auto)) as H.
  destruct (sm_sub _ _ _) as (m1 & s1). destruct (if fl flags F_MAPPED then _ else _) as ((m2 & s2) & mr). destruct H as (H & Hle).
  set (v2 := put_block (set_m v m2) lr _) in *.
  destruct mr as [[]|code| |]; try exact H.
  set (v3 := set_alloc v2 slot _).
  assert (H3 : FWD v v3).
  { eapply FWD_trans; [exact H|]. apply FWD_lists; [reflexivity|]. intros k. apply RG_same. intros; apply get_blist_set_alloc. }
  destruct (meta_alloc _ _ _ _ _ _) as [(mt' & handle)|code| |]; try exact H3.
  set (v4 := put_block v3 lr _).
  assert (H4 : FWD v v4).
  { intros Ha. destruct (H3 Ha) as (A3 & R3 & N3). split; [unfold v4; rewrite put_block_m; exact A3|]. split.
    - intros k Hk. apply RG_put_block; [cbn; intros Em; assert (BL v b) by (exists lr, l'; auto); specialize (Hk b H0 Em); lia|apply R3; exact Hk].
    - intros H1. unfold v4. rewrite put_block_m. apply N3. exact H1. }
  destruct (_ && _); [exact H4|]. cbn [fst].
  eapply FWD_trans; [exact H4|]. apply FWD_alloc_mach; [rewrite add_allocation_next; cbn; lia|apply (add_allocation_NA c P)].
Qed.

Lemma alloc_from_block_F v lr bid size align flags sub slot : FWD v (fst (alloc_from_block c v lr bid size align flags sub slot)).
Proof.
  unfold alloc_from_block. destruct (get_block v lr bid) as [b|] eqn:Hgb; [|apply FWD_refl]. destruct (negb _); [apply FWD_refl|].
  destruct (meta_create_request _ _ _ _ _ _) as [mt1 rq| | |]; try apply FWD_refl.
  destruct (get_block_in _ _ _ _ Hgb) as (l & Hg & Hb & _).
  eapply FWD_trans; [|apply commit_request_F]. apply FWD_lists; [apply put_block_m|].
  intros k Hk. apply RG_put_block; [cbn; intros Em; apply (Hk b); [exists lr, l; auto|exact Em]|exact Hk].
Qed.

Lemma sort_list_F v lr : FWD v (sort_list v lr).
Proof.
  unfold sort_list. destruct (get_blist v lr) as [l|] eqn:Hg; [|apply FWD_refl]. apply FWD_lists; [apply set_blist_m|].
  intros k. apply (RG_set_blist k v lr l _ Hg). intros b' Hb'. left. apply VamGran.sort_in. exact Hb'.
Qed.

Lemma try_blocks_F ids : forall v lr size align flags sub slot, FWD v (fst (try_blocks c v lr ids size align flags sub slot)).
Proof.
  induction ids as [|bid tl IH]; intros v lr size align flags sub slot; cbn [try_blocks]; [apply FWD_refl|].
  pose proof (alloc_from_block_F v lr bid size align flags sub slot) as H. destruct (alloc_from_block c v lr bid size align flags sub slot) as (v1 & r). cbn [fst] in H.
  destruct r; cbn [fst]; try exact H; [eapply FWD_trans; [exact H|apply sort_list_F]|eapply FWD_trans; [exact H|apply IH]].
Qed.

Lemma alloc_vk_id m ty size ded m1 mem : alloc_vk c m ty size ded = (m1, OK mem) -> mem = m_next m + 1.
Proof.
  unfold alloc_vk. destruct (dev_alloc c m ty size ded) as ((m0 & code) & id) eqn:Ed.
  unfold Budget.alloc_mem.
  destruct (Budget.maxCount _ <? _); [cbn; discriminate|].
  match goal with |- context [match ?x with Some _ => _ | None => _ end] => destruct x as [s2|] end; [|cbn; discriminate].
  destruct (negb (code =? 0)) eqn:Ec.
  - destruct (Budget.remove_block _ _ _) as (s3 & p). cbn. destruct p; discriminate.
  - cbn. apply negb_false_iff in Ec. apply Z.eqb_eq in Ec. subst code. intros E. injection E as _ <-.
    revert Ed. unfold dev_alloc. destruct (negb _); [intros E; injection E as _ E _; discriminate|]. destruct (size <=? 0); [intros E; injection E as _ E _; discriminate|].
    destruct (dev_fault (m_fault m) (m_fired m) 0) as ((f1 & fired1) & r).
    destruct (negb (r =? 0)) eqn:Er; [intros E; injection E as _ E _; subst r; discriminate|].
    destruct (_ && _); [intros E; injection E as _ E _; discriminate|].
    destruct (_ <? _); [intros E; injection E as _ E _; discriminate|].
    destruct (DEV_TABLE <=? _); [intros E; injection E as _ E _; discriminate|].
    intros E. injection E as _ <-. reflexivity.
Qed.

Lemma create_block_F v lr size : FWD v (fst (create_block c v lr size)).
Proof.
  unfold create_block. destruct (get_blist v lr) as [l|] eqn:Hg; [|apply FWD_refl].
  intros Ha. pose proof (alloc_vk_fresh (v_m v) (bl_type l) size 0 Ha) as HN. pose proof (VamMemStable.alloc_vk_MS c (v_m v) (bl_type l) size 0) as ((Hn & _) & _).
  destruct (alloc_vk c (v_m v) (bl_type l) size 0) as (m1 & r) eqn:Ea. cbn [fst] in HN, Hn.
  destruct r as [mem|code| |]; try (apply FWD_mach; assumption).
  pose proof (alloc_vk_id _ _ _ _ _ _ Ea) as Eid. cbn [fst].
  split; [rewrite set_blist_m; cbn; lia|]. split; [|intros _; rewrite set_blist_m; exact HN].
  intros k Hk. apply (RG_set_blist k (set_m v m1) lr l); [rewrite get_blist_set_m; exact Hg| |eapply RG_same; [|exact Hk]; intros; apply get_blist_set_m].
  intros b' Hb'. cbn in Hb'. apply in_app_iff in Hb'. destruct Hb' as [Hb'|[<-|[]]]; [left; exact Hb'|right; cbn; lia].
Qed.

Lemma retry_create_F fuel : forall v lr nbs shift size freeMemory canFallback last,
  FWD v (fst (retry_create c fuel v lr nbs shift size freeMemory canFallback last)).
Proof.
  induction fuel as [|f IH]; intros v lr nbs shift size freeMemory canFallback last; cbn [retry_create]; [apply FWD_refl|].
  destruct last as [x|code| |]; try apply FWD_refl. destruct (3 <=? shift); [apply FWD_refl|]. destruct (size <=? _); [|apply FWD_refl].
  destruct (_ || _); [|apply IH].
  pose proof (create_block_F v lr (Z.quot nbs 2)) as H. destruct (create_block c v lr (Z.quot nbs 2)) as (v1 & r). cbn [fst] in H.
  eapply FWD_trans; [exact H|apply IH].
Qed.

Lemma destroy_block_F v ty b : FWD v (fst (destroy_block c v ty b)).
Proof.
  unfold destroy_block. destruct (negb _); [apply FWD_refl|].
  pose proof (free_vk_NA c P P_free (v_m v) ty (meta_size (bk_meta b)) (bk_mem b)) as HN. pose proof (VamMemStable.free_vk_MS c (v_m v) ty (meta_size (bk_meta b)) (bk_mem b)) as ((Hn & _) & _).
  destruct (free_vk _ _ _ _ _) as (m1 & r). cbn [fst] in *. apply FWD_mach; assumption.
Qed.

Lemma heap_budget_next m h : m_next (fst (fst (heap_budget c m h))) = m_next m.
Proof. unfold heap_budget. destruct (Budget.heap_budget _ _ _ _) as ((b' & r) & cs). destruct r; reflexivity. Qed.

Lemma alloc_page_F v lr size align flags sub slot : FWD v (fst (alloc_page c v lr size align flags sub slot)).
Proof.
  unfold alloc_page. destruct (get_blist v lr) as [l|] eqn:Hg; [|apply FWD_refl].
  pose proof (heap_budget_NA c P (v_m v) (type_heap c (bl_type l))) as H0. pose proof (heap_budget_next (v_m v) (type_heap c (bl_type l))) as N0.
  destruct (heap_budget c (v_m v) (type_heap c (bl_type l))) as ((m1 & usage) & budget). cbn [fst] in H0, N0.
  assert (K1 : FWD v (set_m v m1)) by (apply FWD_mach; [lia|exact H0]).
  destruct (_ && _); [exact K1|]. destruct (bl_pref l <? size); [exact K1|].
  pose proof (try_blocks_F (search_order c l flags) (set_m v m1) lr size align flags sub slot) as H2.
  destruct (try_blocks c (set_m v m1) lr (search_order c l flags) size align flags sub slot) as (v2 & r). cbn [fst] in H2.
  assert (K2 : FWD v v2) by (eapply FWD_trans; eauto).
  destruct r; cbn [fst]; try exact K2.
  destruct (negb _); [exact K2|].
  destruct (if bl_explicit l then (bl_pref l, 0) else shrink_new_block 3 (bl_pref l) 0 (calc_max_block_size l) size) as (nbs & shift).
  match goal with |- context [if ?cnd then create_block c v2 lr nbs else (v2, ER VK_OODM)] =>
    assert (H3 : FWD v2 (fst (if cnd then create_block c v2 lr nbs else (v2, ER VK_OODM)))) by (destruct cnd; [apply create_block_F|apply FWD_refl]);
    destruct (if cnd then create_block c v2 lr nbs else (v2, ER VK_OODM)) as (v3 & first) end.
  cbn [fst] in H3.
  match goal with |- context [if bl_explicit l then (v3, first) else ?e] =>
    assert (H4 : FWD v3 (fst (if bl_explicit l then (v3, first) else e))) by (destruct (bl_explicit l); [apply FWD_refl|apply retry_create_F]);
    destruct (if bl_explicit l then (v3, first) else e) as (v4 & created) end.
  cbn [fst] in H4. assert (K4 : FWD v v4) by (eapply FWD_trans; [exact K2|]; eapply FWD_trans; [exact H3|exact H4]).
  destruct created as [bid|code| |]; cbn [fst]; try exact K4.
  destruct (get_block v4 lr bid) as [nb|]; [|exact K4]. destruct (meta_size (bk_meta nb) <? size); [exact K4|].
  pose proof (alloc_from_block_F v4 lr bid size align flags sub slot) as H5.
  destruct (alloc_from_block c v4 lr bid size align flags sub slot) as (v5 & r2). cbn [fst] in H5.
  assert (K5 : FWD v v5) by (eapply FWD_trans; [exact K4|exact H5]).
  assert (Hgive : FWD v5 (fst (match get_blist v5 lr, get_block v5 lr bid with
                    | Some l5, Some b5 =>
                      if meta_is_empty (bk_meta b5) && (bl_min l5 <? zlen (bl_blocks l5)) then
                        match destroy_block c (set_blist v5 lr (set_blocks l5 (remove_block (bl_blocks l5) bid))) (bl_type l5) b5 with
                        | (v', OK _) => (v', OK tt)
                        | (v', STUCK) => (v', STUCK)
                        | (v', _) => (v', PANIC)
                        end
                      else (v5, OK tt)
                    | _, _ => (v5, STUCK)
                    end))).
  { destruct (get_blist v5 lr) as [l5|] eqn:Hg5; [|apply FWD_refl]. destruct (get_block v5 lr bid) as [b5|]; [|apply FWD_refl].
    destruct (_ && _); [|apply FWD_refl].
    pose proof (destroy_block_F (set_blist v5 lr (set_blocks l5 (remove_block (bl_blocks l5) bid))) (bl_type l5) b5) as Hd.
    destruct (destroy_block c _ (bl_type l5) b5) as (v' & dr). cbn [fst] in Hd.
    assert (FWD v5 v').
    { eapply FWD_trans; [|exact Hd]. apply FWD_lists; [apply set_blist_m|]. intros k. apply (RG_set_blist k v5 lr l5 _ Hg5).
      intros b' Hb'. left. cbn in Hb'. eapply in_remove_block; eauto. }
    destruct dr as [[]|code| |]; exact H. }
  destruct r2 as [| |code2| |]; cbn [fst]; try exact K5; [eapply FWD_trans; [exact K5|apply sort_list_F]| |];
    (match goal with |- context [match ?e with (a, b) => _ end] => destruct e as (v6 & dr) end; cbn [fst] in Hgive;
     assert (K6 : FWD v v6) by (eapply FWD_trans; [exact K5|exact Hgive]); destruct dr as [[]|code3| |]; exact K6).
Qed.

Lemma allocate_loop_F slots : forall v lr done size align flags sub, FWD v (fst (fst (allocate_loop c v lr slots done size align flags sub))).
Proof.
  induction slots as [|s tl IH]; intros v lr done size align flags sub; cbn [allocate_loop]; [apply FWD_refl|].
  pose proof (alloc_page_F v lr size align flags sub s) as H. destruct (alloc_page c v lr size align flags sub s) as (v1 & r). cbn [fst] in H.
  destruct r as [[]|code| |]; cbn [fst]; try exact H. eapply FWD_trans; [exact H|apply IH].
Qed.

Lemma create_min_blocks_F n : forall v lr size, FWD v (fst (create_min_blocks c n v lr size)).
Proof.
  induction n as [|k IH]; intros v lr size; cbn [create_min_blocks]; [apply FWD_refl|].
  pose proof (create_block_F v lr size) as H. destruct (create_block c v lr size) as (v1 & r). cbn [fst] in H.
  destruct r as [bid|code| |]; cbn [fst]; try exact H. eapply FWD_trans; [exact H|apply IH].
Qed.

End Mono.
