(* Defrag.v — executable model of memutils/defrag (context.go: MetadataDefragContext) over a block
   list whose blocks are TLSF metadata (Tlsf.v is reused as is).

   The block list is the reference BlockList the harness `dfh` implements in Go (it mirrors vam's
   memoryBlockList): a list of (block id, TLSF state) in list order plus a table of allocation
   objects, slot -> (block id, handle = offset, size, alignment, kind, user tag, isTemporary).
   The metadata user data of an allocation is its allocation object (modelled: Some slot); with
   d_sentinel = true the destination temporaries of a pass carry the defragmentation context
   instead (modelled: Some ctx_tag), which is the `userData == c` case of getMoveData.

   Every Go panic site is an explicit panic outcome.  Loops that are not structurally recursive
   (the FindNextAllocation walk inside one block) take fuel. *)
From Coq Require Import ZArith NArith List Bool Lia.
From Arsenal Require Import Util Gran Tlsf Pass.
Import ListNotations.
Open Scope Z_scope.

Definition max_int : Z := 9223372036854775807.
Definition ctx_tag : Z := -1.

(* ---------------------------------------------------------------- state *)

Record uent := mkU {
  u_blk : Z;        (* id of the block the allocation lives in *)
  u_off : Z;        (* its handle in that block's metadata (TLSF model: the offset) *)
  u_size : Z;
  u_align : Z;
  u_kind : Z;
  u_tag : Z;        (* the caller's tag; -1 for temporaries *)
  u_temp : bool     (* destination temporary of a defragmentation pass *)
}.

Record dstate := mkD {
  d_blocks : list (Z * tlsf);        (* BlockList order *)
  d_table : list (option uent);      (* slot -> allocation object; None = released; slots are never reused *)
  d_sentinel : bool
}.

Record move := mkMove {
  m_src : nat;       (* slot of SrcAllocation *)
  m_tmp : nat;       (* slot of DstTmpAllocation *)
  m_srcblk : Z;      (* id of SrcBlockMetadata *)
  m_srcidx : Z;      (* its index in the block list while the pass was collected *)
  m_srcoff : Z;
  m_dstblk : Z;
  m_dstidx : Z;
  m_dstoff : Z;
  m_size : Z
}.

(* Go: MetadataDefragContext (Algorithm, moves, immovableBlockCount) *)
Record dctx := mkC {
  c_algo : Z;
  c_moves : list move;
  c_immovable : Z
}.

Definition set_blocks (st : dstate) (bl : list (Z * tlsf)) : dstate := mkD bl (d_table st) (d_sentinel st).
Definition set_table (st : dstate) (tb : list (option uent)) : dstate := mkD (d_blocks st) tb (d_sentinel st).

Fixpoint find_id (id : Z) (bl : list (Z * tlsf)) : option tlsf :=
  match bl with
  | [] => None
  | (i, t) :: r => if i =? id then Some t else find_id id r
  end.

Fixpoint set_id (id : Z) (t : tlsf) (bl : list (Z * tlsf)) : list (Z * tlsf) :=
  match bl with
  | [] => []
  | (i, t0) :: r => if i =? id then (i, t) :: r else (i, t0) :: set_id id t r
  end.

Definition set_block (st : dstate) (id : Z) (t : tlsf) : dstate := set_blocks st (set_id id t (d_blocks st)).

Definition entry (st : dstate) (s : nat) : option uent :=
  match nth_error (d_table st) s with Some (Some e) => Some e | _ => None end.

Definition set_entry (st : dstate) (s : nat) (e : option uent) : dstate :=
  set_table st (update_nth s (fun _ => e) (d_table st)).

Fixpoint indexed_from (i : Z) (ids : list Z) : list (Z * Z) :=
  match ids with
  | [] => []
  | id :: r => (i, id) :: indexed_from (i + 1) r
  end.

(* (index, id) of every block, in list order *)
Definition indexed (st : dstate) : list (Z * Z) := indexed_from 0 (map fst (d_blocks st)).

(* blocks get the ids 0,1,2,... in creation order; accept-all granularity handler, granularity 1 *)
Definition dstate_init (sizes : list Z) (sentinel : bool) : dstate :=
  mkD (map (fun p => (fst p, tlsf_init HFake 1 (snd p))) (indexed_from 0 sizes)) [] sentinel.

(* the same with the block list's granularity handler h (HFake accept-all, HVam vam's
   blockBufferImageGranularity) and bufferImageGranularity g; dstate_init = dstate_init_g HFake 1.
   The planner (memutils/defrag/context.go) never calls BlockList.BufferImageGranularity(): the
   granularity acts only through the blocks' metadata (RoundUpAllocRequest,
   CheckConflictAndAlignUp, the page table), which Tlsf.v models. *)
Definition dstate_init_g (h : handler) (g : Z) (sizes : list Z) (sentinel : bool) : dstate :=
  mkD (map (fun p => (fst p, tlsf_init h g (snd p))) (indexed_from 0 sizes)) [] sentinel.

(* ---------------------------------------------------------------- allocating in one block *)

Inductive aires := AIOk (t' : tlsf) (off : Z) | AINo (t' : tlsf) | AIPanic.

(* CreateAllocationRequest + (BlockList.Commit...: metadata.Alloc).  `strict` = the caller panics
   on an error of CreateAllocationRequest (allocIfLowerOffset) instead of trying elsewhere. *)
Definition alloc_in (t : tlsf) (size align kind strategy maxOffset : Z) (tag : option Z) : aires :=
  match create_request t size align false kind strategy maxOffset with
  | QGranted t1 r =>
    match alloc t1 r tag size align with
    | AOk t2 h => AIOk t2 h
    | AError => AINo t1
    | APanic => AIPanic
    end
  | QRefused => AINo t
  | QError => AINo t
  | QPanic => AIPanic
  end.

(* allocIfLowerOffset's request: strategy MinOffset, bound = current offset, and the extra test
   on the offset of the region the request was granted in *)
Definition alloc_lower (t : tlsf) (size align kind offset : Z) (tag : option Z) : aires :=
  match create_request t size align false kind 4 offset with
  | QGranted t1 r =>
    if rq_block r <? offset then
      match alloc t1 r tag size align with
      | AOk t2 h => AIOk t2 h
      | AError => AINo t1
      | APanic => AIPanic
      end
    else AINo t1
  | QRefused => AINo t
  | QError => AIPanic
  | QPanic => AIPanic
  end.

(* ---------------------------------------------------------------- user operations *)

Definition is_pow2 (a : Z) : bool := (1 <=? a) && (a =? 2 ^ Z.log2 a).

Inductive ures := UOk (slot : nat) (off : Z) | URefused | UError | UNoBlock | UPanic.

Definition user_alloc (st : dstate) (id size align kind tag : Z) : dstate * ures :=
  match find_id id (d_blocks st) with
  | None => (st, UNoBlock)
  | Some t =>
    if negb (is_pow2 align) || (kind <? 0) || (tag <? 0) then (st, UError) else
    let slot := length (d_table st) in
    match create_request t size align false kind 0 max_int with
    | QGranted t1 r =>
      match alloc t1 r (Some (Z.of_nat slot)) size align with
      | AOk t2 h =>
        (mkD (set_id id t2 (d_blocks st)) (d_table st ++ [Some (mkU id h (rq_size r) align kind tag false)])
             (d_sentinel st), UOk slot h)
      | AError => (set_block st id t1, UError)
      | APanic => (st, UPanic)
      end
    | QRefused => (st, URefused)
    | QError => (st, UError)
    | QPanic => (st, UPanic)
    end
  end.

(* release the range of slot s; ROk / RError (not live, metadata refuses) / RPanic *)
Definition free_slot (st : dstate) (s : nat) : dstate * rkind :=
  match entry st s with
  | None => (st, RError)
  | Some e =>
    match find_id (u_blk e) (d_blocks st) with
    | None => (st, RError)
    | Some t =>
      match tlsf_free t (u_off e) with
      | FOk t' => (set_entry (set_block st (u_blk e) t') s None, ROk)
      | FError => (st, RError)
      | FPanic => (st, RPanic)
      end
    end
  end.

(* ---------------------------------------------------------------- collecting the moves of a pass *)

Record cstate := mkCS {
  cs_st : dstate;
  cs_moves : list move;
  cs_pass : pass
}.

Definition cs_set_st (cs : cstate) (st : dstate) : cstate := mkCS st (cs_moves cs) (cs_pass cs).
Definition cs_set_pass (cs : cstate) (p : pass) : cstate := mkCS (cs_st cs) (cs_moves cs) p.

Inductive mdres := MDPanic | MDImmobile | MDMove (slot : nat) (e : uent).

(* Go: getMoveData + BlockList.MoveDataForUserData *)
Definition get_move_data (st : dstate) (t : tlsf) (h : Z) : mdres :=
  match get_user_data t h with
  | None => MDPanic
  | Some None => MDImmobile
  | Some (Some tg) =>
    if tg =? ctx_tag then MDImmobile            (* userData == c *)
    else if tg <? 0 then MDImmobile             (* not an allocation object *)
    else match nth_error (d_table st) (Z.to_nat tg) with
         | Some (Some e) => if u_temp e then MDImmobile (* nil SrcAllocation *) else MDMove (Z.to_nat tg) e
         | _ => MDPanic
         end
  end.

(* the metadata user data a new temporary gets, and its slot *)
Definition tmp_tag (st : dstate) : option Z :=
  if d_sentinel st then Some ctx_tag else Some (Z.of_nat (length (d_table st))).

Inductive aores := AOFound (st' : dstate) (idx id off : Z) | AONone (st' : dstate) | AOPanic (st' : dstate).

(* Go: allocInOtherBlock(0, blockIndex, ...); cands = (index, id) of the blocks 0 .. blockIndex-1 *)
Fixpoint alloc_other (st : dstate) (cands : list (Z * Z)) (size align kind : Z) : aores :=
  match cands with
  | [] => AONone st
  | (idx, id) :: rest =>
    match find_id id (d_blocks st) with
    | None => AOPanic st
    | Some t =>
      if may_have_free t kind size then
        match alloc_in t size align kind 0 max_int (tmp_tag st) with
        | AIOk t' off => AOFound (set_block st id t') idx id off
        | AINo t' => alloc_other (set_block st id t') rest size align kind
        | AIPanic => AOPanic st
        end
      else alloc_other st rest size align kind
    end
  end.

(* why a collecting pass panicked: the counters (incrementCounters), an unexpected answer of the
   metadata or the block list (the must... helpers), the model's fuel, an unknown algorithm *)
Inductive pwhy := PCounters | PMeta | PFuel | PAlgo.

Inductive wres := WCont | WStop | WPanic (why : pwhy).

(* the temporary is registered, the move appended, the counters incremented *)
Definition commit_move (cs : cstate) (st' : dstate) (slot : nat) (e : uent) (bi : Z) (dstidx dstid off : Z)
  : cstate * wres :=
  let tslot := length (d_table st') in
  let st2 := set_table st' (d_table st' ++ [Some (mkU dstid off (u_size e) (u_align e) (u_kind e) (-1) true)]) in
  let mv := mkMove slot tslot (u_blk e) bi (u_off e) dstid dstidx off (u_size e) in
  let '(p', r) := increment_counters (cs_pass cs) (u_size e) in
  (mkCS st2 (cs_moves cs ++ [mv]) p',
   match r with IContinue => WCont | IStop => WStop | IPanic => WPanic PCounters end).

(* Go: allocIfLowerOffset + incrementCounters, for the allocation at handle h of block (bi, id) *)
Definition try_lower (cs : cstate) (bi id : Z) (t : tlsf) (h : Z) (slot : nat) (e : uent) : cstate * wres :=
  let st := cs_st cs in
  match alloc_lower t (u_size e) (u_align e) (u_kind e) h (tmp_tag st) with
  | AIOk t' off => commit_move cs (set_block st id t') slot e bi bi id off
  | AINo t' => (cs_set_st cs (set_block st id t'), WCont)
  | AIPanic => (cs, WPanic PMeta)
  end.

(* "if offset != 0 && MayHaveFreeBlock(...) { allocIfLowerOffset ... }" on the current block *)
Definition lower_if (cs0 : cstate) (bi id : Z) (h : Z) (slot : nat) (e : uent) : cstate * wres :=
  match find_id id (d_blocks (cs_st cs0)) with
  | None => (cs0, WPanic PMeta)
  | Some t =>
    if negb (h =? 0) && may_have_free t (u_kind e) (u_size e)
    then try_lower cs0 bi id t h slot e
    else (cs0, WCont)
  end.

(* the three suballocation handlers; ix = indexed block list *)
Definition handle_alloc (algo : Z) (ix : list (Z * Z)) (cs : cstate) (bi id : Z) (h : Z) (slot : nat) (e : uent)
  : cstate * wres :=
  let st := cs_st cs in
  let cands := firstn (Z.to_nat bi) ix in
  if algo =? 0 then
    (* reallocSuballocHandler (single block) *)
    lower_if cs bi id h slot e
  else if algo =? 1 then
    (* defragFastSuballocHandler *)
    if bi =? 0 then (cs, WStop) else
    match alloc_other st cands (u_size e) (u_align e) (u_kind e) with
    | AOFound st' idx did off => commit_move cs st' slot e bi idx did off
    | AONone st' => (cs_set_st cs st', WCont)
    | AOPanic st' => (cs_set_st cs st', WPanic PMeta)
    end
  else
    (* defragFullSuballocHandler *)
    if 0 <? bi then
      match alloc_other st cands (u_size e) (u_align e) (u_kind e) with
      | AOFound st' idx did off => commit_move cs st' slot e bi idx did off
      | AONone st' => lower_if (cs_set_st cs st') bi id h slot e
      | AOPanic st' => (cs_set_st cs st', WPanic PMeta)
      end
    else lower_if cs bi id h slot e.

(* one iteration of the walk: getMoveData, checkCounters, handler *)
Definition visit (algo : Z) (ix : list (Z * Z)) (cs : cstate) (bi id : Z) (h : Z) : cstate * wres :=
  match find_id id (d_blocks (cs_st cs)) with
  | None => (cs, WPanic PMeta)
  | Some t =>
    match get_move_data (cs_st cs) t h with
    | MDPanic => (cs, WPanic PMeta)
    | MDImmobile => (cs, WCont)
    | MDMove slot e =>
      let '(p1, c) := check_counters (cs_pass cs) (u_size e) in
      let cs1 := cs_set_pass cs p1 in
      match c with
      | CIgnore => (cs1, WCont)
      | CEnd => (cs1, WStop)
      | CPass => handle_alloc algo ix cs1 bi id h slot e
      end
    end
  end.

(* Go: FindNextAllocation: the taken region below handle h *)
Definition next_alloc (t : tlsf) (h : Z) : option Z :=
  hd_error (filter (fun o => o <? h) (iterate t)).

Inductive lbres := LBNone | LBSome (h : Z) | LBPanic.

(* Go: AllocationListBegin *)
Definition list_begin (t : tlsf) : lbres :=
  if t_alloc_count t =? 0 then LBNone else
  match iterate t with
  | [] => LBPanic
  | h :: _ => LBSome h
  end.

Fixpoint walk_block (fuel : nat) (algo : Z) (ix : list (Z * Z)) (cs : cstate) (bi id : Z) (h : Z) : cstate * wres :=
  match fuel with
  | O => (cs, WPanic PFuel)
  | S f =>
    match visit algo ix cs bi id h with
    | (cs', WCont) =>
      match find_id id (d_blocks (cs_st cs')) with
      | None => (cs', WPanic PMeta)
      | Some t' =>
        match next_alloc t' h with
        | None => (cs', WCont)
        | Some h' => walk_block f algo ix cs' bi id h'
        end
      end
    | r => r
    end
  end.

(* Go: walkSuballocations; srcs = (index, id) of the blocks BlockCount-1 down to immovableBlockCount *)
Fixpoint walk_blocks (fuel : nat) (algo : Z) (ix : list (Z * Z)) (cs : cstate) (srcs : list (Z * Z)) : cstate * wres :=
  match srcs with
  | [] => (cs, WCont)
  | (bi, id) :: rest =>
    match find_id id (d_blocks (cs_st cs)) with
    | None => (cs, WPanic PMeta)
    | Some t =>
      match list_begin t with
      | LBPanic => (cs, WPanic PMeta)
      | LBNone => walk_blocks fuel algo ix cs rest
      | LBSome h =>
        match walk_block fuel algo ix cs bi id h with
        | (cs', WCont) => walk_blocks fuel algo ix cs' rest
        | r => r
        end
      end
    end
  end.

(* enough for every walk of one pass (DefragProofs.collect_never_panics): each visit of a block's
   walk is a distinct allocation object of that block, a pass at most doubles the number of
   allocation objects, and a visited user allocation adds at most one temporary below it *)
Definition walk_fuel (st : dstate) : nat := 4 * length (d_table st) + 4.

(* Go: BlockListCollectMoves.  The handler selector: 0 = realloc (single block), 1 fast, 2 full *)
Definition collect_moves (st : dstate) (c : dctx) (p : pass) : cstate * wres :=
  let n := zlen (d_blocks st) in
  let ix := indexed st in
  let srcs := rev (skipn (Z.to_nat (c_immovable c)) ix) in
  let cs0 := mkCS st (c_moves c) p in
  let fuel := walk_fuel st in
  if 1 <? n then
    if c_algo c =? 1 then walk_blocks fuel 1 ix cs0 srcs
    else if c_algo c =? 2 then walk_blocks fuel 2 ix cs0 srcs
    else (cs0, WPanic PAlgo)
  else if (n =? 1) && negb (c_algo c =? 1) then walk_blocks fuel 0 ix cs0 srcs
  else (cs0, WCont).

(* ---------------------------------------------------------------- completing a pass *)

(* Go: BlockList.AddStatistics, the two fields BlockListCompletePass reads *)
Definition blocks_stats (bl : list (Z * tlsf)) : Z * Z :=
  fold_left (fun acc b => let s := add_statistics (snd b) in (fst acc + s_allocs s, snd acc + s_alloc_bytes s))
            bl (0, 0).

Definition set_ud (st : dstate) (id off : Z) (tag : option Z) : dstate * rkind :=
  match find_id id (d_blocks st) with
  | None => (st, RError)
  | Some t =>
    match set_user_data t off tag with
    | Some t' => (set_block st id t', ROk)
    | None => (st, RError)
    end
  end.

Definition bind_k (r : dstate * rkind) (f : dstate -> dstate * rkind) : dstate * rkind :=
  match snd r with ROk => f (fst r) | _ => r end.

(* the DefragmentOperationHandler of the reference block list; d: 0 copy, 1 ignore, 2 destroy *)
Definition handler_move (st : dstate) (m : move) (d : Z) : dstate * rkind :=
  match entry st (m_src m), entry st (m_tmp m) with
  | Some es, Some et =>
    if d =? 1 then free_slot st (m_tmp m)
    else if d =? 2 then bind_k (free_slot st (m_src m)) (fun st1 => free_slot st1 (m_tmp m))
    else
      (* swapBlockAllocation: user data of the old place := temporary; swap block data; user data
         of the new place := source *)
      bind_k (set_ud st (u_blk es) (u_off es) (Some (Z.of_nat (m_tmp m)))) (fun st1 =>
      let es' := mkU (u_blk et) (u_off et) (u_size es) (u_align es) (u_kind es) (u_tag es) (u_temp es) in
      let et' := mkU (u_blk es) (u_off es) (u_size et) (u_align et) (u_kind et) (u_tag et) (u_temp et) in
      let st2 := set_entry (set_entry st1 (m_src m) (Some es')) (m_tmp m) (Some et') in
      bind_k (set_ud st2 (u_blk es') (u_off es') (Some (Z.of_nat (m_src m)))) (fun st3 =>
      free_slot st3 (m_tmp m)))
  | _, _ => (st, RError)
  end.

Definition norm_decision (d : Z) : Z := if (d =? 1) || (d =? 2) then d else 0.

Fixpoint mem_zb (x : Z) (l : list Z) : bool :=
  match l with [] => false | y :: r => (y =? x) || mem_zb x r end.

Record cpstate := mkCP {
  cp_st : dstate;
  cp_pass : pass;
  cp_imm : list Z;       (* ids of the blocks with an ignored move, first occurrence order *)
  cp_err : bool
}.

(* the per-move loop of BlockListCompletePass *)
Fixpoint complete_moves (cp : cpstate) (ms : list move) (ds : list Z) : cpstate * bool (* panicked *) :=
  match ms with
  | [] => (cp, false)
  | m :: rest =>
    let d := norm_decision (hd 0 ds) in
    let '(pc, pb) := blocks_stats (d_blocks (cp_st cp)) in
    match handler_move (cp_st cp) m d with
    | (st1, RPanic) => (mkCP st1 (cp_pass cp) (cp_imm cp) (cp_err cp), true)
    | (st1, ROk) =>
      let '(ac, ab) := blocks_stats (d_blocks st1) in
      let s := p_stats (cp_pass cp) in
      let s1 := mkPS (ps_bytes_moved s) (ps_bytes_freed s + (pb - ab)) (ps_allocs_moved s) (ps_allocs_freed s + (pc - ac)) in
      let s2 := if (d =? 1) || (d =? 2)
                then mkPS (ps_bytes_moved s1 - m_size m) (ps_bytes_freed s1) (ps_allocs_moved s1 - 1) (ps_allocs_freed s1)
                else s1 in
      let imm := if (d =? 1) && negb (mem_zb (m_srcblk m) (cp_imm cp)) then cp_imm cp ++ [m_srcblk m] else cp_imm cp in
      complete_moves (mkCP st1 (set_stats (cp_pass cp) s2) imm (cp_err cp)) rest (tl ds)
    | (st1, _) =>
      complete_moves (mkCP st1 (cp_pass cp) (cp_imm cp) true) rest (tl ds)
    end
  end.

Fixpoint index_from (id : Z) (bl : list (Z * tlsf)) (i : Z) : option Z :=
  match bl with
  | [] => None
  | (j, _) :: r => if j =? id then Some i else index_from id r (i + 1)
  end.

Definition swap_nth {A} (i j : nat) (l : list A) : list A :=
  match nth_error l i, nth_error l j with
  | Some a, Some b => update_nth j (fun _ => a) (update_nth i (fun _ => b) l)
  | _, _ => l
  end.

(* Go: swapImmovableBlocks: look for the block at the indices >= immovableBlockCount *)
Definition swap_immovable (bl : list (Z * tlsf)) (immc : Z) (id : Z) : list (Z * tlsf) * Z * option (Z * Z) :=
  match index_from id (skipn (Z.to_nat immc) bl) immc with
  | Some i => (swap_nth (Z.to_nat i) (Z.to_nat immc) bl, immc + 1, Some (i, immc))
  | None => (bl, immc, None)
  end.

Fixpoint dedup (l : list Z) (seen : list Z) : list Z :=
  match l with
  | [] => []
  | x :: r => if mem_zb x seen then dedup r seen else x :: dedup r (x :: seen)
  end.

(* Go iterates a map: the order is not determined by the program.  `ord` is the order the run
   took (as far as it is observable: the blocks that were swapped); members of the set that ord
   does not name follow in first-occurrence order. *)
Definition swap_order (ord imm : list Z) : list Z :=
  let o := filter (fun x => mem_zb x imm) (dedup ord []) in
  o ++ filter (fun x => negb (mem_zb x o)) imm.

Fixpoint swap_all (bl : list (Z * tlsf)) (immc : Z) (ids : list Z) (acc : list (Z * Z))
  : list (Z * tlsf) * Z * list (Z * Z) :=
  match ids with
  | [] => (bl, immc, acc)
  | id :: r =>
    match swap_immovable bl immc id with
    | (bl', immc', Some sw) => swap_all bl' immc' r (acc ++ [sw])
    | (bl', immc', None) => swap_all bl' immc' r acc
    end
  end.

Record cpres := mkCPR {
  r_st : dstate;
  r_ctx : dctx;
  r_pass : pass;
  r_kind : rkind;              (* ROk, RError (some handler call failed), RPanic *)
  r_swaps : list (Z * Z)       (* the SwapBlocks calls *)
}.

(* Go: BlockListCompletePass; ds = MoveOperation per move, ord = map iteration order taken *)
Definition complete_pass (st : dstate) (c : dctx) (p : pass) (ds ord : list Z) : cpres :=
  match complete_moves (mkCP st p [] false) (c_moves c) ds with
  | (cp, true) => mkCPR (cp_st cp) c (cp_pass cp) RPanic []
  | (cp, false) =>
    let '(bl, immc, sws) := swap_all (d_blocks (cp_st cp)) (c_immovable c) (swap_order ord (cp_imm cp)) [] in
    mkCPR (set_blocks (cp_st cp) bl) (mkC (c_algo c) [] immc) (cp_pass cp)
          (if cp_err cp then RError else ROk) sws
  end.

(* ---------------------------------------------------------------- the harness protocol *)

Record world := mkW {
  w_st : dstate;
  w_ctx : option dctx;
  w_begun : bool;
  w_max_bytes : Z;
  w_max_allocs : Z;
  w_pass : option pass;
  w_open : bool;
  w_run : pstats;
  w_dead : bool
}.

Definition world_init (sizes : list Z) (sentinel : bool) : world :=
  mkW (dstate_init sizes sentinel) None false 0 0 None false ps_zero false.

Definition world_init_g (h : handler) (g : Z) (sizes : list Z) (sentinel : bool) : world :=
  mkW (dstate_init_g h g sizes sentinel) None false 0 0 None false ps_zero false.

Inductive wop :=
| OpAlloc (id size align kind tag : Z)
| OpFree (slot : Z)
| OpBegin (algo mb ma reuse : Z)
| OpPass
| OpEnd (ds ord : list Z)
| OpStats.

Inductive wout :=
| OutKind (k : rkind)
| OutAlloc (slot : nat) (off : Z)
| OutNoBlock | OutNoLive | OutBusy | OutNoBegin | OutDead
| OutPass (ms : list move)
| OutEnd (k : rkind) (swaps : list (Z * Z))
| OutStats (s : pstats).

Definition lim (v : Z) : Z := if v <? 0 then max_int else v.

Definition w_set_st (w : world) (st : dstate) : world :=
  mkW st (w_ctx w) (w_begun w) (w_max_bytes w) (w_max_allocs w) (w_pass w) (w_open w) (w_run w) (w_dead w).

Definition kill (w : world) : world :=
  mkW (w_st w) (w_ctx w) (w_begun w) (w_max_bytes w) (w_max_allocs w) (w_pass w) (w_open w) (w_run w) true.

Definition pending (w : world) : list move :=
  match w_ctx w with Some c => if w_open w then c_moves c else [] | None => [] end.

(* Go: MetadataDefragContext.Init on a context object (used before or brand new): Algorithm zero
   value means Full; c.moves = c.moves[:0]; c.immovableBlockCount = 0 *)
Definition ctx_init (c0 : dctx) (algo : Z) : dctx :=
  mkC (if algo =? 0 then 2 else algo) (firstn 0 (c_moves c0)) 0.

Definition wstep (w : world) (o : wop) : world * wout :=
  if w_dead w then (w, OutDead) else
  match o with
  | OpAlloc id size align kind tag =>
    match user_alloc (w_st w) id size align kind tag with
    | (st', UOk s off) => (w_set_st w st', OutAlloc s off)
    | (st', URefused) => (w_set_st w st', OutKind RRefused)
    | (st', UError) => (w_set_st w st', OutKind RError)
    | (st', UNoBlock) => (w, OutNoBlock)
    | (st', UPanic) => (kill w, OutKind RPanic)
    end
  | OpFree slot =>
    if slot <? 0 then (w, OutNoLive) else
    match entry (w_st w) (Z.to_nat slot) with
    | None => (w, OutNoLive)
    | Some e =>
      if u_temp e then (w, OutNoLive) else
      if existsb (fun m => Nat.eqb (m_src m) (Z.to_nat slot)) (pending w) then (w, OutBusy) else
      match free_slot (w_st w) (Z.to_nat slot) with
      | (st', RPanic) => (kill w, OutKind RPanic)
      | (st', k) => (w_set_st w st', OutKind k)
      end
    end
  | OpBegin algo mb ma reuse =>
    if w_open w then (w, OutBusy) else
    if (algo <? 0) || (2 <? algo) then (w, OutKind RError) else
    let c := match w_ctx w with
             | Some c0 => if reuse =? 1 then ctx_init c0 algo else ctx_init (mkC 0 [] 0) algo
             | None => ctx_init (mkC 0 [] 0) algo
             end in
    (mkW (w_st w) (Some c) true mb ma None false ps_zero false, OutKind ROk)
  | OpPass =>
    if negb (w_begun w) then (w, OutNoBegin) else
    if w_open w then (w, OutBusy) else
    match w_ctx w with
    | None => (w, OutNoBegin)
    | Some c =>
      let p := pass_init (lim (w_max_bytes w)) (lim (w_max_allocs w)) in
      match collect_moves (w_st w) c p with
      | (cs, WPanic _) => (kill w, OutKind RPanic)
      | (cs, _) =>
        (mkW (cs_st cs) (Some (mkC (c_algo c) (cs_moves cs) (c_immovable c))) true (w_max_bytes w) (w_max_allocs w)
             (Some (cs_pass cs)) true (w_run w) false, OutPass (cs_moves cs))
      end
    end
  | OpEnd ds ord =>
    match w_ctx w, w_pass w with
    | Some c, Some p =>
      if negb (w_open w) then (w, OutKind RError) else
      let r := complete_pass (w_st w) c p ds ord in
      let w' := mkW (r_st r) (Some (r_ctx r)) (w_begun w) (w_max_bytes w) (w_max_allocs w) (Some (r_pass r)) false
                    (ps_add (w_run w) (p_stats (r_pass r))) false in
      match r_kind r with
      | RPanic => (kill w, OutEnd RPanic [])
      | k => (w', OutEnd k (r_swaps r))
      end
    | _, _ => (w, OutKind RError)
    end
  | OpStats => (w, OutStats (w_run w))
  end.

(* ---------------------------------------------------------------- an undisturbed run *)

(* one pass (collect + complete) with no user operation in between and every move decided by
   `decide` (a decision vector per pass; [] = every move Copy).  None = a panic or a failed
   handler call. *)
Definition one_pass (st : dstate) (c : dctx) (mb ma : Z) (ds ord : list Z)
  : option (dstate * dctx * pass * list move) :=
  match collect_moves st c (pass_init mb ma) with
  | (cs, WPanic _) => None
  | (cs, _) =>
    let c1 := mkC (c_algo c) (cs_moves cs) (c_immovable c) in
    let r := complete_pass (cs_st cs) c1 (cs_pass cs) ds ord in
    match r_kind r with
    | ROk => Some (r_st r, r_ctx r, r_pass r, cs_moves cs)
    | _ => None
    end
  end.

Inductive runres :=
| RunDone (st : dstate) (passes : nat) (acc : pstats) (log : list (list move))   (* a pass proposed no move *)
| RunFailed
| RunOutOfFuel.

(* passes with every move copied, until a pass proposes nothing; acc = DefragmentationStats.Add
   of every pass (vam: DefragmentationContext.stats); log = the moves of every pass *)
Fixpoint run_copy (fuel : nat) (st : dstate) (c : dctx) (mb ma : Z) (acc : pstats) (n : nat)
         (log : list (list move)) : runres :=
  match fuel with
  | O => RunOutOfFuel
  | S f =>
    match one_pass st c mb ma [] [] with
    | None => RunFailed
    | Some (st', c', p', ms) =>
      let acc' := ps_add acc (p_stats p') in
      match ms with
      | [] => RunDone st' n acc' (log ++ [ms])
      | _ => run_copy f st' c' mb ma acc' (S n) (log ++ [ms])
      end
    end
  end.

(* one undisturbed pass whose decisions (MoveOperation per move, map iteration order) are chosen
   after the moves are known *)
Definition one_pass_with (st : dstate) (c : dctx) (mb ma : Z) (decide : list move -> list Z * list Z)
  : option (dstate * dctx * pass * list move) :=
  let ms := cs_moves (fst (collect_moves st c (pass_init mb ma))) in
  one_pass st c mb ma (fst (decide ms)) (snd (decide ms)).

(* an undisturbed run with arbitrary decisions: dec n ms = decisions of pass n for the moves ms *)
Fixpoint run_any (fuel : nat) (st : dstate) (c : dctx) (mb ma : Z)
         (dec : nat -> list move -> list Z * list Z) (acc : pstats) (n : nat) (log : list (list move)) : runres :=
  match fuel with
  | O => RunOutOfFuel
  | S f =>
    match one_pass_with st c mb ma (dec n) with
    | None => RunFailed
    | Some (st', c', p', ms) =>
      let acc' := ps_add acc (p_stats p') in
      match ms with
      | [] => RunDone st' n acc' (log ++ [ms])
      | _ => run_any f st' c' mb ma dec acc' (S n) (log ++ [ms])
      end
    end
  end.

(* ---------------------------------------------------------------- a planner whose commits can fail *)

(* BlockList.CommitDefragAllocationRequest may return an error (vam: mapping the destination block
   for a persistently mapped source fails).  Both callers swallow it: allocInOtherBlock goes on to
   the next candidate block, allocIfLowerOffset answers false.  CreateAllocationRequest has run by
   then (the metadata is in the state t1 it leaves: same regions, possibly another free-list
   order); metadata.Alloc has not.  The planner only sees err != nil: the outcome of every commit
   attempt is given by an attempt function over an environment the caller threads through,
       att e (source slot) (destination block id) = (e', commit succeeded).
   Every attempt is logged.  With att := fun e _ _ => (e, true) these functions are the ones
   above (collect_moves_f_all_ok). *)

Inductive attempt :=
| AtFail (slot : nat) (dst : Z)      (* a commit that returned an error: nothing proposed, nothing reserved *)
| AtOk (m : move).                   (* a commit that succeeded: the move it added *)

Definition at_dst (a : attempt) : Z := match a with AtFail _ d => d | AtOk m => m_dstblk m end.

Fixpoint log_moves (lg : list attempt) : list move :=
  match lg with
  | [] => []
  | AtOk m :: r => m :: log_moves r
  | AtFail _ _ :: r => log_moves r
  end.

(* the move commit_move appends *)
Definition commit_mv (st' : dstate) (slot : nat) (e : uent) (bi : Z) (dstidx dstid off : Z) : move :=
  mkMove slot (length (d_table st')) (u_blk e) bi (u_off e) dstid dstidx off (u_size e).

Section F.
Variable E : Type.
Variable att : E -> nat -> Z -> E * bool.

(* CreateAllocationRequest, then the commit attempt, then (when it succeeds) metadata.Alloc.
   The boolean: an attempt was made and failed. *)
Definition alloc_in_f (t : tlsf) (size align kind strategy maxOffset : Z) (tag : option Z)
           (env : E) (slot : nat) (dst : Z) : aires * E * bool :=
  match create_request t size align false kind strategy maxOffset with
  | QGranted t1 r =>
    let '(env', ok) := att env slot dst in
    if ok then
      match alloc t1 r tag size align with
      | AOk t2 h => (AIOk t2 h, env', false)
      | AError => (AINo t1, env', true)
      | APanic => (AIPanic, env', false)
      end
    else (AINo t1, env', true)
  | QRefused => (AINo t, env, false)
  | QError => (AINo t, env, false)
  | QPanic => (AIPanic, env, false)
  end.

Definition alloc_lower_f (t : tlsf) (size align kind offset : Z) (tag : option Z)
           (env : E) (slot : nat) (dst : Z) : aires * E * bool :=
  match create_request t size align false kind 4 offset with
  | QGranted t1 r =>
    if rq_block r <? offset then
      let '(env', ok) := att env slot dst in
      if ok then
        match alloc t1 r tag size align with
        | AOk t2 h => (AIOk t2 h, env', false)
        | AError => (AINo t1, env', true)
        | APanic => (AIPanic, env', false)
        end
      else (AINo t1, env', true)
    else (AINo t1, env, false)
  | QRefused => (AINo t, env, false)
  | QError => (AIPanic, env, false)
  | QPanic => (AIPanic, env, false)
  end.

Definition fail_log (failed : bool) (slot : nat) (dst : Z) : list attempt :=
  if failed then [AtFail slot dst] else [].

Fixpoint alloc_other_f (st : dstate) (cands : list (Z * Z)) (size align kind : Z) (env : E) (slot : nat)
  : aores * E * list attempt :=
  match cands with
  | [] => (AONone st, env, [])
  | (idx, id) :: rest =>
    match find_id id (d_blocks st) with
    | None => (AOPanic st, env, [])
    | Some t =>
      if may_have_free t kind size then
        match alloc_in_f t size align kind 0 max_int (tmp_tag st) env slot id with
        | (AIOk t' off, env', _) => (AOFound (set_block st id t') idx id off, env', [])
        | (AINo t', env', failed) =>
          let '(r, env'', lg) := alloc_other_f (set_block st id t') rest size align kind env' slot in
          (r, env'', fail_log failed slot id ++ lg)
        | (AIPanic, env', _) => (AOPanic st, env', [])
        end
      else alloc_other_f st rest size align kind env slot
    end
  end.

Definition try_lower_f (cs : cstate) (bi id : Z) (t : tlsf) (h : Z) (slot : nat) (e : uent) (env : E)
  : (cstate * E * list attempt) * wres :=
  let st := cs_st cs in
  match alloc_lower_f t (u_size e) (u_align e) (u_kind e) h (tmp_tag st) env slot id with
  | (AIOk t' off, env', _) =>
    let '(cs', r) := commit_move cs (set_block st id t') slot e bi bi id off in
    ((cs', env', [AtOk (commit_mv (set_block st id t') slot e bi bi id off)]), r)
  | (AINo t', env', failed) => ((cs_set_st cs (set_block st id t'), env', fail_log failed slot id), WCont)
  | (AIPanic, env', _) => ((cs, env', []), WPanic PMeta)
  end.

Definition lower_if_f (cs0 : cstate) (bi id : Z) (h : Z) (slot : nat) (e : uent) (env : E)
  : (cstate * E * list attempt) * wres :=
  match find_id id (d_blocks (cs_st cs0)) with
  | None => ((cs0, env, []), WPanic PMeta)
  | Some t =>
    if negb (h =? 0) && may_have_free t (u_kind e) (u_size e)
    then try_lower_f cs0 bi id t h slot e env
    else ((cs0, env, []), WCont)
  end.

Definition handle_alloc_f (algo : Z) (ix : list (Z * Z)) (cs : cstate) (bi id : Z) (h : Z) (slot : nat) (e : uent)
           (env : E) : (cstate * E * list attempt) * wres :=
  let st := cs_st cs in
  let cands := firstn (Z.to_nat bi) ix in
  let found (st' : dstate) (idx did off : Z) (env' : E) (lg : list attempt) :=
    let '(cs', r) := commit_move cs st' slot e bi idx did off in
    ((cs', env', lg ++ [AtOk (commit_mv st' slot e bi idx did off)]), r) in
  if algo =? 0 then lower_if_f cs bi id h slot e env
  else if algo =? 1 then
    if bi =? 0 then ((cs, env, []), WStop) else
    match alloc_other_f st cands (u_size e) (u_align e) (u_kind e) env slot with
    | (AOFound st' idx did off, env', lg) => found st' idx did off env' lg
    | (AONone st', env', lg) => ((cs_set_st cs st', env', lg), WCont)
    | (AOPanic st', env', lg) => ((cs_set_st cs st', env', lg), WPanic PMeta)
    end
  else
    if 0 <? bi then
      match alloc_other_f st cands (u_size e) (u_align e) (u_kind e) env slot with
      | (AOFound st' idx did off, env', lg) => found st' idx did off env' lg
      | (AONone st', env', lg) =>
        let '((cs', env'', lg2), r) := lower_if_f (cs_set_st cs st') bi id h slot e env' in
        ((cs', env'', lg ++ lg2), r)
      | (AOPanic st', env', lg) => ((cs_set_st cs st', env', lg), WPanic PMeta)
      end
    else lower_if_f cs bi id h slot e env.

Definition visit_f (algo : Z) (ix : list (Z * Z)) (cs : cstate) (bi id : Z) (h : Z) (env : E)
  : (cstate * E * list attempt) * wres :=
  match find_id id (d_blocks (cs_st cs)) with
  | None => ((cs, env, []), WPanic PMeta)
  | Some t =>
    match get_move_data (cs_st cs) t h with
    | MDPanic => ((cs, env, []), WPanic PMeta)
    | MDImmobile => ((cs, env, []), WCont)
    | MDMove slot e =>
      let '(p1, c) := check_counters (cs_pass cs) (u_size e) in
      let cs1 := cs_set_pass cs p1 in
      match c with
      | CIgnore => ((cs1, env, []), WCont)
      | CEnd => ((cs1, env, []), WStop)
      | CPass => handle_alloc_f algo ix cs1 bi id h slot e env
      end
    end
  end.

Fixpoint walk_block_f (fuel : nat) (algo : Z) (ix : list (Z * Z)) (cs : cstate) (bi id : Z) (h : Z) (env : E)
  : (cstate * E * list attempt) * wres :=
  match fuel with
  | O => ((cs, env, []), WPanic PFuel)
  | S f =>
    match visit_f algo ix cs bi id h env with
    | ((cs', env', lg), WCont) =>
      match find_id id (d_blocks (cs_st cs')) with
      | None => ((cs', env', lg), WPanic PMeta)
      | Some t' =>
        match next_alloc t' h with
        | None => ((cs', env', lg), WCont)
        | Some h' =>
          let '((cs'', env'', lg2), r) := walk_block_f f algo ix cs' bi id h' env' in
          ((cs'', env'', lg ++ lg2), r)
        end
      end
    | r => r
    end
  end.

Fixpoint walk_blocks_f (fuel : nat) (algo : Z) (ix : list (Z * Z)) (cs : cstate) (srcs : list (Z * Z)) (env : E)
  : (cstate * E * list attempt) * wres :=
  match srcs with
  | [] => ((cs, env, []), WCont)
  | (bi, id) :: rest =>
    match find_id id (d_blocks (cs_st cs)) with
    | None => ((cs, env, []), WPanic PMeta)
    | Some t =>
      match list_begin t with
      | LBPanic => ((cs, env, []), WPanic PMeta)
      | LBNone => walk_blocks_f fuel algo ix cs rest env
      | LBSome h =>
        match walk_block_f fuel algo ix cs bi id h env with
        | ((cs', env', lg), WCont) =>
          let '((cs'', env'', lg2), r) := walk_blocks_f fuel algo ix cs' rest env' in
          ((cs'', env'', lg ++ lg2), r)
        | r => r
        end
      end
    end
  end.

(* Go: BlockListCollectMoves with failing commits *)
Definition collect_moves_f (st : dstate) (c : dctx) (p : pass) (env : E) : (cstate * E * list attempt) * wres :=
  let n := zlen (d_blocks st) in
  let ix := indexed st in
  let srcs := rev (skipn (Z.to_nat (c_immovable c)) ix) in
  let cs0 := mkCS st (c_moves c) p in
  let fuel := walk_fuel st in
  if 1 <? n then
    if c_algo c =? 1 then walk_blocks_f fuel 1 ix cs0 srcs env
    else if c_algo c =? 2 then walk_blocks_f fuel 2 ix cs0 srcs env
    else ((cs0, env, []), WPanic PAlgo)
  else if (n =? 1) && negb (c_algo c =? 1) then walk_blocks_f fuel 0 ix cs0 srcs env
  else ((cs0, env, []), WCont).

End F.

(* an undisturbed pass / run whose commits can fail: the environment is threaded through the passes *)
Section RunF.
Variable E : Type.
Variable att : E -> nat -> Z -> E * bool.

Definition one_pass_f (st : dstate) (c : dctx) (mb ma : Z) (decide : list move -> list Z * list Z) (env : E)
  : option (dstate * dctx * pass * list move * E * list attempt) :=
  match collect_moves_f E att st c (pass_init mb ma) env with
  | ((cs, env', lg), WPanic _) => None
  | ((cs, env', lg), _) =>
    let c1 := mkC (c_algo c) (cs_moves cs) (c_immovable c) in
    let d := decide (cs_moves cs) in
    let r := complete_pass (cs_st cs) c1 (cs_pass cs) (fst d) (snd d) in
    match r_kind r with
    | ROk => Some (r_st r, r_ctx r, r_pass r, cs_moves cs, env', lg)
    | _ => None
    end
  end.

Fixpoint run_any_f (fuel : nat) (st : dstate) (c : dctx) (mb ma : Z)
         (dec : nat -> list move -> list Z * list Z) (env : E) (acc : pstats) (n : nat) (log : list (list move)) : runres :=
  match fuel with
  | O => RunOutOfFuel
  | S f =>
    match one_pass_f st c mb ma (dec n) env with
    | None => RunFailed
    | Some (st', c', p', ms, env', _) =>
      let acc' := ps_add acc (p_stats p') in
      match ms with
      | [] => RunDone st' n acc' (log ++ [ms])
      | _ => run_any_f f st' c' mb ma dec env' acc' (S n) (log ++ [ms])
      end
    end
  end.
End RunF.

(* the result without environment and log *)
Definition res_f {E} (r : (cstate * E * list attempt) * wres) : cstate * wres := (fst (fst (fst r)), snd r).
Definition log_f {E} (r : (cstate * E * list attempt) * wres) : list attempt := snd (fst r).
Definition env_f {E} (r : (cstate * E * list attempt) * wres) : E := snd (fst (fst r)).

(* ---------------------------------------------------------------- the harness protocol with failing commits *)

(* `CF k1 k2 ...` before PASS: the k-th commit attempts (0-based) of the next pass fail *)
Definition att_list (env : nat * list Z) (_ : nat) (_ : Z) : (nat * list Z) * bool :=
  ((S (fst env), snd env), negb (mem_zb (Z.of_nat (fst env)) (snd env))).

Record worldf := mkWf { wf_w : world; wf_fail : list Z }.

Inductive wopf := OpF (o : wop) | OpCF (ks : list Z).

Definition wstep_f (wf : worldf) (o : wopf) : worldf * wout * list attempt :=
  let w := wf_w wf in
  match o with
  | OpCF ks => if w_dead w then (wf, OutDead, []) else (mkWf w ks, OutKind ROk, [])
  | OpF OpPass =>
    if w_dead w then (wf, OutDead, []) else
    if negb (w_begun w) then (wf, OutNoBegin, []) else
    if w_open w then (wf, OutBusy, []) else
    match w_ctx w with
    | None => (wf, OutNoBegin, [])
    | Some c =>
      let p := pass_init (lim (w_max_bytes w)) (lim (w_max_allocs w)) in
      match collect_moves_f (nat * list Z) att_list (w_st w) c p (O, wf_fail wf) with
      | ((cs, _, lg), WPanic _) => (mkWf (kill w) [], OutKind RPanic, [])
      | ((cs, _, lg), _) =>
        (mkWf (mkW (cs_st cs) (Some (mkC (c_algo c) (cs_moves cs) (c_immovable c))) true (w_max_bytes w) (w_max_allocs w)
                   (Some (cs_pass cs)) true (w_run w) false) [],
         OutPass (cs_moves cs), lg)
      end
    end
  | OpF o' => let '(w', out) := wstep w o' in (mkWf w' (wf_fail wf), out, [])
  end.
