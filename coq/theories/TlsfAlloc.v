(* TlsfAlloc.v — what Alloc does to the chain: the granted block appears as one new taken block
   at the granted offset, inside the free block it was cut from; every other taken block is
   untouched; Inv1 is preserved. *)
From Coq Require Import ZArith List Bool Lia.
From Arsenal Require Import Util Gran Tlsf TlsfGeom TlsfInv1 TlsfFree.
Import ListNotations.
Open Scope Z_scope.

Lemma chain_pre_lt o pre x post :
  chain_from o (pre ++ x :: post) -> Forall (fun a => b_off a < b_off x) pre.
Proof.
  intros H. apply Forall_forall. intros a Ha.
  assert (Hx : In x (x :: post)) by (left; reflexivity).
  pose proof (chain_split_order _ _ _ _ _ _ H Ha Hx).
  apply chain_from_app in H. destruct H as (Hp & _).
  pose proof (chain_in_bounds _ _ _ Hp Ha). lia.
Qed.

Lemma below_ge h pre x : Forall (fun a => b_off a < b_off x) pre -> b_off x <= h -> below h pre.
Proof.
  intros H Hle. eapply Forall_impl; [|exact H]. cbn. intros a Ha. lia.
Qed.

Definition pad_blks (pad_off missing : Z) : list blk :=
  if missing =? 0 then [] else [mkBlk pad_off missing true None 0 0 1].

Definition rest_blks (off size : Z) : list blk :=
  if size =? 0 then [] else [mkBlk off size true None 0 0 1].

Definition taken_blk (r : request) (tag : option Z) (rs ra : Z) : blk :=
  mkBlk (rq_offset r) (rq_size r) false tag (rq_type r) rs ra.

(* the request is well placed inside the free block b *)
Record fits (r : request) (b : blk) (rs ra : Z) : Prop := mkFits {
  f_lo : b_off b <= rq_offset r;
  f_hi : rq_size r + rq_offset r - b_off b <= b_size b;
  f_pos : 1 <= rq_size r;
  f_ra : 0 < ra;
  f_al : rq_offset r mod ra = 0;
  f_rs : rs <= rq_size r
}.

Lemma upd_region_g' g s f g' : upd_region g s f = Some g' -> g_g g' = g_g g.
Proof. unfold upd_region. destruct (region_at g s); [|discriminate]. intros H; injection H as <-. auto. Qed.

Lemma alloc_regions_g' g ty off sz g' : alloc_regions g ty off sz = Some g' -> g_g g' = g_g g.
Proof.
  unfold alloc_regions. destruct (negb (enabled g)); [intros H; injection H as <-; auto|].
  destruct (upd_region g _ _) as [g1|] eqn:E1; [|discriminate].
  apply upd_region_g' in E1. destruct (_ =? _); [intros H; injection H as <-; tauto|].
  intros H. apply upd_region_g' in H. congruence.
Qed.

Lemma finish_spec (t1 : tlsf) (r : request) off sz t' h :
  match alloc_regions (t_gran t1) (rq_type r) off sz with
  | None => APanic
  | Some g' =>
    AOk (mkT (t_size t1) g' (t_chain t1) (t_null t1) (t_lists t1) (t_bitmap t1) (t_inner t1)
             (t_alloc_count t1 + 1) (t_free_count t1) (t_free_size t1)) off
  end = AOk t' h ->
  h = off /\ t_chain t' = t_chain t1 /\ t_null t' = t_null t1 /\ t_size t' = t_size t1 /\
  t_alloc_count t' = t_alloc_count t1 + 1.
Proof.
  destruct (alloc_regions _ _ _ _); [|discriminate].
  intros H; injection H as <- <-. cbn. auto.
Qed.

Lemma alloc_gran t r tag rs ra t' h :
  alloc t r tag rs ra = AOk t' h -> g_g (t_gran t') = g_g (t_gran t).
Proof.
  assert (Hrm : forall t b t1, remove_free_block t b = Some t1 -> t_gran t1 = t_gran t).
  { intros ? ? ? H. apply remove_free_block_spec in H. tauto. }
  assert (Hin : forall t b t1, insert_free_block t b = Some t1 -> t_gran t1 = t_gran t).
  { intros ? ? ? H. apply insert_free_block_spec in H. tauto. }
  assert (Hpad : forall t p po co m n t1, pad_front t p po co m n = Some (Some t1) -> t_gran t1 = t_gran t).
  { intros t0 p po co m n t1. unfold pad_front. destruct p as [p|]; [|discriminate].
    destruct (_ && _).
    - destruct (negb _).
      + destruct (remove_free_block t0 p) eqn:E; [|discriminate]. intros H; injection H as H.
        apply Hin in H. apply Hrm in E. cbn in H. congruence.
      + intros H; injection H as <-. reflexivity.
    - intros H; injection H as H. apply Hin in H. exact H. }
  assert (Hfin : forall (t1 : tlsf) off sz,
             match alloc_regions (t_gran t1) (rq_type r) off sz with
             | None => APanic
             | Some g' => AOk (mkT (t_size t1) g' (t_chain t1) (t_null t1) (t_lists t1) (t_bitmap t1) (t_inner t1)
                                   (t_alloc_count t1 + 1) (t_free_count t1) (t_free_size t1)) off
             end = AOk t' h -> g_g (t_gran t') = g_g (t_gran t1)).
  { intros t1 off sz. destruct (alloc_regions _ _ _ _) eqn:E; [|discriminate].
    intros H; injection H as <- _. cbn. eapply alloc_regions_g'; eauto. }
  unfold alloc. destruct (rq_is_null r).
  - destruct (_ <? _); [discriminate|].
    destruct (if _ =? 0 then _ else _) as [[t1|]|] eqn:Ep; try discriminate.
    assert (Hg1 : t_gran t1 = t_gran t).
    { destruct (_ =? 0); [injection Ep as <-; reflexivity|]. eapply Hpad; eauto. }
    destruct (_ =? rq_size r).
    + intros H. apply Hfin in H. cbn in H. congruence.
    + destruct (_ <? rq_size r); [discriminate|]. intros H. apply Hfin in H. cbn in H. congruence.
  - destruct (find_blk _ _) as [cur|]; [|discriminate].
    destruct (_ <? _); [discriminate|].
    destruct (remove_free_block t cur) as [t0|] eqn:Er; cbn [bind_t]; [|discriminate].
    apply Hrm in Er.
    destruct (if _ =? 0 then _ else _) as [[t1|]|] eqn:Ep; try discriminate.
    assert (Hg1 : t_gran t1 = t_gran t).
    { destruct (_ =? 0); [injection Ep as <-; cbn; congruence|]. apply Hpad in Ep. cbn in Ep. congruence. }
    destruct (_ =? rq_size r).
    + intros H. apply Hfin in H. cbn in H. congruence.
    + destruct (_ <? rq_size r); [discriminate|].
      destruct (insert_free_block _ _) as [t3|] eqn:Ei; cbn [bind_t]; [|discriminate].
      apply Hin in Ei. cbn in Ei. intros H. apply Hfin in H. congruence.
Qed.

(* ------------------------------------------------------------------ allocation from the null block *)

Lemma alloc_null_spec t r tag rs ra t' h :
  Inv1 t -> rq_is_null r = true -> fits r (t_null t) rs ra ->
  alloc t r tag rs ra = AOk t' h ->
  Inv1 t' /\ h = rq_offset r /\ t_size t' = t_size t /\ t_alloc_count t' = t_alloc_count t + 1 /\
  t_chain t' = t_chain t ++ pad_blks (b_off (t_null t)) (rq_offset r - b_off (t_null t)) ++ [taken_blk r tag rs ra].
Proof.
  intros [Hgeo Hgh Hnaf Hlast] Hnull [Hlo Hhi Hpos Hra Hal Hrs]. unfold alloc. rewrite Hnull.
  destruct Hgeo as [Hch Hnoff Hnsz Htot Hnfree].
  set (cur := t_null t) in *.
  destruct (rq_offset r <? b_off cur) eqn:E1; [lia|].
  set (missing := rq_offset r - b_off cur).
  assert (Hmiss : 0 <= missing) by (unfold missing; lia).
  (* the padding step *)
  assert (Hpad : forall t1,
             (if missing =? 0 then Some (Some t)
              else pad_front t (last_blk (t_chain t)) (b_off cur) (b_off cur + missing) missing true) = Some (Some t1) ->
             t_chain t1 = t_chain t ++ pad_blks (b_off cur) missing /\ t_null t1 = t_null t /\
             t_size t1 = t_size t /\ t_alloc_count t1 = t_alloc_count t).
  { intros t1. unfold pad_blks. destruct (missing =? 0) eqn:Em.
    - intros H; injection H as <-. rewrite app_nil_r. auto.
    - unfold pad_front.
      destruct (list_last_split (t_chain t)) as [Hnil|(pre & p & Hp)].
      + rewrite Hnil. cbn. discriminate.
      + rewrite Hp, last_blk_app.
        unfold last_taken in Hlast. rewrite Hp, last_free_app in Hlast. cbn in Hlast.
        rewrite Hlast. cbn [andb].
        intros H; injection H as H.
        apply insert_free_block_spec in H.
        destruct H as (_ & Hc1 & Hn1 & Hs1 & _ & Ha1).
        cbn [with_chain t_chain t_null t_size t_alloc_count b_off b_size b_tag] in *.
        rewrite Hc1.
        assert (Hb : below (b_off cur) (pre ++ [p])).
        { apply Forall_forall. intros a Ha. rewrite Hp in Hch.
          pose proof (chain_in_bounds _ _ _ Hch Ha). rewrite Hp in Hnoff. lia. }
        replace ((pre ++ [p]) ++ [mkBlk (b_off cur) missing false None 0 0 1])
          with ((pre ++ [p]) ++ mkBlk (b_off cur) missing false None 0 0 1 :: []) by reflexivity.
        rewrite replace_blk_app by auto. auto. }
  destruct (if missing =? 0 then _ else _) as [[t1|]|] eqn:Epad; try discriminate.
  destruct (Hpad t1 eq_refl) as (Hc1 & Hn1 & Hs1 & Ha1). clear Hpad.
  assert (Hfinal : forall nullsz t2,
             0 <= nullsz -> nullsz = b_size cur - missing - rq_size r ->
             t_chain t2 = t_chain t1 ++ [taken_blk r tag rs ra] ->
             t_null t2 = free_blk (b_off cur + missing + rq_size r) nullsz ->
             t_size t2 = t_size t1 -> Inv1 t2).
  { intros nullsz t2 Hnz Hnz' Hc2 Hn2 Hs2.
    assert (Hcf : chain_from 0 (t_chain t2)).
    { rewrite Hc2, Hc1. apply chain_from_app. split.
      - apply chain_from_app. split; auto. unfold pad_blks. destruct (missing =? 0) eqn:Em; cbn; auto.
        repeat split; auto; lia.
      - rewrite chain_end_app. unfold pad_blks, taken_blk. destruct (missing =? 0) eqn:Em; cbn.
        + repeat split; auto; lia.
        + repeat split; auto; unfold missing; lia. }
    assert (Hce : chain_end 0 (t_chain t2) = b_off cur + missing + rq_size r).
    { rewrite Hc2, Hc1, !chain_end_app. unfold pad_blks, taken_blk. destruct (missing =? 0) eqn:Em; cbn; lia. }
    constructor.
    - constructor; auto; rewrite ?Hn2; cbn; try lia; try (rewrite Hs2, Hs1; lia).
    - rewrite Hc2, Hc1. apply Forall_app. split.
      + apply Forall_app. split; auto. unfold pad_blks. destruct (missing =? 0); constructor; auto.
        apply gh_ok_free_blk. lia.
      + constructor; auto. unfold gh_ok, taken_blk; cbn. repeat split; auto; try lia; try discriminate.
    - rewrite Hc2, Hc1. unfold no_adj_free. apply naf_app. split.
      + apply naf_app. split; auto. unfold last_taken in Hlast. rewrite Hlast.
        unfold pad_blks. destruct (missing =? 0); cbn; auto; split; auto; try discriminate.
      + cbn. split; auto.
    - rewrite Hc2. unfold last_taken. rewrite last_free_app. reflexivity. }
  assert (Hom : b_off cur + missing = rq_offset r) by (unfold missing; lia).
  destruct (b_size cur - missing =? rq_size r) eqn:Eeq.
  - intros H. apply finish_spec in H. destruct H as (Hh & Hc' & Hn' & Hs' & Ha').
    unfold with_null, with_chain in *. cbn [t_chain t_null t_size t_alloc_count] in *.
    rewrite Hom in *. fold (taken_blk r tag rs ra) in Hc'.
    split; [apply (Hfinal 0 t'); auto; lia|].
    repeat split; auto; try lia. rewrite Hc', Hc1, <- app_assoc. reflexivity.
  - destruct (b_size cur - missing <? rq_size r) eqn:Elt; [discriminate|].
    intros H. apply finish_spec in H. destruct H as (Hh & Hc' & Hn' & Hs' & Ha').
    unfold with_null, with_chain in *. cbn [t_chain t_null t_size t_alloc_count] in *.
    rewrite Hom in *. fold (taken_blk r tag rs ra) in Hc'.
    split; [apply (Hfinal (b_size cur - missing - rq_size r) t'); auto; lia|].
    repeat split; auto; try lia. rewrite Hc', Hc1, <- app_assoc. reflexivity.
Qed.

(* ------------------------------------------------------------------ allocation from a free chain block *)

Lemma alloc_blk_spec t r tag rs ra t' h pre cur post :
  Inv1 t -> rq_is_null r = false -> t_chain t = pre ++ cur :: post ->
  rq_block r = b_off cur -> b_free cur = true -> fits r cur rs ra ->
  alloc t r tag rs ra = AOk t' h ->
  Inv1 t' /\ h = rq_offset r /\ t_size t' = t_size t /\ t_alloc_count t' = t_alloc_count t + 1 /\
  t_null t' = t_null t /\
  t_chain t' = pre ++ pad_blks (b_off cur) (rq_offset r - b_off cur) ++ [taken_blk r tag rs ra]
                   ++ rest_blks (rq_offset r + rq_size r) (b_size cur - (rq_offset r - b_off cur) - rq_size r)
                   ++ post.
Proof.
  intros [Hgeo Hgh Hnaf Hlast] Hnull Hc Hblk Hcf [Hlo Hhi Hpos Hra Hal Hrs]. unfold alloc. rewrite Hnull, Hblk.
  destruct Hgeo as [Hch Hnoff Hnsz Htot Hnfree].
  rewrite Hc in *.
  pose proof (chain_pre_lt _ _ _ _ Hch) as Hlt.
  assert (Hbel : below (b_off cur) pre) by (eapply below_ge; eauto; lia).
  rewrite find_blk_app by auto.
  destruct (rq_offset r <? b_off cur) eqn:E1; [lia|].
  destruct (remove_free_block t cur) as [t0|] eqn:Hrm; cbn [bind_t]; [|discriminate].
  apply remove_free_block_spec in Hrm. destruct Hrm as (_ & Hc0 & Hn0 & Hs0 & _ & Ha0).
  rewrite Hc, replace_blk_app in Hc0 by auto.
  set (missing := rq_offset r - b_off cur).
  assert (Hmiss : 0 <= missing) by (unfold missing; lia).
  assert (Hom : b_off cur + missing = rq_offset r) by (unfold missing; lia).
  rewrite Hom.
  set (cur_size := b_size cur - missing).
  set (moved := mkBlk (rq_offset r) cur_size false None (b_kind (set_blk cur (b_off cur) (b_size cur) false None))
                      (b_reqsize (set_blk cur (b_off cur) (b_size cur) false None))
                      (b_reqalign (set_blk cur (b_off cur) (b_size cur) false None))).
  (* split the chain facts *)
  pose proof Hch as Hch'. apply chain_from_app in Hch'. destruct Hch' as (Hcpre & Hcrest).
  cbn [chain_from] in Hcrest. destruct Hcrest as (Hco & Hcs & Hcpost).
  apply Forall_app in Hgh. destruct Hgh as (Hgpre & Hgrest). inversion Hgrest as [|? ? Hgcur Hgpost]; subst.
  unfold no_adj_free in Hnaf. apply naf_app in Hnaf. destruct Hnaf as (Hnpre & Hnrest).
  cbn [naf] in Hnrest. destruct Hnrest as (Hprevfree & Hnpost). rewrite Hcf in Hnpost.
  assert (Hlpre : last_free false pre = false).
  { destruct (last_free false pre) eqn:E; auto. specialize (Hprevfree eq_refl). congruence. }
  assert (Hpost_ne : post <> []).
  { intros ->. unfold last_taken in Hlast. rewrite last_free_app in Hlast. cbn in Hlast. congruence. }
  (* chain of t0 with the current block moved *)
  cbn [with_chain t_chain].
  rewrite Hc0. rewrite (replace_blk_app (b_off cur) moved pre _ post) by auto.
  (* the padding step *)
  set (t0' := with_chain t0 (pre ++ moved :: post)).
  assert (Hpad : forall t1,
             (if missing =? 0 then Some (Some t0')
              else pad_front t0' (prev_blk (rq_offset r) (t_chain t0')) (b_off cur) (rq_offset r) missing false) = Some (Some t1) ->
             t_chain t1 = pre ++ pad_blks (b_off cur) missing ++ moved :: post /\ t_null t1 = t_null t /\
             t_size t1 = t_size t /\ t_alloc_count t1 = t_alloc_count t).
  { intros t1. unfold pad_blks. destruct (missing =? 0) eqn:Em.
    - intros H; injection H as <-. unfold t0', with_chain; cbn. auto.
    - assert (Hbel2 : below (rq_offset r) pre) by (eapply below_ge; eauto; lia).
      assert (Ht0c : t_chain t0' = pre ++ moved :: post) by reflexivity.
      rewrite Ht0c.
      unfold pad_front.
      destruct (list_last_split pre) as [->|(pre' & p & ->)].
      + cbn [app]. rewrite prev_blk_first by reflexivity. discriminate.
      + rewrite prev_blk_app by auto.
        rewrite last_free_app in Hlpre. cbn in Hlpre. rewrite Hlpre. cbn [andb].
        rewrite Ht0c.
        rewrite insert_before_app by auto.
        intros H; injection H as H.
        apply insert_free_block_spec in H.
        destruct H as (_ & Hc1 & Hn1 & Hs1 & _ & Ha1).
        unfold t0', with_chain in Hc1, Hn1, Hs1, Ha1. cbn [t_chain t_null t_size t_alloc_count b_off b_size b_tag] in Hc1, Hn1, Hs1, Ha1.
        rewrite Hc1. rewrite replace_blk_app by auto.
        rewrite Hn1, Hs1, Ha1. auto. }
  fold t0'.
  destruct (if missing =? 0 then _ else _) as [[t1|]|] eqn:Epad; try discriminate.
  destruct (Hpad t1 eq_refl) as (Hc1 & Hn1 & Hs1 & Ha1). clear Hpad.
  assert (Hbel3 : below (rq_offset r) (pre ++ pad_blks (b_off cur) missing)).
  { apply below_app. split; [eapply below_ge; eauto; lia|].
    unfold pad_blks. destruct (Z.eqb_spec missing 0); constructor; auto. cbn. lia. }
  (* common conclusion *)
  assert (Hfinal : forall restsz t2,
             0 <= restsz -> restsz = cur_size - rq_size r ->
             t_chain t2 = pre ++ pad_blks (b_off cur) missing ++ [taken_blk r tag rs ra] ++ rest_blks (rq_offset r + rq_size r) restsz ++ post ->
             t_null t2 = t_null t -> t_size t2 = t_size t -> Inv1 t2).
  { intros restsz t2 Hrz Hrz' Hc2 Hn2 Hs2.
    assert (Hpe : chain_end (chain_end 0 pre) (pad_blks (b_off cur) missing) = rq_offset r).
    { unfold pad_blks. destruct (Z.eqb_spec missing 0); cbn; lia. }
    assert (Hre : chain_end (rq_offset r + rq_size r) (rest_blks (rq_offset r + rq_size r) restsz) = chain_end 0 pre + b_size cur).
    { unfold rest_blks. destruct (Z.eqb_spec restsz 0); cbn; unfold cur_size in *; lia. }
    constructor.
    - constructor; rewrite ?Hn2, ?Hs2; auto.
      + rewrite Hc2. apply chain_from_app. split; auto.
        apply chain_from_app. split.
        { unfold pad_blks. destruct (Z.eqb_spec missing 0); cbn; auto. repeat split; auto; lia. }
        rewrite Hpe. cbn [app chain_from taken_blk b_off b_size]. split; auto. split; [lia|].
        apply chain_from_app. split.
        { unfold rest_blks. destruct (Z.eqb_spec restsz 0); cbn; auto. repeat split; auto; lia. }
        rewrite Hre. exact Hcpost.
      + rewrite Hnoff, Hc2. rewrite !chain_end_app. rewrite Hpe. cbn [chain_end taken_blk b_size app].
        rewrite ?chain_end_app, Hre. reflexivity.
    - rewrite Hc2. apply Forall_app. split; auto. apply Forall_app. split.
      { unfold pad_blks. destruct (Z.eqb_spec missing 0); constructor; auto. apply gh_ok_free_blk. lia. }
      constructor.
      { unfold gh_ok, taken_blk; cbn. repeat split; auto; try lia; try discriminate. }
      apply Forall_app. split; auto.
      unfold rest_blks. destruct (Z.eqb_spec restsz 0); constructor; auto. apply gh_ok_free_blk. lia.
    - rewrite Hc2. unfold no_adj_free. apply naf_app. split; auto. rewrite Hlpre.
      apply naf_app. split.
      { unfold pad_blks. destruct (Z.eqb_spec missing 0); cbn; auto; split; auto; try discriminate. }
      cbn [app naf taken_blk b_free]. split; [reflexivity|].
      apply naf_app. split.
      { unfold rest_blks. destruct (Z.eqb_spec restsz 0); cbn; auto; split; auto; try discriminate. }
      destruct post as [|nx post']; [congruence|]. cbn [naf] in *.
      destruct Hnpost as (Hnx & Hnp). split; auto.
    - rewrite Hc2. unfold last_taken in *.
      rewrite !last_free_app in *. cbn [last_free] in Hlast.
      destruct post as [|nx post']; [congruence|]. cbn [last_free] in *. exact Hlast. }
  destruct (cur_size =? rq_size r) eqn:Eeq.
  - intros H. apply finish_spec in H. destruct H as (Hh & Hc' & Hn' & Hs' & Ha').
    unfold with_chain in *. cbn [t_chain t_null t_size t_alloc_count] in *.
    rewrite Hc1 in Hc'.
    replace (pre ++ pad_blks (b_off cur) missing ++ moved :: post)
      with ((pre ++ pad_blks (b_off cur) missing) ++ moved :: post) in Hc' by (rewrite <- app_assoc; reflexivity).
    rewrite replace_blk_app in Hc' by auto. rewrite <- app_assoc in Hc'.
    fold (taken_blk r tag rs ra) in Hc'.
    assert (Hrest0 : rest_blks (rq_offset r + rq_size r) (cur_size - rq_size r) = []).
    { unfold rest_blks. destruct (Z.eqb_spec (cur_size - rq_size r) 0); auto. lia. }
    split; [apply (Hfinal 0 t'); auto; try lia; try congruence; rewrite Hc'; cbn; reflexivity|].
    repeat split; auto; try lia; try congruence.
    rewrite Hc', Hrest0. reflexivity.
  - destruct (cur_size <? rq_size r) eqn:Elt; [discriminate|].
    set (nb := mkBlk (rq_offset r + rq_size r) (cur_size - rq_size r) false None 0 0 1).
    destruct (insert_free_block _ nb) as [t3|] eqn:Hins; cbn [bind_t]; [|discriminate].
    intros H. apply finish_spec in H. destruct H as (Hh & Hc' & Hn' & Hs' & Ha').
    apply insert_free_block_spec in Hins. destruct Hins as (_ & Hc3 & Hn3 & Hs3 & _ & Ha3).
    unfold with_chain in *. cbn [t_chain t_null t_size t_alloc_count] in *.
    rewrite Hc1 in Hc3.
    replace (pre ++ pad_blks (b_off cur) missing ++ moved :: post)
      with ((pre ++ pad_blks (b_off cur) missing) ++ moved :: post) in Hc3 by (rewrite <- app_assoc; reflexivity).
    rewrite replace_blk_app in Hc3 by auto.
    rewrite (insert_after_app (rq_offset r) nb _ (mkBlk (rq_offset r) (rq_size r) false tag (rq_type r) rs ra) post) in Hc3 by auto.
    replace ((pre ++ pad_blks (b_off cur) missing) ++ mkBlk (rq_offset r) (rq_size r) false tag (rq_type r) rs ra :: nb :: post)
      with (((pre ++ pad_blks (b_off cur) missing) ++ [mkBlk (rq_offset r) (rq_size r) false tag (rq_type r) rs ra]) ++ nb :: post) in Hc3
      by (rewrite <- !app_assoc; reflexivity).
    assert (Hbel4 : below (b_off nb) ((pre ++ pad_blks (b_off cur) missing) ++ [mkBlk (rq_offset r) (rq_size r) false tag (rq_type r) rs ra])).
    { apply below_app. split.
      - apply below_app. split; [eapply below_ge; eauto; cbn; lia|].
        unfold pad_blks. destruct (Z.eqb_spec missing 0); constructor; auto. cbn. lia.
      - constructor; auto. cbn. lia. }
    rewrite replace_blk_app in Hc3 by auto.
    cbn [nb b_off b_size b_tag] in Hc3.
    assert (Hrest1 : rest_blks (rq_offset r + rq_size r) (cur_size - rq_size r)
                     = [mkBlk (rq_offset r + rq_size r) (cur_size - rq_size r) true None 0 0 1]).
    { unfold rest_blks. destruct (Z.eqb_spec (cur_size - rq_size r) 0); auto. lia. }
    assert (Hc'' : t_chain t' = pre ++ pad_blks (b_off cur) missing ++ [taken_blk r tag rs ra] ++
                               rest_blks (rq_offset r + rq_size r) (cur_size - rq_size r) ++ post).
    { rewrite Hc', Hc3, Hrest1. rewrite <- !app_assoc. reflexivity. }
    split; [apply (Hfinal (cur_size - rq_size r) t'); auto; try lia; congruence|].
    repeat split; auto; try lia; try congruence.
Qed.
