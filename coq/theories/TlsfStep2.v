(* TlsfStep2.v — every operation of the TLSF model preserves the second invariant and never
   panics; consequences: bookkeeping observers (C03), no-panic (C13), an emptied block is a fresh
   block (C18). *)
From Coq Require Import ZArith NArith Lia List Bool Permutation.
From Arsenal Require Import Util Bits Gran Tlsf TlsfGeom TlsfInv1 TlsfFree TlsfAlloc TlsfStep TlsfProps
     SizeClass TlsfInv2 TlsfInv2Free TlsfInv2Alloc TlsfSearch.
Import ListNotations.
Open Scope Z_scope.

(* ------------------------------------------------------------------ a granted request *)

Lemma align_up_zero a : pow2 a -> align_up 0 a = 0.
Proof. intros H. apply align_up_id; [auto|apply Zmod_0_l]. Qed.

Lemma granted_offset_zero t b li a al ty mo t' r :
  pow2 al -> pow2 (g_g (t_gran t)) ->
  check_block t b li a al ty mo = CBOk t' r -> b_off b = 0 -> rq_offset r = 0.
Proof.
  intros Hal Hg Hc H0. apply check_block_spec in Hc.
  destruct Hc as (_ & _ & _ & _ & _ & _ & _ & _ & _ & _ & _ & al' & Hcc & -> & _).
  apply check_conflict_spec in Hcc. rewrite H0 in Hcc. rewrite align_up_zero in Hcc by auto.
  destruct Hcc as [->|(-> & _)]; [reflexivity|apply align_up_zero; auto].
Qed.

Lemma Inv2_shape t t' : same_shape t t' -> FLt t' -> Inv2 t -> Inv2 t'.
Proof.
  intros (Hc & Hn & Hs & Hg & Ha) HFL [_ Hac Hgt Hnl]. constructor; auto.
  - rewrite Ha, Hac. unfold live. rewrite Hc. reflexivity.
  - rewrite Hg, Hs. auto.
  - rewrite Hn. auto.
Qed.

Definition alloc_pre (t : tlsf) (r : request) (rs ra : Z) : Prop :=
  (rq_is_null r = true /\ fits r (t_null t) rs ra /\ (b_off (t_null t) = 0 -> rq_offset r = 0)) \/
  (rq_is_null r = false /\ exists b, In b (t_chain t) /\ rq_block r = b_off b /\ b_free b = true /\
                                     fits r b rs ra /\ (b_off b = 0 -> rq_offset r = 0)).

Lemma granted2_step t size0 align0 ty mo t' r :
  TInv t -> Inv2 t -> pow2 align0 -> 1 <= size0 ->
  granted2 t (fst (round_up (t_gran t) ty size0 align0)) (snd (round_up (t_gran t) ty size0 align0)) ty mo t' r ->
  TInv t' /\ Inv2 t' /\ same_shape t t' /\ rq_offset r < mo /\ rq_type r = ty /\ alloc_pre t' r size0 align0.
Proof.
  intros HT HI Hal0 Hs0 Hg2. pose proof HT as [Hinv Hpg].
  pose proof (granted_fits t size0 align0 ty mo t' r Hpg Hal0 Hs0 (granted2_by _ _ _ _ _ _ _ Hg2))
    as (Hshape & Hmo & Hty & Hcase).
  pose proof (round_up_spec (t_gran t) ty size0 align0 Hpg Hal0) as Hru.
  destruct (round_up (t_gran t) ty size0 align0) as [a al]. cbn [fst snd] in *.
  destruct Hru as (_ & Hal & _).
  destruct Hg2 as (b & li & Hcb & Hwhere).
  assert (HFL' : FLt t').
  { eapply check_block_FLt; [apply (i2_fl _ HI)| |exact Hcb].
    intros idx ->. destruct Hwhere as [(E & _)|(idx' & E & _ & _ & Hin)]; [discriminate|].
    injection E as <-. exact Hin. }
  pose proof Hshape as (Hc & Hn & Hsz & Hg & Hac).
  split; [split; [eapply Inv1_shape; eauto|rewrite Hg; auto]|].
  split; [eapply Inv2_shape; eauto|]. split; [auto|]. split; [auto|]. split; [auto|].
  pose proof (check_block_spec _ _ _ _ _ _ _ _ _ Hcb) as (Hbf & Hrb & _ & _ & Hrn & _).
  pose proof (granted_offset_zero _ _ _ _ _ _ _ _ _ Hal Hpg Hcb) as Hzero.
  destruct Hwhere as [(-> & ->)|(idx & -> & Hin & _ & _)].
  - left. destruct Hcase as [(Hnull & Hfits)|(Hnull & _)]; [|congruence].
    rewrite Hn. auto.
  - right. destruct Hcase as [(Hnull & _)|(Hnull & b' & Hin' & Hrb' & Hbf' & Hfits)]; [congruence|].
    split; auto. exists b'. rewrite Hc.
    assert (b' = b).
    { destruct HT as [[[Hch _ _ _ _] _ _ _] _].
      pose proof (find_blk_unique _ _ _ Hch Hin) as F1. pose proof (find_blk_unique _ _ _ Hch Hin') as F2.
      rewrite <- Hrb', Hrb in F2. congruence. }
    subst b'. split; [auto|]. split; [auto|]. split; [auto|]. split; auto.
Qed.

Lemma alloc_ok t r tag rs ra :
  TInv t -> Inv2 t -> alloc_pre t r rs ra -> exists t' h, alloc t r tag rs ra = AOk t' h /\ Inv2 t'.
Proof.
  intros HT HI [(Hnull & Hfits & Hz)|(Hnull & b & Hin & Hrb & Hbf & Hfits & Hz)].
  - eapply alloc_null_ok; eauto.
  - destruct (in_split _ _ Hin) as (pre & post & Hc). eapply alloc_blk_ok; eauto.
Qed.

(* ------------------------------------------------------------------ set user data *)

Lemma set_user_data_inv2 t h tag t' : Inv1 t -> Inv2 t -> set_user_data t h tag = Some t' -> Inv2 t'.
Proof.
  intros Hinv [HFL Hac Hgt Hnl] Hsu.
  destruct (set_user_data_spec _ _ _ _ Hinv Hsu) as (_ & Hg & pre & b & post & Hc & Hoff & Hbf & Hc').
  unfold set_user_data in Hsu. destruct (find_blk h (t_chain t)); [|discriminate].
  destruct (b_free b0); [discriminate|]. injection Hsu as <-.
  cbn [with_chain t_chain] in Hc'.
  constructor; cbn [with_chain t_alloc_count t_gran t_size t_null]; auto.
  - eapply FLt_ext; [| | | | | | |exact HFL]; try reflexivity.
    cbn [with_chain t_chain]. rewrite Hc', Hc, !frees_app. cbn [frees filter with_tag set_blk b_free]. rewrite Hbf. reflexivity.
  - rewrite Hac. rewrite !live_livef. cbn [with_chain t_chain]. rewrite Hc', Hc, !livef_app.
    unfold livef at 2 4. cbn [filter with_tag set_blk b_free]. rewrite Hbf. cbn [negb].
    rewrite !zlen_app, !zlen_cons. reflexivity.
Qed.

(* ------------------------------------------------------------------ every step *)

Theorem step2_preserves t o : TInv t -> Inv2 t -> op_ok o -> Inv2 (fst (step t o)).
Proof.
  intros HT HI Hok.
  destruct o as [size align atype strat upper mo tag|size align atype strat upper mo|h|h tag| |atype size];
    cbn [step op_ok] in *.
  - pose proof (create_request_ok t size align upper atype strat mo HT HI Hok) as Hcr.
    destruct (create_request t size align upper atype strat mo) as [t1 r| | |]; cbn [fst]; auto.
    destruct Hcr as (Hs & _ & Hg2).
    destruct (granted2_step _ _ _ _ _ _ _ HT HI Hok Hs Hg2) as (HT1 & HI1 & _ & _ & _ & Hpre).
    destruct (alloc_ok t1 r tag size align HT1 HI1 Hpre) as (t2 & h & -> & HI2). exact HI2.
  - pose proof (create_request_ok t size align upper atype strat mo HT HI Hok) as Hcr.
    destruct (create_request t size align upper atype strat mo) as [t1 r| | |]; cbn [fst]; auto.
    destruct Hcr as (Hs & _ & Hg2).
    destruct (granted2_step _ _ _ _ _ _ _ HT HI Hok Hs Hg2) as (HT1 & HI1 & _). exact HI1.
  - destruct (tlsf_free t h) as [t1| |] eqn:Hf; cbn [fst]; auto.
    eapply tlsf_free_inv2; eauto.
  - destruct (set_user_data t h tag) as [t1|] eqn:Hsu; cbn [fst]; auto.
    eapply set_user_data_inv2; eauto. apply HT.
  - cbn [fst]. apply clear_inv2; auto.
  - cbn [fst]. auto.
Qed.

Definition cfg2_ok (gr size : Z) : Prop := 1 <= size < 2 ^ 39 /\ pow2 gr.

Lemma cfg2_cfg gr size : cfg2_ok gr size -> cfg_ok gr size.
Proof. intros [H1 H2]. split; [lia|auto]. Qed.

Lemma run_Inv2 t ops : TInv t -> Inv2 t -> Forall op_ok ops -> TInv (run t ops) /\ Inv2 (run t ops).
Proof.
  revert t; induction ops as [|o ops IH]; intros t HT HI Hok; cbn; [auto|].
  inversion Hok as [|? ? Ho Hops]; subst.
  destruct (step_preserves t o HT Ho) as (HT' & _ & _).
  pose proof (step2_preserves t o HT HI Ho) as HI'.
  apply IH; auto.
Qed.

Theorem reach_Inv2 h gr size ops :
  cfg2_ok gr size -> Forall op_ok ops ->
  TInv (run (tlsf_init h gr size) ops) /\ Inv2 (run (tlsf_init h gr size) ops).
Proof.
  intros Hc Hok. apply run_Inv2; auto.
  - apply init_TInv. apply cfg2_cfg; auto.
  - apply init_inv2. apply Hc.
Qed.

(* ------------------------------------------------------------------ C13: no panic, failures are no-ops *)

Theorem tlsf_no_panic t o : TInv t -> Inv2 t -> op_ok o -> o_kind (snd (step t o)) <> RPanic.
Proof.
  intros HT HI Hok.
  destruct o as [size align atype strat upper mo tag|size align atype strat upper mo|h|h tag| |atype size];
    cbn [step op_ok] in *.
  - pose proof (create_request_ok t size align upper atype strat mo HT HI Hok) as Hcr.
    destruct (create_request t size align upper atype strat mo) as [t1 r| | |]; cbn; try discriminate; [|destruct Hcr].
    destruct Hcr as (Hs & _ & Hg2).
    destruct (granted2_step _ _ _ _ _ _ _ HT HI Hok Hs Hg2) as (HT1 & HI1 & _ & _ & _ & Hpre).
    destruct (alloc_ok t1 r tag size align HT1 HI1 Hpre) as (t2 & h & -> & HI2). cbn. discriminate.
  - pose proof (create_request_ok t size align upper atype strat mo HT HI Hok) as Hcr.
    destruct (create_request t size align upper atype strat mo) as [t1 r| | |]; cbn; try discriminate. destruct Hcr.
  - destruct (tlsf_free t h) as [t1| |] eqn:Hf; cbn; try discriminate.
    unfold tlsf_free in Hf. destruct (find_blk h (t_chain t)) as [b|] eqn:Hfb; [|discriminate].
    destruct (b_free b) eqn:Hbf; [discriminate|].
    destruct (tlsf_free_ok t h b HT HI Hfb Hbf) as (t'' & E & _).
    unfold tlsf_free in E. rewrite Hfb, Hbf in E. congruence.
  - destruct (set_user_data t h tag); cbn; discriminate.
  - cbn. discriminate.
  - cbn. discriminate.
Qed.

(* once CreateAllocationRequest has granted a request, Alloc succeeds: its error branches are dead *)
Theorem tlsf_alloc_no_error t size align atype strat upper mo tag t1 r :
  TInv t -> Inv2 t -> pow2 align ->
  create_request t size align upper atype strat mo = QGranted t1 r ->
  exists t2 h, alloc t1 r tag size align = AOk t2 h /\
               step t (OAlloc size align atype strat upper mo tag) = (t2, mkOut ROk h (rq_size r)).
Proof.
  intros HT HI Hok Hcr.
  pose proof (create_request_ok t size align upper atype strat mo HT HI Hok) as Hcr'. rewrite Hcr in Hcr'.
  destruct Hcr' as (Hs & _ & Hg2).
  destruct (granted2_step _ _ _ _ _ _ _ HT HI Hok Hs Hg2) as (HT1 & HI1 & _ & _ & _ & Hpre).
  destruct (alloc_ok t1 r tag size align HT1 HI1 Hpre) as (t2 & h & E & HI2).
  exists t2, h. split; auto. cbn [step]. rewrite Hcr, E. reflexivity.
Qed.

Theorem tlsf_refused_noop t o :
  o_kind (snd (step t o)) = RRefused \/ o_kind (snd (step t o)) = RError -> fst (step t o) = t.
Proof.
  destruct o as [size align atype strat upper mo tag|size align atype strat upper mo|h|h tag| |atype size];
    cbn [step].
  - destruct (create_request t size align upper atype strat mo) as [t1 r| | |]; cbn; auto.
    destruct (alloc t1 r tag size align); cbn; auto. intros [H|H]; discriminate.
  - destruct (create_request t size align upper atype strat mo) as [t1 r| | |]; cbn; auto;
      intros [H|H]; discriminate.
  - destruct (tlsf_free t h); cbn; auto. intros [H|H]; discriminate.
  - destruct (set_user_data t h tag); cbn; auto. intros [H|H]; discriminate.
  - cbn. intros [H|H]; discriminate.
  - cbn. intros [H|H]; discriminate.
Qed.

(* freeing or re-tagging a handle that is not live is an error, not a panic, and changes nothing *)
Theorem tlsf_bad_handle t h :
  (forall a, In a (live t) -> b_off a <> h) -> Inv1 t ->
  step t (OFree h) = (t, out RError) /\ forall tag, step t (OSetUD h tag) = (t, out RError).
Proof.
  intros Hnl Hinv.
  assert (Hx : match find_blk h (t_chain t) with Some b => b_free b = true | None => True end).
  { destruct (find_blk h (t_chain t)) as [b|] eqn:Hf; auto.
    destruct (b_free b) eqn:Hbf; auto. exfalso.
    apply find_blk_in in Hf. destruct Hf as (Hin & Ho). apply (Hnl b); auto.
    unfold live. apply filter_In. rewrite Hbf. auto. }
  split; [|intros tag]; cbn [step]; unfold tlsf_free, set_user_data;
    destruct (find_blk h (t_chain t)) as [b|]; auto; rewrite Hx; reflexivity.
Qed.

(* ------------------------------------------------------------------ C06: freeing a live block succeeds *)

Theorem tlsf_free_live_succeeds t a :
  TInv t -> Inv2 t -> In a (live t) ->
  exists t', step t (OFree (b_off a)) = (t', out ROk) /\ Inv2 t'.
Proof.
  intros HT HI Ha. destruct (live_in_chain _ _ Ha) as (Hin & Hf).
  destruct HT as [Hinv Hpg]. pose proof Hinv as [[Hch _ _ _ _] _ _ _].
  pose proof (find_blk_unique _ _ _ Hch Hin) as Hfb.
  destruct (tlsf_free_ok t (b_off a) a (conj Hinv Hpg) HI Hfb Hf) as (t' & E & HI').
  exists t'. cbn [step]. rewrite E. auto.
Qed.

(* ------------------------------------------------------------------ C03: bookkeeping *)

Definition region_free_pos (b : blk) : bool := b_free b && (0 <? b_size b).
Definition taken_regions (t : tlsf) : list blk := filter (fun b => negb (b_free b)) (regions t).
Definition free_regions_pos (t : tlsf) : list blk := filter region_free_pos (regions t).

(* consecutive, gap-free, overlap-free ranges starting at o (sizes may be 0: the null block) *)
Fixpoint tiles (o : Z) (l : list blk) : Prop :=
  match l with [] => True | b :: r => b_off b = o /\ 0 <= b_size b /\ tiles (o + b_size b) r end.

Fixpoint lmin (l : list Z) : option Z :=
  match l with [] => None | x :: r => omin (lmin r) x end.
Fixpoint lmax (l : list Z) : Z :=
  match l with [] => 0 | x :: r => if lmax r <? x then x else lmax r end.

Lemma lmin_spec l :
  match lmin l with
  | None => l = []
  | Some m => In m l /\ forall x, In x l -> m <= x
  end.
Proof.
  induction l as [|x r IH]; cbn [lmin]; [reflexivity|].
  destruct (lmin r) as [m|]; cbn [omin].
  - destruct IH as (Hin & Hle). destruct (Z.ltb_spec x m).
    + split; [left; auto|]. intros y [<-|Hy]; [lia|]. specialize (Hle y Hy). lia.
    + split; [right; auto|]. intros y [<-|Hy]; [lia|auto].
  - subst r. split; [left; auto|]. intros y [<-|[]]. lia.
Qed.

Lemma lmax_spec l :
  (forall x, In x l -> 0 <= x) ->
  (l = [] /\ lmax l = 0) \/ (In (lmax l) l /\ forall x, In x l -> x <= lmax l).
Proof.
  induction l as [|x r IH]; intros Hpos; [left; auto|right].
  cbn [lmax]. destruct IH as [(-> & E)|(Hin & Hle)]; [intros y Hy; apply Hpos; right; auto| |].
  - cbn [lmax]. specialize (Hpos x (or_introl eq_refl)). destruct (Z.ltb_spec 0 x).
    + split; [left; auto|]. intros y [<-|[]]. lia.
    + assert (x = 0) by lia. subst. split; [left; auto|]. intros y [<-|[]]. lia.
  - destruct (Z.ltb_spec (lmax r) x).
    + split; [left; auto|]. intros y [<-|Hy]; [lia|]. specialize (Hle y Hy). lia.
    + split; [right; auto|]. intros y [<-|Hy]; [lia|auto].
Qed.

Lemma sum_sizes_split o c : chain_from o c -> sum_sizes (frees c) + sum_sizes (livef c) = chain_end o c - o.
Proof.
  revert o; induction c as [|x c IH]; intros o H; cbn [frees livef filter sum_sizes chain_end]; [lia|].
  cbn [chain_from] in H. destruct H as (Ho & Hs & Hc). specialize (IH _ Hc). fold (frees c). fold (livef c).
  destruct (b_free x); cbn [negb sum_sizes]; lia.
Qed.

Lemma chain_tiles o c : chain_from o c -> forall tl, tiles (chain_end o c) tl -> tiles o (c ++ tl).
Proof.
  revert o; induction c as [|x c IH]; intros o H tl Htl; cbn in *; auto.
  destruct H as (Ho & Hs & Hc). split; auto. split; [lia|]. apply IH; auto.
Qed.

Lemma chain_sum o c : chain_from o c -> sum_sizes c = chain_end o c - o.
Proof.
  revert o; induction c as [|x c IH]; intros o H; cbn in *; [lia|].
  destruct H as (Ho & Hs & Hc). specialize (IH _ Hc). lia.
Qed.

Lemma filter_pos_chain o c : chain_from o c -> filter region_free_pos c = frees c.
Proof.
  revert o; induction c as [|x c IH]; intros o H; cbn [filter frees]; auto.
  cbn [chain_from] in H. destruct H as (Ho & Hs & Hc). fold (frees c). rewrite (IH _ Hc).
  unfold region_free_pos. destruct (b_free x); cbn [andb]; auto.
  destruct (Z.ltb_spec 0 (b_size x)); [auto|lia].
Qed.

Lemma taken_regions_live t : Inv1 t -> taken_regions t = live t.
Proof.
  intros [[_ _ _ _ Hnf] _ _ _]. unfold taken_regions, regions. rewrite filter_app. cbn [filter].
  rewrite Hnf. cbn. apply app_nil_r.
Qed.

Definition null_part (t : tlsf) : list blk := if 0 <? b_size (t_null t) then [t_null t] else [].

Lemma free_regions_pos_eq t : Inv1 t -> free_regions_pos t = frees (t_chain t) ++ null_part t.
Proof.
  intros [[Hch _ _ _ Hnf] _ _ _]. unfold free_regions_pos, regions, null_part. rewrite filter_app.
  rewrite (filter_pos_chain _ _ Hch). cbn [filter]. unfold region_free_pos. rewrite Hnf. cbn [andb]. reflexivity.
Qed.

Lemma live_empty_iff t : Inv1 t -> (live t = [] <-> t_chain t = []).
Proof.
  intros [_ _ _ Hlast]. split.
  - intros Hl. destruct (list_last_split (t_chain t)) as [E|(pre & x & E)]; [auto|exfalso].
    unfold last_taken in Hlast. rewrite E, last_free_app in Hlast. cbn in Hlast.
    rewrite live_livef, E, livef_app in Hl. unfold livef at 2 in Hl. cbn [filter] in Hl. rewrite Hlast in Hl.
    cbn in Hl. destruct (livef pre); discriminate.
  - intros E. rewrite live_livef, E. reflexivity.
Qed.

Lemma fold_left_rev {A B} (g : A -> B -> A) l a :
  fold_left g (rev l) a = fold_right (fun b d => g d b) a l.
Proof.
  revert a; induction l as [|x l IH]; intros a; cbn; [reflexivity|].
  rewrite fold_left_app. cbn. rewrite IH. reflexivity.
Qed.

Definition dspec (tk fp : list blk) (size : Z) : dstats :=
  mkDStats (mkStats 1 (zlen tk) size (sum_sizes tk)) (zlen fp)
           (lmin (map b_size tk)) (lmax (map b_size tk)) (lmin (map b_size fp)) (lmax (map b_size fp)).

Lemma dfold c tk0 fp0 size :
  fold_right (fun b d => if b_free b then d_add_unused d (b_size b) else d_add_alloc d (b_size b))
             (dspec tk0 fp0 size) c
  = dspec (livef c ++ tk0) (frees c ++ fp0) size.
Proof.
  induction c as [|x c IH]; [reflexivity|].
  cbn [fold_right]. rewrite IH. cbn [livef frees filter]. fold (livef c). fold (frees c).
  destruct (b_free x); cbn [negb app].
  - unfold dspec, d_add_unused. cbn [d_stats d_unused_count d_alloc_min d_alloc_max d_unused_min d_unused_max map lmin lmax].
    rewrite zlen_cons. reflexivity.
  - unfold dspec, d_add_alloc. cbn [d_stats d_unused_count d_alloc_min d_alloc_max d_unused_min d_unused_max map lmin lmax
                                   s_blocks s_allocs s_block_bytes s_alloc_bytes sum_sizes].
    rewrite zlen_cons. f_equal. f_equal. lia.
Qed.

Theorem tlsf_bookkeeping t :
  TInv t -> Inv2 t ->
  allocation_count t = zlen (live t) /\
  sum_free_size t = t_size t - sum_sizes (live t) /\
  (is_empty t = true <-> live t = []) /\
  free_regions_count t = zlen (free_regions_pos t) /\
  (tiles 0 (regions t) /\ chain_end 0 (regions t) = t_size t /\ sum_sizes (regions t) = t_size t) /\
  add_statistics t = mkStats 1 (zlen (taken_regions t)) (t_size t) (sum_sizes (taken_regions t)) /\
  add_detailed_statistics t = dspec (taken_regions t) (free_regions_pos t) (t_size t).
Proof.
  intros [Hinv _] [HFL Hac _ _]. pose proof Hinv as [[Hch Hnoff Hnsz Htot Hnfree] _ _ _].
  pose proof (sum_sizes_split _ _ Hch) as Hsplit.
  pose proof (fl_fs _ _ _ _ _ _ _ HFL) as Hfs. pose proof (fl_fc _ _ _ _ _ _ _ HFL) as Hfc.
  rewrite (taken_regions_live t Hinv), (free_regions_pos_eq t Hinv).
  assert (Hsum : sum_free_size t = t_size t - sum_sizes (live t)).
  { unfold sum_free_size. rewrite live_livef. lia. }
  split; [exact Hac|]. split; [exact Hsum|]. split; [|split; [|split; [|split]]].
  - rewrite (live_empty_iff t Hinv). unfold is_empty. rewrite Z.eqb_eq, Hnoff. split.
    + intros He. destruct (t_chain t) as [|x c]; [reflexivity|exfalso].
      cbn in Hch, He. destruct Hch as (_ & Hs & Hc). pose proof (chain_end_ge _ _ Hc). lia.
    + intros ->. reflexivity.
  - unfold free_regions_count, null_part. rewrite zlen_app, Hfc.
    destruct (Z.gtb_spec (b_size (t_null t)) 0); destruct (Z.ltb_spec 0 (b_size (t_null t))); try lia; reflexivity.
  - unfold regions. split; [|split].
    + apply chain_tiles; auto. cbn. rewrite <- Hnoff. auto.
    + rewrite chain_end_app. cbn. lia.
    + rewrite sum_sizes_app, (chain_sum _ _ Hch). cbn. lia.
  - unfold add_statistics. rewrite Hac, Hsum. f_equal. lia.
  - unfold add_detailed_statistics. cbv zeta.
    rewrite fold_left_rev.
    assert (Hd1 : (if b_size (t_null t) >? 0
                   then d_add_unused (mkDStats (mkStats 1 0 (t_size t) 0) 0 None 0 None 0) (b_size (t_null t))
                   else mkDStats (mkStats 1 0 (t_size t) 0) 0 None 0 None 0)
                  = dspec [] (null_part t) (t_size t)).
    { unfold null_part. destruct (Z.gtb_spec (b_size (t_null t)) 0); destruct (Z.ltb_spec 0 (b_size (t_null t))); try lia; reflexivity. }
    rewrite Hd1.
    rewrite <- (app_nil_r (live t)). rewrite live_livef.
    rewrite <- (dfold (t_chain t) [] (null_part t) (t_size t)). reflexivity.
Qed.

(* ------------------------------------------------------------------ C03: Validate *)

Lemma count_list_ok_acc t l n :
  (forall o, In o l -> exists b, find_blk o (t_chain t) = Some b /\ b_free b = true) ->
  fold_left (fun acc o =>
               match find_blk o (t_chain t) with
               | Some b => (fst acc && b_free b, snd acc + 1)
               | None => (false, snd acc + 1)
               end) l (true, n) = (true, n + zlen l).
Proof.
  revert n; induction l as [|o l IH]; intros n H; cbn [fold_left].
  - rewrite zlen_nil. f_equal. lia.
  - destruct (H o (or_introl eq_refl)) as (b & -> & ->). cbn [fst snd andb].
    rewrite IH by (intros o' Ho'; apply H; right; auto). rewrite zlen_cons. f_equal. lia.
Qed.

Lemma count_list_ok_eq t l :
  (forall o, In o l -> exists b, find_blk o (t_chain t) = Some b /\ b_free b = true) ->
  count_list_ok t l = (true, zlen l).
Proof. intros H. unfold count_list_ok. rewrite count_list_ok_acc by auto. f_equal. Qed.

Lemma lists_fold_acc t ls n :
  (forall l, In l ls -> forall o, In o l -> exists b, find_blk o (t_chain t) = Some b /\ b_free b = true) ->
  fold_left (fun acc l => (fst acc && fst (count_list_ok t l), snd acc + snd (count_list_ok t l))) ls (true, n)
  = (true, n + zlen (concat ls)).
Proof.
  revert n; induction ls as [|l ls IH]; intros n H; cbn [fold_left concat].
  - rewrite zlen_nil. f_equal. lia.
  - rewrite count_list_ok_eq by (apply H; left; auto).
    cbn [fst snd andb]. rewrite IH by (intros l' Hl'; apply H; right; auto).
    rewrite zlen_app. f_equal. lia.
Qed.

Lemma NoDup_app_intro {A} (a b : list A) :
  NoDup a -> NoDup b -> (forall x, In x a -> ~ In x b) -> NoDup (a ++ b).
Proof.
  induction a as [|x a IH]; intros Ha Hb Hd; cbn; auto.
  inversion Ha as [|? ? Hx Ha']; subst. constructor.
  - rewrite in_app_iff. intros [H|H]; [auto|]. apply (Hd x); [left; auto|auto].
  - apply IH; auto. intros y Hy. apply Hd. right; auto.
Qed.

Lemma in_concat_nth (ls : list (list Z)) x : In x (concat ls) <-> exists i, In x (nth i ls []).
Proof.
  rewrite in_concat. split.
  - intros (l & Hl & Hx). destruct (In_nth _ _ [] Hl) as (i & _ & E). exists i. rewrite E. auto.
  - intros (i & Hx). destruct (Nat.lt_ge_cases i (length ls)) as [Hlt|Hge].
    + exists (nth i ls []). split; auto. apply nth_In. auto.
    + rewrite nth_overflow in Hx by lia. destruct Hx.
Qed.

Lemma NoDup_concat (ls : list (list Z)) :
  (forall i, NoDup (nth i ls [])) ->
  (forall i j x, In x (nth i ls []) -> In x (nth j ls []) -> i = j) -> NoDup (concat ls).
Proof.
  induction ls as [|l ls IH]; intros Hnd Hdisj; cbn [concat]; [constructor|].
  apply NoDup_app_intro.
  - apply (Hnd 0%nat).
  - apply IH.
    + intros i. apply (Hnd (S i)).
    + intros i j x Hi Hj. assert (S i = S j) by (apply (Hdisj (S i) (S j) x); auto). lia.
  - intros x Hx Hc. apply in_concat_nth in Hc. destruct Hc as (j & Hj).
    assert (0%nat = S j) by (apply (Hdisj 0%nat (S j) x); auto). lia.
Qed.

Lemma lat_of_nat lists i : lat lists (Z.of_nat i) = nth i lists [].
Proof. unfold lat. destruct (Z.ltb_spec (Z.of_nat i) 0); [lia|]. rewrite Nat2Z.id. reflexivity. Qed.

Lemma lists_total t : FLt t -> zlen (concat (t_lists t)) = zlen (frees (t_chain t)).
Proof.
  intros HFL. unfold zlen. f_equal.
  rewrite <- (map_length b_off (frees (t_chain t))).
  apply Permutation_length. apply NoDup_Permutation.
  - apply NoDup_concat.
    + intros i. rewrite <- lat_of_nat. apply (fl_lnd _ _ _ _ _ _ _ HFL).
    + intros i j x Hi Hj. rewrite <- lat_of_nat in Hi, Hj.
      apply (fl_in _ _ _ _ _ _ _ HFL) in Hi. apply (fl_in _ _ _ _ _ _ _ HFL) in Hj.
      destruct Hi as (b1 & Hb1 & Ho1 & Hi1). destruct Hj as (b2 & Hb2 & Ho2 & Hi2).
      assert (b1 = b2); [|subst; lia].
      pose proof (fl_nd _ _ _ _ _ _ _ HFL) as Hnd.
      clear - Hb1 Hb2 Ho1 Ho2 Hnd. subst x.
      induction (frees (t_chain t)) as [|y l IH]; [destruct Hb1|].
      cbn [map] in Hnd. inversion Hnd as [|? ? Hy Hnd']; subst.
      destruct Hb1 as [->|Hb1]; destruct Hb2 as [->|Hb2]; auto.
      * exfalso. apply Hy. rewrite <- Ho2. apply in_map. auto.
      * exfalso. apply Hy. rewrite Ho2. apply in_map. auto.
  - apply (fl_nd _ _ _ _ _ _ _ HFL).
  - intros x. rewrite in_concat_nth. split.
    + intros (i & Hi). rewrite <- lat_of_nat in Hi. apply (fl_in _ _ _ _ _ _ _ HFL) in Hi.
      destruct Hi as (b & Hb & Ho & _). rewrite <- Ho. apply in_map. auto.
    + rewrite in_map_iff. intros (b & Ho & Hb).
      pose proof (FL_idx_range _ _ _ _ _ _ _ b HFL Hb) as Hr.
      exists (Z.to_nat (list_of_size (b_size b))). rewrite <- lat_of_nat, Z2Nat.id by lia.
      apply (fl_in _ _ _ _ _ _ _ HFL). exists b. auto.
Qed.

Definition vstep (acc : bool * Z * Z * Z * Z * Z) (b : blk) : bool * Z * Z * Z * Z * Z :=
  let '(ok, next_off, csize, cfree, nalloc, nfree) := acc in
  (ok && (b_off b + b_size b =? next_off), b_off b, csize + b_size b,
   (if b_free b then cfree + b_size b else cfree),
   (if b_free b then nalloc else nalloc + 1),
   (if b_free b then nfree + 1 else nfree)).

Lemma walk_spec o c cs cf na nf :
  chain_from o c ->
  fold_right (fun b acc => vstep acc b) (true, chain_end o c, cs, cf, na, nf) c
  = (true, o, cs + sum_sizes c, cf + sum_sizes (frees c), na + zlen (livef c), nf + zlen (frees c)).
Proof.
  revert o; induction c as [|x c IH]; intros o H.
  - cbn [fold_right chain_end sum_sizes frees livef filter]. unfold zlen. cbn [length Z.of_nat].
    repeat match goal with |- (_, _) = (_, _) => apply f_equal2 end; try reflexivity; lia.
  - cbn [chain_from] in H. destruct H as (Ho & Hs & Hc). cbn [fold_right chain_end].
    rewrite (IH _ Hc). unfold vstep. cbn [andb].
    rewrite Ho, Z.eqb_refl. cbn [sum_sizes frees livef filter]. fold (frees c). fold (livef c).
    destruct (b_free x); cbn [negb sum_sizes]; rewrite ?zlen_cons;
      repeat match goal with |- (_, _) = (_, _) => apply f_equal2 end; try reflexivity; lia.
Qed.

Theorem tlsf_validate t :
  TInv t -> Inv2 t ->
  gran_validate (t_gran t) (map (fun b => (b_off b, b_size b)) (live t)) = Some true ->
  validate t = Some true.
Proof.
  intros HT HI Hgv. pose proof HT as [Hinv _]. pose proof HI as [HFL Hac _ _].
  pose proof Hinv as [[Hch Hnoff Hnsz Htot Hnfree] _ _ _].
  pose proof (sum_free_size_le t Hinv HI) as (_ & Hle).
  unfold validate. destruct (Z.ltb_spec (t_size t) (sum_free_size t)); [lia|].
  cbv zeta.
  rewrite (lists_fold_acc t (t_lists t) 0).
  2:{ intros l Hl o Ho. destruct (In_nth _ _ [] Hl) as (i & _ & E).
      assert (Hin : In o (list_at t (Z.of_nat i))) by (rewrite list_at_lat, lat_of_nat, E; auto).
      destruct (free_of_list t _ o Hinv HFL Hin) as (b & Hf & _ & Hbf & _). eauto. }
  cbn [fst snd negb].
  rewrite fold_left_rev.
  change (fun (b : blk) (d : bool * Z * Z * Z * Z * Z) => _) with (fun b acc => vstep acc b).
  rewrite Hnoff. rewrite (walk_spec 0 (t_chain t) _ _ _ _ Hch).
  rewrite Hgv. f_equal.
  pose proof (chain_sum _ _ Hch) as Hcs. pose proof (fl_fs _ _ _ _ _ _ _ HFL) as Hfs.
  pose proof (fl_fc _ _ _ _ _ _ _ HFL) as Hfc. rewrite (lists_total t HFL).
  rewrite !andb_true_iff, !Z.eqb_eq. unfold sum_free_size. rewrite live_livef in Hac.
  repeat split; try lia.
Qed.

Lemma gran_validate_disabled g l : enabled g = false -> gran_validate g l = Some true.
Proof. intros H. unfold gran_validate. rewrite H. reflexivity. Qed.

Corollary tlsf_validate_disabled t :
  TInv t -> Inv2 t -> enabled (t_gran t) = false -> validate t = Some true.
Proof. intros HT HI He. apply tlsf_validate; auto. apply gran_validate_disabled; auto. Qed.

(* ------------------------------------------------------------------ C18: an emptied block is a fresh block *)

Lemma all_nil_repeat (l : list (list Z)) : (forall i, nth i l [] = []) -> l = repeat [] (length l).
Proof.
  induction l as [|x l IH]; intros H; cbn; [reflexivity|].
  pose proof (H 0%nat) as H0. cbn in H0. subst x. f_equal. apply IH. intros i. apply (H (S i)).
Qed.

Lemma all_zero_repeat (l : list N) : (forall i, nth i l 0%N = 0%N) -> l = repeat 0%N (length l).
Proof.
  induction l as [|x l IH]; intros H; cbn; [reflexivity|].
  pose proof (H 0%nat) as H0. cbn in H0. subst x. f_equal. apply IH. intros i. apply (H (S i)).
Qed.

Lemma N_zero_nobit n : (forall j, 0 <= j -> N.testbit n (Z.to_N j) = false) -> n = 0%N.
Proof.
  intros H. destruct (N.eq_dec n 0) as [|Hne]; auto. exfalso.
  apply N_nonzero_bit in Hne. destruct Hne as (j & Hj & Hb). rewrite (H j Hj) in Hb. discriminate.
Qed.

Definition fresh_with (g : gran) (size : Z) : tlsf :=
  mkT size g [] (free_blk 0 size) (repeat [] (Z.to_nat (list_count size))) 0%N
      (repeat 0%N max_memory_classes) 0 0 0.

Lemma fresh_with_init h gr size : fresh_with (gran_init h gr size) size = tlsf_init h gr size.
Proof. reflexivity. Qed.

Theorem tlsf_empty_is_fresh t :
  TInv t -> Inv2 t -> live t = [] -> t = fresh_with (t_gran t) (t_size t).
Proof.
  intros [Hinv _] [HFL Hac _ Hnl] Hlive.
  pose proof Hinv as [[Hch Hnoff Hnsz Htot Hnfree] _ _ _].
  pose proof (proj1 (live_empty_iff t Hinv) Hlive) as Hc.
  unfold FLt in HFL. rewrite Hc in HFL. cbn [frees filter] in HFL.
  destruct HFL as [Hsz Hlen _ _ Hin _ (Hil & Hib & Hob) Hfc Hfs].
  assert (Hempty : forall idx, lat (t_lists t) idx = []).
  { intros idx. destruct (lat (t_lists t) idx) as [|o l] eqn:E; auto. exfalso.
    assert (Ho : In o (lat (t_lists t) idx)) by (rewrite E; left; auto).
    apply Hin in Ho. destruct Ho as (b & [] & _). }
  assert (Hlists : t_lists t = repeat [] (Z.to_nat (list_count (t_size t)))).
  { rewrite <- Hlen. unfold zlen. rewrite Nat2Z.id. apply all_nil_repeat.
    intros i. rewrite <- lat_of_nat. apply Hempty. }
  assert (Hinner0 : forall mc, 0 <= mc -> inner_at (t_inner t) mc = 0%N).
  { intros mc Hmc. apply N_zero_nobit. intros j Hj.
    destruct (N.testbit (inner_at (t_inner t) mc) (Z.to_N j)) eqn:E; auto. exfalso.
    apply Hib in E; auto. destruct E as (_ & Hne). apply Hne. apply Hempty. }
  assert (Hinner : t_inner t = repeat 0%N max_memory_classes).
  { rewrite <- Hil. apply all_zero_repeat. intros i.
    specialize (Hinner0 (Z.of_nat i) ltac:(lia)). unfold inner_at in Hinner0. rewrite Nat2Z.id in Hinner0. auto. }
  assert (Hbm : t_bitmap t = 0%N).
  { apply N_zero_nobit. intros j Hj. destruct (N.testbit (t_bitmap t) (Z.to_N j)) eqn:E; auto. exfalso.
    apply Hob in E; [|exact Hj]. apply E. apply Hinner0. exact Hj. }
  rewrite Hc in Hnoff. cbn in Hnoff.
  assert (Hnull : t_null t = free_blk 0 (t_size t)).
  { rewrite Hnl. f_equal; lia. }
  rewrite Hlive in Hac. unfold zlen in Hac, Hfc. cbn in Hac, Hfc, Hfs.
  unfold fresh_with. clear - Hc Hnull Hlists Hbm Hinner Hac Hfc Hfs.
  destruct t as [sz g c n ls bm inn ac fc fs].
  cbn [t_size t_gran t_chain t_null t_lists t_bitmap t_inner t_alloc_count t_free_count t_free_size] in *.
  subst. reflexivity.
Qed.

(* Clear yields the same state, with the cleared granularity table *)
Theorem tlsf_clear_is_fresh t :
  Inv2 t -> tlsf_clear t = fresh_with (gran_clear (t_gran t)) (t_size t).
Proof.
  intros [HFL _ _ Hnl]. unfold tlsf_clear, fresh_with. rewrite Hnl. cbn [set_blk free_blk b_kind b_reqsize b_reqalign b_tag].
  f_equal. f_equal. pose proof (fl_len _ _ _ _ _ _ _ HFL) as Hlen. unfold zlen in Hlen. rewrite <- Hlen, Nat2Z.id. reflexivity.
Qed.

(* with an all-zero page table the emptied block is literally the initial state, so every future
   history behaves as on a fresh block *)
Corollary tlsf_empty_is_init t h gr :
  TInv t -> Inv2 t -> live t = [] -> t_gran t = gran_init h gr (t_size t) ->
  t = tlsf_init h gr (t_size t) /\
  forall ops, run t ops = run (tlsf_init h gr (t_size t)) ops.
Proof.
  intros HT HI Hl Hg. assert (E : t = tlsf_init h gr (t_size t)).
  { rewrite (tlsf_empty_is_fresh t HT HI Hl) at 1. rewrite Hg. apply fresh_with_init. }
  split; auto. intros ops. rewrite E at 1. reflexivity.
Qed.
