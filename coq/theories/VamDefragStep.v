(* VamDefragStep.v — EndDefragPass keeps the representation invariant.

   Between BeginDefragPass and EndDefragPass the pending moves of the current block list are valid at the level
   of the Allocation table ([moves_ok]): source and temporary are distinct allocated block allocations of the
   list, of the same size and alignment, and no object takes part in two moves.  Completing a move (swap and
   free the temporary, or free the temporary, or free both) keeps VamInvU; so does the whole pass, including
   the reordering of the blocks with ignored moves. *)
From Coq Require Import ZArith NArith List Bool Lia Permutation.
From Arsenal Require Util Bits SyncMem Budget Select Pass Defrag DefragProofs.
From Arsenal Require Import VamDev VamBlockList VamDefrag Vam VamInvMeta VamInv VamInvUpd VamInvDev VamInvStep VamInvStep2 VamInvThm VamDefragInv.
Import ListNotations.
Open Scope Z_scope.

Definition src_of (m : Defrag.move) : Z := Z.of_nat (Defrag.m_src m).
Definition tmp_of (m : Defrag.move) : Z := Z.of_nat (Defrag.m_tmp m).
Definition mv_slots (mvs : list Defrag.move) : list Z := map src_of mvs ++ map tmp_of mvs.

(* a pending move at the level of the Allocation table *)
Definition mv_ok (v : vam) (lr : lref) (m : Defrag.move) : Prop :=
  exists a b, slot_is v (src_of m) a /\ slot_is v (tmp_of m) b /\ a_kind a = 1 /\ a_kind b = 1 /\
              a_lref a = lr /\ a_lref b = lr /\ a_size a = a_size b /\ a_align a = a_align b /\
              (* the source is the caller's object at the recorded place, the temporary sits at the destination *)
              a_blk a = Defrag.m_srcblk m /\ a_handle a = Defrag.m_srcoff m /\ a_temp a = false /\
              a_blk b = Defrag.m_dstblk m /\ a_handle b = Defrag.m_dstoff m /\ a_temp b = true /\
              (* the temporary carries the source's persistent-map flag (the destination block was mapped for it) *)
              a_persist b = a_persist a.

Definition moves_ok (v : vam) (lr : lref) (mvs : list Defrag.move) : Prop :=
  NoDup (mv_slots mvs) /\ Forall (mv_ok v lr) mvs.

Lemma moves_ok_nil v lr : moves_ok v lr [].
Proof. split; constructor. Qed.

Lemma mv_slots_cons m r :
  NoDup (mv_slots (m :: r)) ->
  src_of m <> tmp_of m /\ ~ In (src_of m) (mv_slots r) /\ ~ In (tmp_of m) (mv_slots r) /\ NoDup (mv_slots r).
Proof.
  unfold mv_slots. cbn [map app]. intros H. inversion H as [|? ? H1 H2]; subst.
  pose proof (NoDup_remove_1 _ _ _ H2) as H3. pose proof (NoDup_remove_2 _ _ _ H2) as H4.
  split; [intros E; apply H1; rewrite E; apply in_app_iff; right; left; reflexivity|].
  split; [intros Hin; apply H1; apply in_app_iff in Hin; apply in_app_iff; destruct Hin; [left|right; right]; auto|].
  split; [exact H4|exact H3].
Qed.

Lemma mv_ok_frame v v' lr S m :
  tab_frame v v' S -> ~ In (src_of m) S -> ~ In (tmp_of m) S -> mv_ok v lr m -> mv_ok v' lr m.
Proof.
  intros T Hs Ht (a & b & Sa & Sb & R). exists a, b.
  split; [apply (slot_is_frame _ _ _ _ _ T); auto|]. split; [apply (slot_is_frame _ _ _ _ _ T); auto|exact R].
Qed.

Lemma moves_ok_frame v v' lr S mvs :
  tab_frame v v' S -> (forall s, In s S -> ~ In s (mv_slots mvs)) -> moves_ok v lr mvs -> moves_ok v' lr mvs.
Proof.
  intros T Hd (Hnd & Hf). split; [exact Hnd|]. rewrite Forall_forall in *. intros m Hm.
  apply (mv_ok_frame v v' lr S m T); [| |auto].
  - intros Hin. apply (Hd _ Hin). unfold mv_slots. apply in_app_iff. left. apply in_map. exact Hm.
  - intros Hin. apply (Hd _ Hin). unfold mv_slots. apply in_app_iff. right. apply in_map. exact Hm.
Qed.

Section WithCfg.
Variable c : vcfg.
Hypothesis Hc : cfg_ok c.

(* ---------------------------------------------------------------- one move *)

Lemma free_or_panic_inv v s :
  VamInv c v ->
  let '(v', r) := free_or_panic c v s in
  match r with
  | OK _ => keptS c v v' [] [] [s] /\ a_allocated (get_alloc v' s) = false
  | ER _ => False
  | _ => True
  end.
Proof.
  intros HI. unfold free_or_panic. destruct (a_allocated (get_alloc v s)) eqn:Ea; cbn [negb]; [|exact I].
  destruct (a_kind (get_alloc v s) =? 1) eqn:Ek; cbn [negb]; [|exact I]. apply Z.eqb_eq in Ek.
  pose proof (free_block_slot_inv c v [] [] s (get_alloc v s) false HI (get_alloc_allocated _ _ Ea) (fun H => H) Ek) as P.
  destruct (bl_free c v (a_lref (get_alloc v s)) s false) as (v1 & r). destruct r as [[]|code| |]; auto.
Qed.

Lemma complete_move_inv v lr mv d :
  VamInv c v -> mv_ok v lr mv -> src_of mv <> tmp_of mv ->
  let '(v', r) := complete_move c v mv d in
  match r with OK _ => keptS c v v' [] [] [src_of mv; tmp_of mv] | ER _ => False | _ => True end.
Proof.
  intros HI (a & b & Sa & Sb & Ka & Kb & La & Lb & Esz & Eal & _) Hne. unfold complete_move.
  fold (src_of mv). fold (tmp_of mv).
  assert (Hfin : forall v1, keptS c v v1 [] [] [src_of mv; tmp_of mv] ->
            let '(v', r) := free_or_panic c v1 (tmp_of mv) in
            match r with OK _ => keptS c v v' [] [] [src_of mv; tmp_of mv] | ER _ => False | _ => True end).
  { intros v1 K1. pose proof (free_or_panic_inv v1 (tmp_of mv) (proj1 K1)) as P.
    destruct (free_or_panic c v1 (tmp_of mv)) as (v' & r). destruct r as [[]|code| |]; auto.
    destruct P as (K2 & _). eapply keptS_trans; [exact K1|]. eapply keptS_weaken; [exact K2|]. intros x [<-|[]]. right. left. reflexivity. }
  destruct (d =? 0) eqn:E0.
  - pose proof (swap_inv c v [] [] (src_of mv) (tmp_of mv) a b lr HI Hne Sa Sb (fun H => H) (fun H => H) Ka Kb La Lb Esz Eal) as P.
    destruct (swap_block_allocation v (src_of mv) (tmp_of mv)) as (v1 & r1).
    destruct P as (-> & I1 & L1 & Z1 & O1 & _). apply Hfin.
    split; [exact I1|]. split; [|exact L1]. split; [exact Z1|]. intros s Hs. apply O1; intros ->; apply Hs; [left|right; left]; reflexivity.
  - destruct (d =? 2) eqn:E2.
    + pose proof (free_or_panic_inv v (src_of mv) HI) as P.
      destruct (free_or_panic c v (src_of mv)) as (v1 & r1). destruct r1 as [[]|code| |]; auto.
      destruct P as (K1 & _). apply Hfin. eapply keptS_weaken; [exact K1|]. intros x [<-|[]]. left. reflexivity.
    + apply Hfin. split; [exact HI|]. split; [apply tab_frame_refl|apply lists_frame_refl].
Qed.

(* what completing a move does to its two Allocation objects (C07): after a copy the caller's object reports the
   destination (block, handle, memory of the temporary) and keeps everything else; an ignored move leaves it
   as it was; a destroyed one is gone; the temporary is gone in every case *)
Definition move_effect (v v' : vam) (m : Defrag.move) (d : Z) : Prop :=
  a_allocated (get_alloc v' (tmp_of m)) = false /\
  (d = 0 -> get_alloc v' (src_of m) = swapped (get_alloc v (src_of m)) (get_alloc v (tmp_of m))) /\
  (d <> 0 -> d <> 2 -> get_alloc v' (src_of m) = get_alloc v (src_of m)) /\
  (d = 2 -> a_allocated (get_alloc v' (src_of m)) = false).

Lemma complete_move_effect v lr mv d :
  VamInv c v -> mv_ok v lr mv -> src_of mv <> tmp_of mv ->
  let '(v', r) := complete_move c v mv d in
  match r with OK _ => move_effect v v' mv d | _ => True end.
Proof.
  intros HI (a & b & Sa & Sb & Ka & Kb & La & Lb & Esz & Eal & _) Hne. unfold complete_move.
  fold (src_of mv). fold (tmp_of mv).
  assert (Hfin : forall v1, VamInv c v1 ->
            let '(v', r) := free_or_panic c v1 (tmp_of mv) in
            match r with OK _ => a_allocated (get_alloc v' (tmp_of mv)) = false /\ get_alloc v' (src_of mv) = get_alloc v1 (src_of mv) | _ => True end).
  { intros v1 I1. pose proof (free_or_panic_inv v1 (tmp_of mv) I1) as P.
    destruct (free_or_panic c v1 (tmp_of mv)) as (v' & r). destruct r as [[]|code| |]; auto.
    destruct P as ((_ & T & _) & D). split; [exact D|]. apply (get_alloc_frame _ _ _ _ T). intros [E|[]]. congruence. }
  destruct (d =? 0) eqn:E0.
  - apply Z.eqb_eq in E0.
    pose proof (swap_inv c v [] [] (src_of mv) (tmp_of mv) a b lr HI Hne Sa Sb (fun H => H) (fun H => H) Ka Kb La Lb Esz Eal) as P.
    destruct (swap_block_allocation v (src_of mv) (tmp_of mv)) as (v1 & r1).
    destruct P as (-> & I1 & _ & _ & _ & Gs & _). specialize (Hfin v1 I1).
    destruct (free_or_panic c v1 (tmp_of mv)) as (v' & r). destruct r as [[]|code| |]; auto. destruct Hfin as (D & E).
    split; [exact D|]. split; [intros _; rewrite E, Gs, (get_alloc_slot _ _ _ Sa), (get_alloc_slot _ _ _ Sb); reflexivity|]. split; intros; lia.
  - apply Z.eqb_neq in E0. destruct (d =? 2) eqn:E2.
    + apply Z.eqb_eq in E2. pose proof (free_or_panic_inv v (src_of mv) HI) as P.
      destruct (free_or_panic c v (src_of mv)) as (v1 & r1). destruct r1 as [[]|code| |]; auto.
      destruct P as ((I1 & _) & D1). specialize (Hfin v1 I1).
      destruct (free_or_panic c v1 (tmp_of mv)) as (v' & r). destruct r as [[]|code| |]; auto. destruct Hfin as (D & E).
      split; [exact D|]. split; [intros; lia|]. split; [intros; lia|]. intros _. rewrite E. exact D1.
    + apply Z.eqb_neq in E2. specialize (Hfin v HI).
      destruct (free_or_panic c v (tmp_of mv)) as (v' & r). destruct r as [[]|code| |]; auto. destruct Hfin as (D & E).
      split; [exact D|]. split; [intros; lia|]. split; [intros; exact E|intros; lia].
Qed.

(* ---------------------------------------------------------------- all moves of a pass: the invariant *)

Lemma complete_moves_inv mvs : forall v lr p imm ds,
  VamInv c v -> moves_ok v lr mvs ->
  let '(v', p', imm', r) := complete_moves c v lr p imm mvs ds in
  match r with OK _ => keptS c v v' [] [] (mv_slots mvs) | ER _ => False | _ => True end.
Proof.
  induction mvs as [|mv rest IH]; intros v lr p imm ds HI (Hnd & Hf); cbn [complete_moves].
  - split; [exact HI|]. split; [apply tab_frame_refl|apply lists_frame_refl].
  - destruct (list_alloc_stats v lr) as (pc & pb).
    inversion Hf as [|? ? Hmv Hrest]; subst.
    destruct (mv_slots_cons _ _ Hnd) as (Hne & Hs & Ht & Hnd').
    pose proof (complete_move_inv v lr mv (norm_decision (hd 0 ds)) HI Hmv Hne) as P.
    destruct (complete_move c v mv (norm_decision (hd 0 ds))) as (v1 & r). destruct r as [[]|code| |]; auto.
    destruct (list_alloc_stats v1 lr) as (ac & ab).
    assert (Hok1 : moves_ok v1 lr rest).
    { apply (moves_ok_frame v v1 lr [src_of mv; tmp_of mv] rest); [apply P| |split; auto].
      intros s [<-|[<-|[]]]; auto. }
    match goal with |- context [complete_moves c v1 lr ?p1 ?imm1 rest (tl ds)] =>
      pose proof (IH v1 lr p1 imm1 (tl ds) (proj1 P) Hok1) as Q; destruct (complete_moves c v1 lr p1 imm1 rest (tl ds)) as (((v2 & p2) & imm2) & r2) end.
    destruct r2 as [[]|code| |]; auto.
    assert (Hin1 : forall s, In s [src_of mv; tmp_of mv] -> In s (mv_slots (mv :: rest))).
    { unfold mv_slots. cbn [map app]. intros s [<-|[<-|[]]]; [left; reflexivity|right; apply in_app_iff; right; left; reflexivity]. }
    assert (Hin2 : forall s, In s (mv_slots rest) -> In s (mv_slots (mv :: rest))).
    { unfold mv_slots. cbn [map app]. intros s Hin. apply in_app_iff in Hin. right. apply in_app_iff. destruct Hin; [left|right; right]; auto. }
    eapply keptS_trans; [eapply keptS_weaken; [exact P|exact Hin1]|eapply keptS_weaken; [exact Q|exact Hin2]].
Qed.

(* after a completed copy the caller's Allocation object reports the destination of the move and keeps its
   size, alignment, memory type, suballocation type, mapping flags and identity as a non-temporary *)
Lemma copied_location v v' lr m :
  mv_ok v lr m -> move_effect v v' m 0 ->
  let a := get_alloc v (src_of m) in let a' := get_alloc v' (src_of m) in
  a_allocated a' = true /\ a_kind a' = 1 /\ a_lref a' = lr /\
  a_blk a' = Defrag.m_dstblk m /\ a_handle a' = Defrag.m_dstoff m /\
  a_size a' = a_size a /\ a_align a' = a_align a /\ a_type a' = a_type a /\ a_sub a' = a_sub a /\
  a_persist a' = a_persist a /\ a_mapallowed a' = a_mapallowed a /\ a_temp a' = false.
Proof.
  intros (a & b & Sa & Sb & Ka & Kb & La & Lb & Esz & Eal & Ba & Oa & Ta & Bb & Ob & Tb) (_ & E & _). cbn zeta.
  rewrite (E eq_refl), (get_alloc_slot _ _ _ Sa), (get_alloc_slot _ _ _ Sb). unfold swapped. cbn.
  destruct Sa as (_ & Aa). auto 15.
Qed.

(* ---------------------------------------------------------------- all moves of a pass: what happens to the objects *)

Fixpoint moves_effect (v v' : vam) (mvs : list Defrag.move) (ds : list Z) : Prop :=
  match mvs with
  | [] => True
  | m :: rest => move_effect v v' m (norm_decision (hd 0 ds)) /\ moves_effect v v' rest (tl ds)
  end.

Lemma move_effect_frame v v0 v' v1 m d :
  get_alloc v0 (src_of m) = get_alloc v (src_of m) -> get_alloc v0 (tmp_of m) = get_alloc v (tmp_of m) ->
  get_alloc v1 (src_of m) = get_alloc v' (src_of m) -> get_alloc v1 (tmp_of m) = get_alloc v' (tmp_of m) ->
  move_effect v v' m d -> move_effect v0 v1 m d.
Proof. intros A B C0 D (E1 & E2 & E3 & E4). unfold move_effect. rewrite A, B, C0, D. auto. Qed.

Lemma moves_effect_frame mvs : forall v v0 v' v1 ds,
  (forall s, In s (mv_slots mvs) -> get_alloc v0 s = get_alloc v s) ->
  (forall s, In s (mv_slots mvs) -> get_alloc v1 s = get_alloc v' s) ->
  moves_effect v v' mvs ds -> moves_effect v0 v1 mvs ds.
Proof.
  induction mvs as [|m rest IH]; intros v v0 v' v1 ds H0 H1 H; cbn [moves_effect] in *; [exact I|].
  destruct H as (Hm & Hr).
  assert (Hs : In (src_of m) (mv_slots (m :: rest))) by (unfold mv_slots; cbn; left; reflexivity).
  assert (Ht : In (tmp_of m) (mv_slots (m :: rest))) by (unfold mv_slots; cbn; right; apply in_app_iff; right; left; reflexivity).
  assert (Hin : forall s, In s (mv_slots rest) -> In s (mv_slots (m :: rest))).
  { unfold mv_slots. cbn [map app]. intros s Hi. apply in_app_iff in Hi. right. apply in_app_iff. destruct Hi; [left|right; right]; auto. }
  split; [apply (move_effect_frame v v0 v' v1); auto|]. apply (IH v v0 v' v1); auto.
Qed.

Lemma complete_moves_effect mvs : forall v lr p imm ds,
  VamInv c v -> moves_ok v lr mvs ->
  let '(v', p', imm', r) := complete_moves c v lr p imm mvs ds in
  match r with OK _ => moves_effect v v' mvs ds | _ => True end.
Proof.
  induction mvs as [|mv rest IH]; intros v lr p imm ds HI (Hnd & Hf); cbn [complete_moves]; [exact I|].
  destruct (list_alloc_stats v lr) as (pc & pb).
  inversion Hf as [|? ? Hmv Hrest]; subst.
  destruct (mv_slots_cons _ _ Hnd) as (Hne & Hs & Ht & Hnd').
  pose proof (complete_move_inv v lr mv (norm_decision (hd 0 ds)) HI Hmv Hne) as P.
  pose proof (complete_move_effect v lr mv (norm_decision (hd 0 ds)) HI Hmv Hne) as PE.
  destruct (complete_move c v mv (norm_decision (hd 0 ds))) as (v1 & r). destruct r as [[]|code| |]; auto.
  destruct (list_alloc_stats v1 lr) as (ac & ab).
  assert (Hok1 : moves_ok v1 lr rest).
  { apply (moves_ok_frame v v1 lr [src_of mv; tmp_of mv] rest); [apply P| |split; auto].
    intros s [<-|[<-|[]]]; auto. }
  match goal with |- context [complete_moves c v1 lr ?p1 ?imm1 rest (tl ds)] =>
    pose proof (IH v1 lr p1 imm1 (tl ds) (proj1 P) Hok1) as Q;
    pose proof (complete_moves_inv rest v1 lr p1 imm1 (tl ds) (proj1 P) Hok1) as QI;
    destruct (complete_moves c v1 lr p1 imm1 rest (tl ds)) as (((v2 & p2) & imm2) & r2) end.
  destruct r2 as [[]|code| |]; auto. cbn [moves_effect]. destruct P as (_ & T1 & _). destruct QI as (_ & T2 & _). split.
  - apply (move_effect_frame v v v1 v2); auto; apply (get_alloc_frame _ _ _ _ T2); auto.
  - apply (moves_effect_frame rest v1 v v2 v2); auto.
    intros s Hin. symmetry. apply (get_alloc_frame _ _ _ _ T1). intros [<-|[<-|[]]]; contradiction.
Qed.

(* ---------------------------------------------------------------- swapImmovableBlocks *)

Lemma swap_immovable_perm bs immc id : Permutation (fst (swap_immovable bs immc id)) bs.
Proof.
  unfold swap_immovable. destruct (block_index_from _ id immc) as [i|]; cbn [fst]; [apply DefragProofs.swap_nth_perm|apply Permutation_refl].
Qed.

Lemma swap_immovable_fold imm : forall bs immc,
  Permutation (fst (fold_left (fun acc id => swap_immovable (fst acc) (snd acc) id) imm (bs, immc))) bs.
Proof.
  induction imm as [|id tl IH]; intros bs immc; cbn [fold_left]; [apply Permutation_refl|].
  cbn [fst snd]. pose proof (swap_immovable_perm bs immc id) as P.
  destruct (swap_immovable bs immc id) as (bs1 & immc1). cbn [fst] in P.
  eapply Permutation_trans; [apply IH|exact P].
Qed.

(* BlockListCompletePass *)
Lemma complete_pass_inv v dc p ds :
  VamInv c v -> moves_ok v (dc_lr dc) (Defrag.c_moves (dc_ctx dc)) ->
  let '(v', dc', p', r) := complete_pass c v dc p ds in
  match r with
  | OK _ => keptS c v v' [] [] (mv_slots (Defrag.c_moves (dc_ctx dc))) /\ Defrag.c_moves (dc_ctx dc') = [] /\ dc_lr dc' = dc_lr dc
  | ER _ => False
  | _ => True
  end.
Proof.
  intros HI Hok. unfold complete_pass.
  pose proof (complete_moves_inv (Defrag.c_moves (dc_ctx dc)) v (dc_lr dc) p [] ds HI Hok) as P.
  destruct (complete_moves c v (dc_lr dc) p [] (Defrag.c_moves (dc_ctx dc)) ds) as (((v1 & p1) & imm) & r).
  destruct r as [[]|code| |]; auto.
  destruct (get_blist v1 (dc_lr dc)) as [l|] eqn:Hg; [|exact I].
  pose proof (swap_immovable_fold imm (bl_blocks l) (Defrag.c_immovable (dc_ctx dc))) as Pm.
  destruct (fold_left _ imm (bl_blocks l, Defrag.c_immovable (dc_ctx dc))) as (bs & immc). cbn [fst] in Pm.
  destruct (permute_inv c v1 [] [] (dc_lr dc) l bs (proj1 P) Hg (Permutation_sym Pm)) as (I2 & T2 & L2).
  split; [|split; reflexivity].
  eapply keptS_trans; [exact P|]. split; [exact I2|]. split; [eapply tab_frame_weaken; [exact T2|intros ? []]|exact L2].
Qed.

(* ---------------------------------------------------------------- the DefragmentationContext between calls *)

(* only the block list in progress can have pending moves; they are valid *)
Definition run_ok (v : vam) (run : dfrun) : Prop :=
  0 <= dr_max_bytes run /\ 0 <= dr_max_allocs run /\
  forall i dc, nth_z (dr_ctxs run) i = Some dc ->
    (i = dr_progress run -> moves_ok v (dc_lr dc) (Defrag.c_moves (dc_ctx dc))) /\
    (i <> dr_progress run -> Defrag.c_moves (dc_ctx dc) = []).

(* no pass is open *)
Definition run_idle (run : dfrun) : Prop :=
  forall i dc, nth_z (dr_ctxs run) i = Some dc -> Defrag.c_moves (dc_ctx dc) = [].

Lemma run_idle_ok v run : 0 <= dr_max_bytes run -> 0 <= dr_max_allocs run -> run_idle run -> run_ok v run.
Proof.
  intros H1 H2 Hi. split; [exact H1|]. split; [exact H2|]. intros i dc Hn. rewrite (Hi _ _ Hn). split; [intros _; apply moves_ok_nil|reflexivity].
Qed.

Lemma run_ok_idle_frame v v' run : run_ok v run -> run_idle run -> run_ok v' run.
Proof. intros (H1 & H2 & _) Hi. apply run_idle_ok; auto. Qed.

(* EndDefragPass *)
Lemma defrag_end_inv v run ds :
  VamInv c v -> run_ok v run ->
  let '(v', run', r) := defrag_end c v run ds in
  match r with
  | OK _ => VamInv c v' /\ zlen (v_tab v') = zlen (v_tab v) /\ lists_frame v v' /\ run_ok v' run' /\ run_idle run'
  | ER _ => False
  | _ => True
  end.
Proof.
  intros HI (Hb & Ha & Hr). unfold defrag_end.
  assert (Hsame : run_idle run -> VamInv c v /\ zlen (v_tab v) = zlen (v_tab v) /\ lists_frame v v /\ run_ok v run /\ run_idle run).
  { intros Hi. split; [exact HI|]. split; [reflexivity|]. split; [apply lists_frame_refl|]. split; [apply run_idle_ok; auto|exact Hi]. }
  destruct (nth_z (dr_ctxs run) (dr_progress run)) as [dc|] eqn:En.
  - destruct (Defrag.c_moves (dc_ctx dc)) as [|m0 ms0] eqn:Em.
    + apply Hsame. intros i dc1 Hn1. destruct (Z.eq_dec i (dr_progress run)) as [->|Hne]; [|apply (Hr _ _ Hn1); exact Hne].
      rewrite En in Hn1. injection Hn1 as <-. exact Em.
    + destruct (Hr _ _ En) as (Hok & _). specialize (Hok eq_refl).
      pose proof (complete_pass_inv v dc (dr_pass run) ds HI Hok) as P.
      destruct (complete_pass c v dc (dr_pass run) ds) as (((v1 & dc') & p') & r).
      destruct r as [[]|code| |]; auto.
      destruct P as ((I1 & T1 & L1) & Hm' & Hl').
      assert (Hidle : run_idle (mkDfrun (set_nth_ctx (dr_ctxs run) (dr_progress run) dc') (dr_progress run) (dr_max_bytes run)
                                        (dr_max_allocs run) p' (Pass.ps_add (dr_stats run) (Pass.p_stats p')))).
      { intros i dc1 Hn1. cbn [dr_ctxs] in Hn1. unfold set_nth_ctx in Hn1.
        pose proof (nth_z_some_range _ _ _ En) as Hrg.
        destruct (Z.eq_dec i (dr_progress run)) as [->|Hne].
        - rewrite nth_z_set_same in Hn1 by exact Hrg. injection Hn1 as <-. exact Hm'.
        - rewrite nth_z_set_other in Hn1 by congruence. apply (Hr _ _ Hn1). exact Hne. }
      split; [exact I1|]. split; [apply T1|]. split; [exact L1|]. split; [apply run_idle_ok; auto|exact Hidle].
  - apply Hsame. intros i dc1 Hn1. apply (Hr _ _ Hn1). intros ->. congruence.
Qed.

(* EndDefragPass, what the caller sees (C07): per move the effect chosen by its MoveOperation; every other
   Allocation object is untouched *)
Lemma defrag_end_effect v run ds dc :
  VamInv c v -> run_ok v run -> nth_z (dr_ctxs run) (dr_progress run) = Some dc ->
  let '(v', run', r) := defrag_end c v run ds in
  match r with
  | OK _ => moves_effect v v' (Defrag.c_moves (dc_ctx dc)) ds /\
            tab_frame v v' (mv_slots (Defrag.c_moves (dc_ctx dc)))
  | _ => True
  end.
Proof.
  intros HI (Hb & Ha & Hr) En. unfold defrag_end. rewrite En.
  destruct (Defrag.c_moves (dc_ctx dc)) as [|m0 ms0] eqn:Em; [split; [exact I|apply tab_frame_refl]|].
  destruct (Hr _ _ En) as (Hok & _). specialize (Hok eq_refl). rewrite Em in Hok.
  unfold complete_pass. rewrite Em.
  pose proof (complete_moves_inv (m0 :: ms0) v (dc_lr dc) (dr_pass run) [] ds HI Hok) as P.
  pose proof (complete_moves_effect (m0 :: ms0) v (dc_lr dc) (dr_pass run) [] ds HI Hok) as PE.
  destruct (complete_moves c v (dc_lr dc) (dr_pass run) [] (m0 :: ms0) ds) as (((v1 & p1) & imm) & r).
  destruct r as [[]|code| |]; auto.
  destruct (get_blist v1 (dc_lr dc)) as [l|] eqn:Hg; [|exact I].
  destruct (fold_left _ imm (bl_blocks l, Defrag.c_immovable (dc_ctx dc))) as (bs & immc).
  destruct P as (_ & T1 & _). split.
  - apply (moves_effect_frame (m0 :: ms0) v v v1 _); auto. intros s _. unfold get_alloc. rewrite set_blist_tab. reflexivity.
  - eapply tab_frame_trans_same; [exact T1|apply tab_frame_set_blist].
Qed.

End WithCfg.
