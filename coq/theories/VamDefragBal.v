(* VamDefragBal.v — the balance of map references (VamBal.BInv) through the defragmentation calls.
   BeginDefragPass maps the destination block once for every persistently mapped source and creates a temporary
   Allocation carrying that reference; EndDefragPass swaps the two objects (the user's object now lives at the
   destination and owns the destination's reference) and frees the temporary, which drops the reference of the
   old place.  Domain (dop_bal): no source of a pending move has an outstanding user Map when EndDefragPass runs
   (in Go the swap takes the Allocation's mapLock).  reachDB / reachDB_bal: the balance holds in every state of a
   history with defragmentation. *)
From Coq Require Import ZArith List Bool Lia Permutation.
From Arsenal Require Import Util Budget BudgetProofs VamDev VamBlockList VamDefrag Vam VamInvMeta VamInv VamInvUpd VamInvDev.
From Arsenal Require Import VamInvStep VamInvStep2 VamInvThm VamProps VamAcct VamAcctStep VamAcctStep2 VamAcctThm VamMap VamMapStep VamMapStep2 VamMapThm.
From Arsenal Require Import VamBal VamBalStep VamBalStep2 VamBalThm.
From Arsenal Require Import VamDefragInv VamDefragStep VamDefragPass VamDefragThm VamDefragAcct VamDefragMap.
From Arsenal Require Pass PassProofs Defrag DefragProofs DefragGranProofs Gran GranInv GranTlsf VamGran SyncMem SyncMemProofs VamDefragBridge.
Import ListNotations.
Open Scope Z_scope.

(* one Allocation object is appended to the table *)
Lemma refs_truth_snoc v v' G X mem tmp :
  v_tab v' = v_tab v ++ [tmp] -> refs_truth v' G X mem = refs_truth v G X mem + users v' G X mem (zlen (v_tab v)).
Proof.
  intros Et. unfold refs_truth. rewrite Et, app_length. cbn [length]. rewrite slot_range_app, map_app, zsum_app. cbn [slot_range map zsum].
  rewrite Z.add_0_l, Z.add_0_r. f_equal. apply zsum_map_ext. intros s Hs. apply slot_range_in in Hs.
  unfold users, get_alloc. rewrite Et, nth_z_app_old by (unfold zlen; lia). reflexivity.
Qed.

Section WithCfg.
Variable c : vcfg.
Hypothesis Hc : cfg_ok c.
Hypothesis Hmax : 0 <= c_maxcount c < 2147483647.
Hypothesis Hlarge : 0 <= c_large c < 2 ^ 61.
Variable ms0 : list dmem.
Variable G : Z -> Z.
Set Default Proof Using "Hc Hmax Hlarge".

Notation NA := (VamDefragMap.NA).

(* BD_put_touch from the no-alias property alone *)
Lemma BD_put_touch_NA w X d lr l bc m' nb e :
  BInvD w G X (bk_mem bc) d -> NA w -> get_blist w lr = Some l -> In bc (bl_blocks l) ->
  bk_id nb = bk_id bc -> bk_mem nb = bk_mem bc -> SyncMem.mapRefs (bk_sm nb) = SyncMem.mapRefs (bk_sm bc) + e ->
  BInvD (put_block (set_m w m') lr nb) G X (bk_mem bc) (d + e).
Proof using.
  intros H [N1 N2 N3] Hg Hb Eid Em Es.
  assert (Hgm : get_blist (set_m w m') lr = Some l) by (rewrite get_blist_set_m; exact Hg).
  pose proof (N1 _ _ Hg) as Hnd.
  apply (BInvD_touch w G X (bk_mem bc) d _ e H); [rewrite put_block_tab; reflexivity|].
  intros lr0 l0 b0 G0 B0. rewrite (put_block_eq _ _ _ _ Hgm) in G0.
  destruct (get_set_blist_cases (set_m w m') lr l _ lr0 l0 Hgm G0) as [(-> & ->)|(Hne & G0')].
  - cbn in B0. destruct (in_replace_block _ _ _ Hnd B0) as [(-> & _)|(Hin & Hid)].
    + exists lr, l, bc. rewrite Em, Z.eqb_refl. auto.
    + exists lr, l, b0. split; [exact Hg|]. split; [exact Hin|]. split; [reflexivity|].
      destruct (bk_mem b0 =? bk_mem bc) eqn:E; [|lia]. apply Z.eqb_eq in E.
      destruct (N2 _ _ _ _ _ _ Hg Hin Hg Hb E) as (_ & E2). congruence.
  - rewrite get_blist_set_m in G0'. exists lr0, l0, b0. split; [exact G0'|]. split; [exact B0|]. split; [reflexivity|].
    destruct (bk_mem b0 =? bk_mem bc) eqn:E; [|lia]. apply Z.eqb_eq in E.
    destruct (N2 _ _ _ _ _ _ G0' B0 Hg Hb E) as (E2 & _). contradiction.
Qed.

(* ---------------------------------------------------------------- BeginDefragPass: the write-back *)

Lemma commit_move_BB w lr mv :
  BInv w G [] -> MM ms0 w [] -> NA w ->
  let '(w', r) := commit_move c w lr mv in
  match r with OK _ => BInv w' G [] /\ tmp_of mv = zlen (v_tab w) /\ grown w w' | _ => True end.
Proof.
  intros HB HM HN. unfold commit_move.
  destruct (get_blist w lr) as [l|] eqn:Hg; [|exact I]. destruct (get_block w lr (Defrag.m_dstblk mv)) as [b|] eqn:Hgb; [|exact I].
  destruct (get_block_in _ _ _ _ Hgb) as (l' & Hg' & Hb & Hbid). assert (l' = l) by congruence. subst l'. clear Hg'.
  destruct (Z.of_nat (Defrag.m_tmp mv) =? zlen (v_tab w)) eqn:Etmp; cbn [negb]; [|exact I]. apply Z.eqb_eq in Etmp.
  pose proof (sm_sub_M ms0 (v_m w) (bk_mem b) (bk_sm b) (proj2 HM) (mi_blocks _ _ (proj1 HM) _ _ _ Hg Hb)) as Psub.
  pose proof (sm_sub_refs (v_m w) (bk_mem b) (bk_sm b)) as Rsub.
  destruct (sm_sub (v_m w) (bk_mem b) (bk_sm b)) as (m1 & s1). cbn [snd] in Rsub.
  set (p := a_persist (get_alloc w (Z.of_nat (Defrag.m_src mv)))) in *.
  assert (Pmap : forall m2 s2 (mr : out unit), (if p then sm_map c m1 (bk_mem b) s1 else (m1, s1, OK tt)) = (m2, s2, mr) ->
            match mr with OK _ => SyncMem.mapRefs s2 = SyncMem.mapRefs (bk_sm b) + (if p then 1 else 0) | _ => True end).
  { intros m2 s2 mr E. destruct p.
    - pose proof (sm_map_refs c (m_mems m1) m1 (bk_mem b) s1 (proj1 (proj2 Psub))) as P. rewrite E in P. destruct mr; auto; lia.
    - injection E as _ <- <-. lia. }
  destruct (if p then sm_map c m1 (bk_mem b) s1 else (m1, s1, OK tt)) as ((m2 & s2) & mr) eqn:Emap.
  specialize (Pmap _ _ _ eq_refl).
  destruct mr as [[]|code| |]; try exact I. destruct (_ && _); [exact I|].
  set (b2 := mkBlock (bk_id b) (bk_mem b) s2 (bk_meta b)).
  set (e := if p then 1 else 0) in *.
  assert (B2 : BInvD (put_block (set_m w m2) lr b2) G [] (bk_mem b) e).
  { replace e with (0 + e) by lia. apply (BD_put_touch_NA w [] 0 lr l b m2 b2 e (BInv_D _ _ _ _ HB) HN Hg Hb); [reflexivity|reflexivity|exact Pmap]. }
  set (v2 := put_block (set_m w m2) lr b2) in *.
  assert (Et2 : v_tab v2 = v_tab w) by (unfold v2; rewrite put_block_tab; reflexivity).
  match goal with |- context [set_tab v2 (v_tab v2 ++ [?t])] => set (tmp := t) end.
  set (v3 := set_tab v2 (v_tab v2 ++ [tmp])).
  assert (Et3 : v_tab v3 = v_tab v2 ++ [tmp]) by reflexivity.
  assert (Hnew : get_alloc v3 (zlen (v_tab v2)) = tmp).
  { unfold get_alloc. rewrite Et3. replace (zlen (v_tab v2)) with (zlen (v_tab v2) + Z.of_nat 0) by lia. rewrite nth_z_app_new. reflexivity. }
  assert (HG0 : G (zlen (v_tab v2)) = 0).
  { apply (bb_G0 _ _ _ HB). unfold get_alloc. rewrite Et2. destruct (nth_z (v_tab w) (zlen (v_tab w))) eqn:E; [apply nth_z_some_range in E; lia|reflexivity]. }
  split; [|split; [exact Etmp|]].
  - apply BInv_mach. destruct B2 as [B D G1 G2]. constructor.
    + intros lr0 l0 b0 G0 B0. unfold v3 in G0. rewrite get_blist_set_tab in G0. rewrite (B _ _ _ G0 B0), (refs_truth_snoc v2 v3 G [] (bk_mem b0) tmp Et3).
      destruct (bk_mem b0 =? bk_mem b) eqn:E.
      * apply Z.eqb_eq in E. rewrite E. rewrite (users_live v3 G [] (bk_mem b) (zlen (v_tab v2))); try (rewrite Hnew; reflexivity); [|intros []].
        rewrite Hnew, HG0. unfold pcount, tmp. cbn [a_persist]. fold p. unfold e. lia.
      * apply Z.eqb_neq in E. rewrite (users_other v3 G [] (bk_mem b0) (zlen (v_tab v2))); [lia|]. rewrite Hnew. unfold tmp. cbn [a_mem]. congruence.
    + intros s a Sa Ka. destruct Sa as (Sa & Aa). rewrite Et3 in Sa.
      destruct (Z_lt_dec s (zlen (v_tab v2))) as [Hlt|Hge]; [rewrite nth_z_app_old in Sa by exact Hlt; apply D; [split; auto|exact Ka]|].
      exfalso. assert (Hr : 0 <= s) by (apply nth_z_some_range in Sa; lia).
      replace s with (zlen (v_tab v2) + Z.of_nat (Z.to_nat (s - zlen (v_tab v2)))) in Sa by lia. rewrite nth_z_app_new in Sa.
      destruct (Z.to_nat (s - zlen (v_tab v2))) as [|n]; cbn in Sa; [injection Sa as <-; unfold tmp in Ka; cbn in Ka; discriminate|destruct n; discriminate].
    + exact G1.
    + intros s Hd. apply G2. unfold get_alloc in *. rewrite Et3 in Hd.
      destruct (Z_lt_dec s (zlen (v_tab v2))) as [Hlt|Hge]; [rewrite nth_z_app_old in Hd by exact Hlt; exact Hd|].
      destruct (nth_z (v_tab v2) s) eqn:E; [apply nth_z_some_range in E; lia|reflexivity].
  - split; cbn [v_tab set_m]; rewrite Et3, Et2; [unfold zlen; rewrite app_length; cbn; lia|]. intros s Hs. apply nth_z_app_old. exact Hs.
Qed.

Lemma commit_moves_BB mvs : forall w lr,
  BInv w G [] -> MM ms0 w [] -> NA w ->
  let '(w', r) := commit_moves c w lr mvs in
  match r with OK _ => BInv w' G [] /\ (forall m, In m mvs -> zlen (v_tab w) <= tmp_of m) /\ grown w w' | _ => True end.
Proof.
  induction mvs as [|mv tl IH]; intros w lr HB HM HN; cbn [commit_moves]; [split; [exact HB|split; [intros ? []|apply grown_refl]]|].
  pose proof (commit_move_BB w lr mv HB HM HN) as P. pose proof (VamDefragMap.commit_move_MM c Hc Hmax Hlarge ms0 w lr mv HM HN) as PM.
  destruct (commit_move c w lr mv) as (w1 & r).
  destruct r as [[]|code| |]; auto. destruct P as (B1 & Et & Gr1). destruct PM as (M1 & N1).
  specialize (IH w1 lr B1 M1 N1). destruct (commit_moves c w1 lr tl) as (w2 & r2). destruct r2 as [[]|code| |]; auto.
  destruct IH as (B2 & T2 & Gr2). split; [exact B2|]. split; [|eapply grown_trans; eauto].
  intros m [<-|Hm]; [lia|]. specialize (T2 m Hm). destruct Gr1 as (Gl & _). lia.
Qed.

(* a commit attempt that fails (the Map of the destination block is refused) leaves every reference count as it was *)
Lemma commit_attempt_BB w lr slot dst :
  BInv w G [] -> MM ms0 w [] -> NA w ->
  let '(w', r) := commit_attempt c w lr slot dst in
  match r with ER _ => BInv w' G [] /\ v_tab w' = v_tab w | _ => True end.
Proof.
  intros HB HM HN. unfold commit_attempt.
  destruct (get_block w lr dst) as [b|] eqn:Hgb; [|exact I].
  destruct (get_block_in _ _ _ _ Hgb) as (l & Hg & Hb & Hbid).
  pose proof (sm_sub_M ms0 (v_m w) (bk_mem b) (bk_sm b) (proj2 HM) (mi_blocks _ _ (proj1 HM) _ _ _ Hg Hb)) as Psub.
  pose proof (sm_sub_refs (v_m w) (bk_mem b) (bk_sm b)) as Rsub.
  destruct (sm_sub (v_m w) (bk_mem b) (bk_sm b)) as (m1 & s1). cbn [snd] in Rsub.
  set (p := a_persist (get_alloc w (Z.of_nat slot))) in *.
  assert (Pmap : forall m2 s2 (mr : out unit), (if p then sm_map c m1 (bk_mem b) s1 else (m1, s1, OK tt)) = (m2, s2, mr) ->
            match mr with ER _ => SyncMem.mapRefs s2 = SyncMem.mapRefs (bk_sm b) + 0 | _ => True end).
  { intros m2 s2 mr E. destruct p.
    - pose proof (sm_map_refs c (m_mems m1) m1 (bk_mem b) s1 (proj1 (proj2 Psub))) as P. rewrite E in P. destruct mr; auto; lia.
    - injection E as _ <- <-. exact I. }
  destruct (if p then sm_map c m1 (bk_mem b) s1 else (m1, s1, OK tt)) as ((m2 & s2) & mr) eqn:Emap.
  specialize (Pmap _ _ _ eq_refl).
  destruct mr as [[]|code| |]; try exact I.
  set (b2 := mkBlock (bk_id b) (bk_mem b) s2 (bk_meta b)).
  split; [|rewrite put_block_tab; reflexivity].
  apply (BInvD_0 _ _ _ (bk_mem b)). replace 0 with (0 + 0) by lia.
  apply (BD_put_touch_NA w [] 0 lr l b m2 b2 0 (BInv_D _ _ _ _ HB) HN Hg Hb); [reflexivity|reflexivity|exact Pmap].
Qed.

Lemma replay_BB log : forall w lr,
  BInv w G [] -> MM ms0 w [] -> NA w ->
  let '(w', r) := replay_log c w lr log in
  match r with OK _ => BInv w' G [] /\ (forall m, In m (Defrag.log_moves log) -> zlen (v_tab w) <= tmp_of m) /\ grown w w' | _ => True end.
Proof.
  induction log as [|[slot dst|mv] tl IH]; intros w lr HB HM HN; cbn [replay_log Defrag.log_moves]; [split; [exact HB|split; [intros ? []|apply grown_refl]]| |].
  - pose proof (commit_attempt_BB w lr slot dst HB HM HN) as P.
    destruct (VamDefragMap.commit_attempt_MM c Hc Hmax Hlarge ms0 w lr slot dst HM HN) as (M1 & N1).
    destruct (commit_attempt c w lr slot dst) as (w1 & r). cbn [fst] in *.
    destruct r as [[]|code| |]; try exact I. destruct P as (B1 & Et).
    specialize (IH w1 lr B1 M1 N1). destruct (replay_log c w1 lr tl) as (w2 & r2). destruct r2 as [[]|code2| |]; auto.
    destruct IH as (B2 & T2 & Gr2). split; [exact B2|]. split; [intros m Hm; specialize (T2 m Hm); rewrite Et in T2; exact T2|].
    destruct Gr2 as (Ga & Gb). rewrite Et in Ga, Gb. split; auto.
  - pose proof (commit_move_BB w lr mv HB HM HN) as P. pose proof (VamDefragMap.commit_move_MM c Hc Hmax Hlarge ms0 w lr mv HM HN) as PM.
    destruct (commit_move c w lr mv) as (w1 & r).
    destruct r as [[]|code| |]; auto. destruct P as (B1 & Et & Gr1). destruct PM as (M1 & N1).
    specialize (IH w1 lr B1 M1 N1). destruct (replay_log c w1 lr tl) as (w2 & r2). destruct r2 as [[]|code| |]; auto.
    destruct IH as (B2 & T2 & Gr2). split; [exact B2|]. split; [|eapply grown_trans; eauto].
    intros m [<-|Hm]; [lia|]. specialize (T2 m Hm). destruct Gr1 as (Gl & _). lia.
Qed.

Lemma collect_list_BB v dc p :
  VamInv c v -> MM ms0 v [] -> BInv v G [] -> Defrag.c_moves (dc_ctx dc) = [] ->
  let '(v', r) := collect_list c v dc p in
  match r with
  | OK (dc', _) => BInv v' G [] /\ (forall m, In m (Defrag.c_moves (dc_ctx dc')) -> zlen (v_tab v) <= tmp_of m)
  | _ => True
  end.
Proof.
  intros HI HM HB Hidle. unfold collect_list.
  destruct (project v (dc_lr dc)) as [st|] eqn:Ep; [|exact I].
  destruct (get_blist v (dc_lr dc)) as [l|] eqn:Hg; [|exact I].
  pose proof (VamDefragBridge.collect_moves_f_log_p vam (att_commit c (dc_lr dc)) st (dc_ctx dc) p v) as (Hlg & _).
  destruct (Defrag.collect_moves_f vam (att_commit c (dc_lr dc)) st (dc_ctx dc) p v) as (((cs & env) & log) & wr).
  unfold Defrag.res_f, Defrag.log_f in Hlg. cbn [fst snd] in Hlg. rewrite Hidle in Hlg. cbn [app] in Hlg.
  set (bl' := Defrag.d_blocks (Defrag.cs_st cs)).
  set (l1 := set_blocks l (unproject_blocks (bl_blocks l) bl')). set (v1 := set_blist v (dc_lr dc) l1).
  assert (Hun : forall b1, In b1 (bl_blocks l1) -> exists b, In b (bl_blocks l) /\ bk_id b = bk_id b1 /\ bk_mem b = bk_mem b1 /\ bk_sm b = bk_sm b1).
  { intros b1 Hb1. unfold l1 in Hb1. cbn in Hb1. unfold unproject_blocks in Hb1. apply in_map_iff in Hb1. destruct Hb1 as (b & <- & Hb).
    exists b. split; [exact Hb|]. destruct (Defrag.find_id (bk_id b) bl'); cbn; auto. }
  assert (Hsub : blocks_sub v v1).
  { apply (blocks_sub_set_blist v (dc_lr dc) l _ Hg). intros b1 Hb1. destruct (Hun b1 Hb1) as (b & Hb & _ & E1 & E2). exists b. auto. }
  assert (M1 : MM ms0 v1 []) by (apply (MM_lists ms0 v []); [exact HM|apply set_blist_m|apply tab_frame_set_blist|exact Hsub]).
  assert (B1 : BInv v1 G []) by (apply (BInv_lists v G []); [exact HB|apply set_blist_tab|apply blocks_sub_R; exact Hsub]).
  assert (N1 : NA v1).
  { apply (VamDefragMap.NA_sub c Hc Hmax Hlarge v); [apply (VamDefragMap.NA_inv c Hc Hmax Hlarge v [] []); exact HI| |].
    - intros lr0 l0 G0. destruct (get_set_blist_cases v (dc_lr dc) l l1 lr0 l0 Hg G0) as [(-> & ->)|(Hne & G0')].
      + exists l. split; [exact Hg|]. split; [unfold l1; cbn; apply unproject_ids|]. intros b1 Hb1. destruct (Hun b1 Hb1) as (b & Hb & E0 & E1 & _). exists b. auto.
      + exists l0. split; [exact G0'|]. split; [reflexivity|]. intros b' Hb'. exists b'. auto.
    - intros s a Sa _. unfold slot_is, v1 in *. rewrite set_blist_tab in Sa. exact Sa. }
  assert (Ez : zlen (v_tab v1) = zlen (v_tab v)) by (unfold v1; rewrite set_blist_tab; reflexivity).
  destruct wr as [| |why]; [| |exact I];
    (pose proof (replay_BB log v1 (dc_lr dc) B1 M1 N1) as P; destruct (replay_log c v1 (dc_lr dc) log) as (v2 & r);
     destruct r as [[]|code| |]; auto; destruct P as (B2 & T2 & _); split; [exact B2|cbn; rewrite Hlg; intros m Hm; specialize (T2 m Hm); lia]).
Qed.

(* the temporaries of the moves of a pass lie beyond the table the pass started with *)
Definition tmps_beyond (n : Z) (run : dfrun) : Prop :=
  forall i dc m, nth_z (dr_ctxs run) i = Some dc -> In m (Defrag.c_moves (dc_ctx dc)) -> n <= tmp_of m.

Lemma pass_loop_BB fuel : forall v run p n,
  VamInv c v -> MM ms0 v [] -> BInv v G [] -> run_idle run -> 0 <= dr_max_bytes run -> 0 <= dr_max_allocs run -> PassProofs.pass_running p -> VamGran.GV c v ->
  n <= zlen (v_tab v) ->
  let '(v', run', r) := pass_loop c fuel v run p in match r with OK _ => BInv v' G [] /\ tmps_beyond n run' | _ => True end.
Proof.
  induction fuel as [|f IH]; intros v run p n HI HM HB Hidle Hb Ha Hrun HG Hn; cbn [pass_loop]; [exact I|].
  destruct (nth_z (dr_ctxs run) (dr_progress run)) as [dc|] eqn:En.
  2:{ split; [exact HB|]. intros i dc m Hi Hm. cbn [dr_ctxs] in Hi. rewrite (Hidle _ _ Hi) in Hm. destruct Hm. }
  assert (Hdc : Defrag.c_moves (dc_ctx dc) = []) by (eapply Hidle; eauto).
  pose proof (VamDefragPass.collect_list_inv_gv c v dc p HI HG Hdc Hrun) as PS.
  pose proof (VamDefragMap.collect_list_MM c Hc Hmax Hlarge ms0 v dc p HI HM) as PM.
  pose proof (collect_list_BB v dc p HI HM HB Hdc) as P.
  destruct (collect_list c v dc p) as (v1 & r). destruct r as [(dc' & p')|code| |]; auto.
  destruct PS as ((S1 & LS1 & GS1 & Elr & MS1 & Hrun') & HG1). destruct P as (B1 & T1).
  pose proof (nth_z_some_range _ _ _ En) as Hrg.
  destruct (Defrag.c_moves (dc_ctx dc')) as [|m0 ms1] eqn:Em.
  - match goal with |- context [pass_loop c f v1 ?rr p'] => set (run1 := rr) end.
    assert (Hidle1 : run_idle run1).
    { intros i dc1 Hn1. unfold run1 in Hn1. cbn [dr_ctxs] in Hn1. unfold set_nth_ctx in Hn1.
      destruct (Z.eq_dec i (dr_progress run)) as [->|Hne].
      - rewrite nth_z_set_same in Hn1 by exact Hrg. injection Hn1 as <-. exact Em.
      - rewrite nth_z_set_other in Hn1 by congruence. eapply Hidle; eauto. }
    apply IH; auto. destruct GS1 as (Gl & _). lia.
  - split; [exact B1|]. intros i dc1 m Hi Hm. cbn [dr_ctxs] in Hi. unfold set_nth_ctx in Hi.
    destruct (Z.eq_dec i (dr_progress run)) as [->|Hne].
    + rewrite nth_z_set_same in Hi by exact Hrg. injection Hi as <-. rewrite Em in Hm. specialize (T1 m Hm). lia.
    + rewrite nth_z_set_other in Hi by congruence. rewrite (Hidle _ _ Hi) in Hm. destruct Hm.
Qed.

(* ---------------------------------------------------------------- EndDefragPass *)

Lemma set_ud_BB w X w' lr bid h tag : BInv w G X -> set_block_user_data w lr bid h tag = Some w' -> BInv w' G X.
Proof.
  intros HB. unfold set_block_user_data. destruct (get_block w lr bid) as [b|] eqn:Hgb; [|discriminate].
  destruct (meta_set_user_data (bk_meta b) h tag) as [mt|]; [|discriminate]. intros E. injection E as <-.
  destruct (get_block_in _ _ _ _ Hgb) as (l & Hg & Hb & Hid).
  apply (BInvD_0 _ _ _ 0). apply (VamBalStep.BD_put_same c Hc Hmax Hlarge G w X 0 0 lr b); [apply BInv_D; exact HB|cbn [bk_id]; rewrite Hid; exact Hgb|reflexivity|reflexivity].
Qed.

(* two block allocations exchange their places: each memory object keeps its number of users when the two objects
   weigh the same *)
Lemma swap_slots_BB w X s t a b a' b' :
  BInv w G X -> slot_is w s a -> slot_is w t b -> s <> t -> a_kind a = 1 -> a_kind b = 1 -> ~ In s X -> ~ In t X ->
  a_allocated a' = true -> a_allocated b' = true -> a_kind a' = 1 -> a_kind b' = 1 ->
  a_mem a' = a_mem b -> a_mem b' = a_mem a -> a_persist a' = a_persist a -> a_persist b' = a_persist b ->
  G s + pcount a = G t + pcount b ->
  BInv (set_alloc (set_alloc w s a') t b') G X.
Proof.
  intros [B D G1 G2] Sa Sb Hst Ka Kb HXs HXt Aa' Ab' Ka' Kb' Ma' Mb' Pa' Pb' Hw.
  pose proof (slot_is_range _ _ _ Sa) as Hs. pose proof (slot_is_range _ _ _ Sb) as Ht.
  assert (Ht1 : 0 <= t < zlen (v_tab (set_alloc w s a'))) by (rewrite zlen_set_alloc; exact Ht).
  assert (Ega : forall x, x <> s -> x <> t -> get_alloc (set_alloc (set_alloc w s a') t b') x = get_alloc w x).
  { intros x H1 H2. rewrite get_alloc_set_other by exact H2. apply get_alloc_set_other. exact H1. }
  assert (Egs : get_alloc (set_alloc (set_alloc w s a') t b') s = a') by (rewrite get_alloc_set_other by exact Hst; apply get_alloc_set_same; exact Hs).
  assert (Egt : get_alloc (set_alloc (set_alloc w s a') t b') t = b') by (apply get_alloc_set_same; exact Ht1).
  constructor.
  - intros lr l bk Hg Hb. rewrite !get_blist_set_alloc in Hg. rewrite (B _ _ _ Hg Hb). symmetry.
    set (w2 := set_alloc (set_alloc w s a') t b'). set (M := bk_mem bk).
    (* change slot s, then slot t *)
    unfold refs_truth. replace (length (v_tab w2)) with (length (v_tab w)) by (unfold w2, set_alloc; cbn; rewrite !set_nth_z_length; reflexivity).
    set (rng := slot_range 0 (length (v_tab w))).
    assert (Hin_s : In s rng) by (apply slot_range_in; unfold zlen in Hs; lia).
    assert (Hin_t : In t rng) by (apply slot_range_in; unfold zlen in Ht; lia).
    pose (f1 := fun x => if x =? s then users w2 G X M s else users w G X M x).
    rewrite (zsum_map_single f1 (users w2 G X M) rng t (slot_range_nd _ _) Hin_t).
    2:{ intros x _ Hne. unfold f1. destruct (x =? s) eqn:E; [apply Z.eqb_eq in E; subst; reflexivity|]. apply Z.eqb_neq in E.
        apply users_same; [apply Ega; auto|reflexivity|tauto]. }
    rewrite (zsum_map_single (users w G X M) f1 rng s (slot_range_nd _ _) Hin_s).
    2:{ intros x _ Hne. unfold f1. apply Z.eqb_neq in Hne. rewrite Hne. reflexivity. }
    unfold f1. rewrite Z.eqb_refl. assert (Ets : (t =? s) = false) by (apply Z.eqb_neq; congruence). rewrite Ets.
    (* the four contributions *)
    assert (Us : users w G X M s = if a_mem a =? M then G s + pcount a else 0).
    { destruct (a_mem a =? M) eqn:E; [apply Z.eqb_eq in E; rewrite (users_live w G X M s); rewrite ?(get_alloc_slot _ _ _ Sa); auto; apply Sa|].
      apply users_other. rewrite (get_alloc_slot _ _ _ Sa). apply Z.eqb_neq. exact E. }
    assert (Ut : users w G X M t = if a_mem b =? M then G t + pcount b else 0).
    { destruct (a_mem b =? M) eqn:E; [apply Z.eqb_eq in E; rewrite (users_live w G X M t); rewrite ?(get_alloc_slot _ _ _ Sb); auto; apply Sb|].
      apply users_other. rewrite (get_alloc_slot _ _ _ Sb). apply Z.eqb_neq. exact E. }
    assert (Us2 : users w2 G X M s = if a_mem b =? M then G s + pcount a else 0).
    { unfold w2. destruct (a_mem b =? M) eqn:E; [apply Z.eqb_eq in E; rewrite (users_live _ G X M s); rewrite ?Egs; auto; [unfold pcount; rewrite Pa'; reflexivity|congruence]|].
      apply users_other. rewrite Egs, Ma'. apply Z.eqb_neq. exact E. }
    assert (Ut2 : users w2 G X M t = if a_mem a =? M then G t + pcount b else 0).
    { unfold w2. destruct (a_mem a =? M) eqn:E; [apply Z.eqb_eq in E; rewrite (users_live _ G X M t); rewrite ?Egt; auto; [unfold pcount; rewrite Pb'; reflexivity|congruence]|].
      apply users_other. rewrite Egt, Mb'. apply Z.eqb_neq. exact E. }
    rewrite Us, Ut, Us2, Ut2. destruct (a_mem a =? M), (a_mem b =? M); lia.
  - intros x ax Sx Kx. destruct (Z.eq_dec x t) as [->|Hnt].
    + apply (proj1 (slot_is_set_alloc_same _ t b' ax Ht1)) in Sx. destruct Sx as (-> & _). lia.
    + apply (proj1 (slot_is_set_alloc_other _ t b' x ax Hnt)) in Sx. destruct (Z.eq_dec x s) as [->|Hns].
      * apply (proj1 (slot_is_set_alloc_same w s a' ax Hs)) in Sx. destruct Sx as (-> & _). lia.
      * apply (proj1 (slot_is_set_alloc_other w s a' x ax Hns)) in Sx. auto.
  - exact G1.
  - intros x Hd. destruct (Z.eq_dec x t) as [->|Hnt]; [rewrite Egt in Hd; congruence|]. destruct (Z.eq_dec x s) as [->|Hns]; [rewrite Egs in Hd; congruence|].
    rewrite Ega in Hd by auto. auto.
Qed.

Lemma swap_BB v X s t a b :
  BInv v G X -> slot_is v s a -> slot_is v t b -> s <> t -> a_kind a = 1 -> a_kind b = 1 -> ~ In s X -> ~ In t X ->
  G s + pcount a = G t + pcount b ->
  BInv (fst (swap_block_allocation v s t)) G X.
Proof.
  intros HB Sa Sb Hst Ka Kb HXs HXt Hw. unfold swap_block_allocation. rewrite (get_alloc_slot _ _ _ Sa), (get_alloc_slot _ _ _ Sb).
  destruct (_ || _); [exact HB|].
  destruct (set_block_user_data v (a_lref a) (a_blk a) (a_handle a) t) as [v1|] eqn:E1; [|exact HB].
  pose proof (set_ud_BB v X _ _ _ _ _ HB E1) as B1. destruct (set_ud_m_tab c Hc Hmax Hlarge _ _ _ _ _ _ E1) as (_ & T1).
  assert (Sa1 : slot_is v1 s a) by (unfold slot_is; rewrite T1; exact Sa).
  assert (Sb1 : slot_is v1 t b) by (unfold slot_is; rewrite T1; exact Sb).
  match goal with |- context [set_alloc (set_alloc v1 s ?x) t ?y] => set (a' := x); set (b' := y) end.
  assert (B2 : BInv (set_alloc (set_alloc v1 s a') t b') G X).
  { apply (swap_slots_BB v1 X s t a b a' b' B1 Sa1 Sb1 Hst Ka Kb HXs HXt); unfold a', b'; cbn; auto; [apply Sa|apply Sb]. }
  match goal with |- context [set_block_user_data ?w ?a1 ?a2 ?a3 s] => destruct (set_block_user_data w a1 a2 a3 s) as [v3|] eqn:E3 end; cbn [fst]; [|exact B2].
  exact (set_ud_BB _ X _ _ _ _ _ B2 E3).
Qed.

(* Allocation.free as the handler uses it *)
Lemma free_or_panic_BB v s :
  VamBalStep.VamInvB c ms0 G v [] [] -> G s = 0 ->
  let '(v', r) := free_or_panic c v s in match r with OK _ => BInv v' G [] | _ => True end.
Proof.
  intros HI HG0. unfold free_or_panic. destruct (a_allocated (get_alloc v s)) eqn:Ea; cbn [negb]; [|exact I].
  destruct (a_kind (get_alloc v s) =? 1) eqn:Ek; cbn [negb]; [|exact I]. apply Z.eqb_eq in Ek.
  pose proof (VamBalStep.free_block_slot_inv c Hc Hmax Hlarge ms0 G v [] [] s (get_alloc v s) false HI (get_alloc_allocated _ _ Ea) (fun H => H) Ek HG0) as P.
  destruct (bl_free c v (a_lref (get_alloc v s)) s false) as (v1 & r). destruct r as [[]|code| |]; auto.
  destruct P as ((A & _) & _). exact (VamBalStep.vb_b _ _ _ _ _ _ A).
Qed.


Notation VamInvB := (VamBalStep.VamInvB c ms0 G).
Notation VamInvA := (VamAcctStep.VamInvA c).

Lemma mkB v : VamInvA v [] [] -> MM ms0 v [] -> BInv v G [] -> VamInvB v [] [].
Proof using. intros A M B. split; [split; [exact A|exact M]|exact B]. Qed.

Lemma vb_a v : VamInvB v [] [] -> VamInvA v [] [].
Proof using. intros [[A _] _]. exact A. Qed.
Lemma vb_mmx v : VamInvB v [] [] -> MM ms0 v [].
Proof using. intros [[_ M] _]. exact M. Qed.
Lemma vb_bx v : VamInvB v [] [] -> BInv v G [].
Proof using. intros [_ B]. exact B. Qed.

Lemma free_or_panic_invB v s :
  VamInvB v [] [] -> G s = 0 ->
  let '(v', r) := free_or_panic c v s in
  match r with OK _ => VamInvB v' [] [] /\ tab_frame v v' [s] | ER _ => False | _ => True end.
Proof.
  intros HI HG0. pose proof (VamDefragAcct.free_or_panic_inv c Hc Hmax Hlarge v s (vb_a _ HI)) as PA.
  pose proof (VamDefragMap.free_or_panic_MM c Hc Hmax Hlarge ms0 v s (va_s _ _ _ _ (vb_a _ HI)) (vb_mmx _ HI)) as PM.
  pose proof (free_or_panic_BB v s HI HG0) as PB.
  destruct (free_or_panic c v s) as (v' & r). destruct r as [[]|code| |]; auto.
  destruct PA as ((A & T & _) & _). split; [apply mkB; auto|exact T].
Qed.

Lemma swap_invB v s t a b lr :
  VamInvB v [] [] -> s <> t -> slot_is v s a -> slot_is v t b ->
  a_kind a = 1 -> a_kind b = 1 -> a_lref a = lr -> a_lref b = lr -> a_size a = a_size b -> a_align a = a_align b ->
  G s + pcount a = G t + pcount b ->
  let '(v', r) := swap_block_allocation v s t in
  r = OK tt /\ VamInvB v' [] [] /\ tab_frame v v' [s; t].
Proof.
  intros HI Hst Sa Sb Ka Kb La Lb Esz Eal Hw.
  pose proof (VamDefragAcct.swap_inv c Hc Hmax Hlarge v s t a b lr (vb_a _ HI) Hst Sa Sb Ka Kb La Lb Esz Eal) as PA.
  pose proof (VamDefragMap.swap_MM c Hc Hmax Hlarge ms0 v [] s t a b (vb_mmx _ HI) Sa Sb Hst Ka Kb) as PM.
  pose proof (swap_BB v [] s t a b (vb_bx _ HI) Sa Sb Hst Ka Kb (fun H => H) (fun H => H) Hw) as PB.
  destruct (swap_block_allocation v s t) as (v' & r). cbn [fst] in PM, PB.
  destruct PA as (-> & A & T & _). split; [reflexivity|]. split; [apply mkB; auto|exact T].
Qed.

Lemma complete_move_BB v lr mv d :
  VamInvB v [] [] -> mv_ok v lr mv -> src_of mv <> tmp_of mv -> G (src_of mv) = 0 -> G (tmp_of mv) = 0 ->
  let '(v', r) := complete_move c v mv d in
  match r with OK _ => VamInvB v' [] [] | _ => True end.
Proof.
  intros HI (a & b & Sa & Sb & Ka & Kb & La & Lb & Esz & Eal & _ & _ & _ & _ & _ & _ & Hp) Hne Gs Gt. unfold complete_move.
  fold (src_of mv). fold (tmp_of mv).
  assert (Hfin : forall v1, VamInvB v1 [] [] ->
            let '(v', r) := free_or_panic c v1 (tmp_of mv) in match r with OK _ => VamInvB v' [] [] | _ => True end).
  { intros v1 I1. pose proof (free_or_panic_invB v1 (tmp_of mv) I1 Gt) as P.
    destruct (free_or_panic c v1 (tmp_of mv)) as (v' & r). destruct r as [[]|code| |]; auto. apply P. }
  destruct (d =? 0).
  - pose proof (swap_invB v (src_of mv) (tmp_of mv) a b lr HI Hne Sa Sb Ka Kb La Lb Esz Eal ltac:(unfold pcount; rewrite Hp, Gs, Gt; reflexivity)) as P.
    destruct (swap_block_allocation v (src_of mv) (tmp_of mv)) as (v1 & r1).
    destruct P as (-> & I1 & _). apply Hfin. exact I1.
  - destruct (d =? 2).
    + pose proof (free_or_panic_invB v (src_of mv) HI Gs) as P.
      destruct (free_or_panic c v (src_of mv)) as (v1 & r1). destruct r1 as [[]|code| |]; auto.
      destruct P as (I1 & _). apply Hfin. exact I1.
    + apply Hfin. exact HI.
Qed.

Lemma complete_moves_BB mvs : forall v lr p imm ds,
  VamInvB v [] [] -> moves_ok v lr mvs -> (forall s, In s (mv_slots mvs) -> G s = 0) ->
  let '(v', p', imm', r) := complete_moves c v lr p imm mvs ds in match r with OK _ => VamInvB v' [] [] | _ => True end.
Proof.
  induction mvs as [|mv rest IH]; intros v lr p imm ds HI (Hnd & Hf) HG0; cbn [complete_moves]; [exact HI|].
  destruct (list_alloc_stats v lr) as (pc & pb).
  inversion Hf as [|? ? Hmv Hrest]; subst.
  destruct (mv_slots_cons _ _ Hnd) as (Hne & Hs & Ht & Hnd').
  assert (Gs : G (src_of mv) = 0) by (apply HG0; unfold mv_slots; cbn [map app]; left; reflexivity).
  assert (Gt : G (tmp_of mv) = 0) by (apply HG0; unfold mv_slots; cbn [map app]; right; apply in_app_iff; right; left; reflexivity).
  pose proof (VamDefragAcct.complete_move_inv c Hc Hmax Hlarge v lr mv (norm_decision (hd 0 ds)) (vb_a _ HI) Hmv Hne) as PA.
  pose proof (complete_move_BB v lr mv (norm_decision (hd 0 ds)) HI Hmv Hne Gs Gt) as PB.
  destruct (complete_move c v mv (norm_decision (hd 0 ds))) as (v1 & r). destruct r as [[]|code| |]; auto.
  destruct (list_alloc_stats v1 lr) as (ac & ab).
  assert (Hok1 : moves_ok v1 lr rest).
  { apply (moves_ok_frame v v1 lr [src_of mv; tmp_of mv] rest); [apply PA| |split; auto].
    intros s [<-|[<-|[]]]; auto. }
  apply IH; [exact PB|exact Hok1|].
  intros s Hin. apply HG0. unfold mv_slots in *. cbn [map app]. apply in_app_iff in Hin. right. apply in_app_iff. destruct Hin; [left|right; right]; auto.
Qed.

Lemma defrag_end_BB v run ds :
  VamInvB v [] [] -> run_ok v run ->
  (forall i dc m, nth_z (dr_ctxs run) i = Some dc -> In m (Defrag.c_moves (dc_ctx dc)) -> G (src_of m) = 0 /\ G (tmp_of m) = 0) ->
  let '(v', run', r) := defrag_end c v run ds in match r with OK _ => BInv v' G [] | _ => True end.
Proof.
  intros HI (Hb & Ha & Hr) HG0. unfold defrag_end.
  destruct (nth_z (dr_ctxs run) (dr_progress run)) as [dc|] eqn:En; [|exact (vb_bx _ HI)].
  destruct (Defrag.c_moves (dc_ctx dc)) as [|m0 ms1] eqn:Em; [exact (vb_bx _ HI)|].
  destruct (Hr _ _ En) as (Hok & _). specialize (Hok eq_refl). rewrite Em in Hok.
  unfold complete_pass. rewrite Em.
  assert (HG1 : forall s, In s (mv_slots (m0 :: ms1)) -> G s = 0).
  { intros s Hin. unfold mv_slots in Hin. apply in_app_iff in Hin. destruct Hin as [Hin|Hin]; apply in_map_iff in Hin; destruct Hin as (m & <- & Hm);
      (destruct (HG0 _ _ m En ltac:(rewrite Em; exact Hm)); auto). }
  pose proof (complete_moves_BB (m0 :: ms1) v (dc_lr dc) (dr_pass run) [] ds HI Hok HG1) as P.
  destruct (complete_moves c v (dc_lr dc) (dr_pass run) [] (m0 :: ms1) ds) as (((v1 & p1) & imm) & r).
  destruct r as [[]|code| |]; auto.
  destruct (get_blist v1 (dc_lr dc)) as [l|] eqn:Hg; [|exact I].
  pose proof (swap_immovable_fold imm (bl_blocks l) (Defrag.c_immovable (dc_ctx dc))) as Pm.
  destruct (fold_left _ imm (bl_blocks l, Defrag.c_immovable (dc_ctx dc))) as (bs & immc). cbn [fst] in Pm.
  apply (BInv_lists v1 G []); [exact (vb_bx _ P)|apply set_blist_tab|apply blocks_sub_R; apply blocks_sub_perm; [exact Hg|apply Permutation_sym; exact Pm]].
Qed.

(* ---------------------------------------------------------------- BeginDefragmentation, Finish *)

Lemma prepare_lists_BB lrs : forall v, BInv v G [] -> BInv (fold_left prepare_list lrs v) G [].
Proof using.
  induction lrs as [|lr tl IH]; intros v HB; cbn [fold_left]; [exact HB|]. apply IH. unfold prepare_list.
  destruct (get_blist v lr) as [l|] eqn:Hg; [|exact HB].
  apply (BInv_lists v G []); [exact HB|apply set_blist_tab|]. apply blocks_sub_R.
  apply (blocks_sub_set_blist v lr l _ Hg). cbn. intros b' Hb'. exists b'. split; [|auto].
  eapply Permutation_in; [apply Permutation_sym; apply sort_by_free_size_perm|exact Hb'].
Qed.

Lemma defrag_begin_BB v flags pool mb ma : BInv v G [] -> BInv (fst (defrag_begin c v flags pool mb ma)) G [].
Proof using.
  intros HB. unfold defrag_begin. destruct (_ || _); [exact HB|]. destruct (_ =? 3); [exact HB|].
  destruct (match pool with Some uid => list_is_linear v (LPool uid) | None => false end); [exact HB|].
  destruct (negb _); cbn [fst]; apply prepare_lists_BB; exact HB.
Qed.

Lemma defrag_finish_BB v run : BInv v G [] -> BInv (fst (defrag_finish v run)) G [].
Proof using.
  unfold defrag_finish. cbn [fst]. revert v. induction (dr_ctxs run) as [|dc tl IH]; intros v HB; cbn [fold_left]; [exact HB|].
  apply IH. destruct (get_blist v (dc_lr dc)) as [l|] eqn:Hg; [|exact HB].
  apply (BInv_lists v G []); [exact HB|apply set_blist_tab|]. apply blocks_sub_R.
  apply (blocks_sub_set_blist v (dc_lr dc) l _ Hg). cbn. intros b' Hb'. exists b'. auto.
Qed.

(* ---------------------------------------------------------------- one defragmentation call *)

(* the pending moves of a run have no outstanding user maps (sources: the caller's obligation; temporaries: invariant) *)
Definition pending_unmapped (run : option dfrun) : Prop :=
  match run with
  | Some rn => forall i dc m, nth_z (dr_ctxs rn) i = Some dc -> In m (Defrag.c_moves (dc_ctx dc)) -> G (src_of m) = 0 /\ G (tmp_of m) = 0
  | None => True
  end.

Definition tmps_unmapped (run : option dfrun) : Prop :=
  match run with
  | Some rn => forall i dc m, nth_z (dr_ctxs rn) i = Some dc -> In m (Defrag.c_moves (dc_ctx dc)) -> G (tmp_of m) = 0
  | None => True
  end.

Lemma idle_tmps_unmapped run : drun_idle run -> tmps_unmapped run.
Proof using. destruct run as [rn|]; [|exact (fun _ => I)]. intros Hi i dc m Hn Hm. rewrite (Hi _ _ Hn) in Hm. destruct Hm. Qed.

Lemma dexec_BB v run o :
  VamInvB v [] [] -> VamGran.GV c v -> drun_ok v run -> dop_ok v run o -> tmps_unmapped run ->
  (match o with DEnd _ => pending_unmapped run | _ => True end) ->
  let '(v', run', r, dr) := dexec c v run o in
  match r with OK _ | ER _ => BInv v' G [] /\ tmps_unmapped run' | _ => True end.
Proof.
  intros HI HV Hr Hok Htm Hbal. pose proof (va_s _ _ _ _ (vb_a _ HI)) as HU. destruct o as [flags pool mb ma| |ds|]; cbn [dexec].
  - pose proof (defrag_begin_BB v flags pool mb ma (vb_bx _ HI)) as P.
    pose proof (defrag_begin_idle c v flags pool mb ma) as Pi.
    destruct (defrag_begin c v flags pool mb ma) as (v1 & r). cbn [fst] in P.
    destruct r as [rn|code| |]; auto. split; [exact P|]. apply idle_tmps_unmapped. exact (Pi v1 rn eq_refl).
  - destruct run as [rn|]; [|exact I]. pose proof Hok as Hidle. pose proof HV as HG. destruct Hr as (Hb & Ha & Hr).
    pose proof (pass_loop_BB (S (length (dr_ctxs rn))) v rn (Pass.pass_init (dr_max_bytes rn) (dr_max_allocs rn)) (zlen (v_tab v)) HU (vb_mmx _ HI) (vb_bx _ HI)
                  Hidle Hb Ha (PassProofs.pass_init_running _ _ Hb Ha) HG ltac:(lia)) as P.
    pose proof (defrag_pass_inv c v rn HU (conj Hb (conj Ha Hr)) Hidle HG) as PS.
    unfold defrag_pass in *. destruct (pass_loop c _ v rn _) as ((v1 & rn') & r). destruct r as [mvs|code| |]; auto; [|contradiction].
    destruct P as (B1 & T1). split; [exact B1|]. intros i dc m Hn Hm. specialize (T1 i dc m Hn Hm).
    apply (bb_G0 _ _ _ (vb_bx _ HI)). unfold get_alloc. destruct (nth_z (v_tab v) (tmp_of m)) eqn:E; [apply nth_z_some_range in E; lia|reflexivity].
  - destruct run as [rn|]; [|exact I].
    pose proof (defrag_end_BB v rn ds HI Hr Hbal) as P. pose proof (VamDefragStep.defrag_end_inv c v rn ds HU Hr) as PS.
    destruct (defrag_end c v rn ds) as ((v1 & rn') & r). destruct r as [b|code| |]; auto; [|contradiction].
    destruct PS as (_ & _ & _ & _ & Hidle'). split; [exact P|]. apply (idle_tmps_unmapped (Some rn')). exact Hidle'.
  - destruct run as [rn|]; [|exact I].
    pose proof (defrag_finish_BB v rn (vb_bx _ HI)) as P. destruct (defrag_finish v rn) as (v1 & st). split; [exact P|exact Htm].
Qed.

End WithCfg.

(* ---------------------------------------------------------------- histories with defragmentation *)

Section Thm.
Variable c : vcfg.
Hypothesis Ha : cfg_acct c.
Let Hc := ca_ok c Ha.
Let Hmax := ca_max c Ha.
Let Hlarge := ca_large c Ha.

(* the caller's obligation at EndDefragPass: no source of a pending move has an outstanding user map *)
Definition dop_bal (G : Z -> Z) (run : option dfrun) (o : dop) : Prop :=
  match o, run with
  | DEnd _, Some rn => forall i dc m, nth_z (dr_ctxs rn) i = Some dc -> In m (Defrag.c_moves (dc_ctx dc)) -> G (src_of m) = 0
  | _, _ => True
  end.

Theorem dstep_preservesB G v run o f :
  VamAcctStep.VamInvA c v [] [] -> MapInv v [] -> BInv v G [] -> VamGran.GV c v -> drun_ok v run -> dop_ok v run o -> tmps_unmapped G run -> dop_bal G run o ->
  let '(v', run', r, calls, dr) := dstep c v run o f in
  r <> RPanic -> r <> RStuck -> BInv v' G [] /\ tmps_unmapped G run'.
Proof.
  intros HI HM HB HV Hr Hok Htm Hbal. unfold dstep.
  set (ms0 := m_mems (v_m v)).
  set (v0 := set_m v (clear_calls (set_fault (v_m v) f 0))).
  assert (Hms : forall m ff n, mach_sameA c m (clear_calls (set_fault m ff n))).
  { intros m ff n. eapply (mach_sameA_trans c Hc Hmax Hlarge); [apply (mach_sameA_set_fault c Hc Hmax Hlarge)|apply (mach_sameA_clear c Hc Hmax Hlarge)]. }
  assert (I0 : VamBalStep.VamInvB c ms0 G v0 [] []).
  { split; [|apply BInv_mach; exact HB]. split; [apply (VamAcctStep.VamInvA_mach_same c Hc Hmax Hlarge); [exact HI|apply Hms]|].
    split; [apply (MapInv_sub v []); [exact HM|reflexivity|apply blocks_sub_eq; intros; apply get_blist_set_m|apply deds_sub_nil; apply tab_frame_set_m]|].
    unfold LogOk, v0, ms0. cbn. constructor. }
  assert (Hr0 : drun_ok v0 run) by (destruct run as [rn|]; [apply run_ok_set_m; exact Hr|exact I]).
  assert (Hok0 : dop_ok v0 run o) by (destruct o; cbn in *; auto).
  assert (Hbal0 : match o with DEnd _ => pending_unmapped G run | _ => True end).
  { destruct o; auto. destruct run as [rn|]; [|exact I]. intros i dc m Hn Hm. split; [eapply Hbal; eauto|eapply Htm; eauto]. }
  pose proof (dexec_BB c Hc Hmax Hlarge ms0 G v0 run o I0 (VamGran.GR_set_m c v _ HV) Hr0 Hok0 Htm Hbal0) as E.
  destruct (dexec c v0 run o) as (((v1 & run1) & r) & dr).
  intros Hp Hs. destruct r as [[]|code| |]; cbn in Hp, Hs; try congruence; destruct E as (B & T); (split; [apply BInv_mach; exact B|exact T]).
Qed.

(* histories with defragmentation in the domain, with the ghost state *)
Inductive reachDB : vam -> option dfrun -> (Z -> Z) -> Prop :=
| reachDB_new nslots v : vam_new c nslots = OK v -> Z.of_nat nslots <= 4194304 -> reachDB v None (fun _ => 0)
| reachDB_step v run G o f v' r calls :
    reachDB v run G -> op_avoids run o -> op_ok v o -> op_dom o -> op_bal G o -> step c v o f = (v', r, calls) -> r <> RPanic -> r <> RStuck ->
    reachDB v' run (gstep G o r)
| reachDB_dstep v run G o f v' run' r calls dr :
    reachDB v run G -> dop_ok v run o -> dop_bal G run o -> dstep c v run o f = (v', run', r, calls, dr) -> r <> RPanic -> r <> RStuck ->
    zlen (v_tab v') <= 4194304 -> reachDB v' run' G.

Lemma reachDB_reachDA v run G : reachDB v run G -> reachDA c v run.
Proof.
  intros R. induction R as [nslots v E Hn|v run G o f v' r calls R IH Hidle Hok Hd Hbal Hs Hp Hk|v run G o f v' run' r calls dr R IH Hok Hbal Hs Hp Hk Hb];
    [eapply reachDA_new; eauto|eapply reachDA_step; eauto|eapply reachDA_dstep; eauto].
Qed.

(* C14: the balance holds in every state of a history with defragmentation *)
Theorem reachDB_inv v run G : reachDB v run G -> BInv v G [] /\ tmps_unmapped G run.
Proof.
  intros R. induction R as [nslots v E Hn|v run G o f v' r calls R IH Hidle Hok Hd Hbal Hs Hp Hk|v run G o f v' run' r calls dr R IH Hok Hbal Hs Hp Hk Hb].
  - split; [eapply (vam_new_BInv c); eauto|exact I].
  - pose proof (reachDB_reachDA _ _ _ R) as RA. destruct (reachDA_inv c Ha v run RA) as (HI & _).
    pose proof (step_preservesB c Ha G v o f HI (reachDA_map c Ha v run RA) (proj1 IH) Hok Hd Hbal) as P. rewrite Hs in P.
    split; [apply P; auto|]. destruct IH as (_ & Htm). destruct run as [rn|]; [|exact I]. intros i dc m Hn Hm.
    assert (Hpend : In (tmp_of m) (pending_slots (Some rn))).
    { eapply in_pending; [exact Hn|]. unfold mv_slots. apply in_app_iff. right. apply in_map. exact Hm. }
    assert (Eg : gstep G o r (tmp_of m) = G (tmp_of m)).
    { unfold gstep. destruct o; try reflexivity; destruct r; try reflexivity; apply upd_other; intros E; apply (Hidle (tmp_of m)); cbn; auto. }
    rewrite Eg. eapply Htm; eauto.
  - pose proof (reachDB_reachDA _ _ _ R) as RA. destruct (reachDA_inv c Ha v run RA) as (HI & Hr).
    pose proof (dstep_preservesB G v run o f HI (reachDA_map c Ha v run RA) (proj1 IH) (reachD_gv c Hc v run (reachDA_reachD c Ha v run RA)) Hr Hok (proj2 IH) Hbal) as P. rewrite Hs in P. apply P; auto.
Qed.

Theorem reachDB_bal v run G : reachDB v run G -> BInv v G [].
Proof. intros R. apply (reachDB_inv v run G R). Qed.

Theorem block_refs_balance_defrag v run G lr l b :
  reachDB v run G -> get_blist v lr = Some l -> In b (bl_blocks l) -> SyncMem.mapRefs (bk_sm b) = refs_truth v G [] (bk_mem b).
Proof. intros R. apply (bb_blocks _ _ _ (reachDB_bal v run G R)). Qed.

Theorem dedicated_refs_balance_defrag v run G s a :
  reachDB v run G -> slot_is v s a -> a_kind a = 2 -> SyncMem.mapRefs (a_sm a) = G s + (if a_persist a then 1 else 0).
Proof. intros R. apply (bb_ded _ _ _ (reachDB_bal v run G R)). Qed.

(* after moves too: the memory of an Allocation with an outstanding Map or a persistent mapping is mapped on the device *)
Theorem mapped_while_in_use_defrag v run G s a :
  reachDB v run G -> slot_is v s a -> (1 <= G s \/ a_persist a = true) ->
  exists d, find_mem (m_mems (v_m v)) (a_mem a) = Some d /\ dm_mapped d = true.
Proof.
  intros R Sa Huse. pose proof (reachDB_reachDA _ _ _ R) as RA. pose proof (reachDB_bal _ _ _ R) as HB.
  pose proof (VamAcctStep.va_s _ _ _ _ (proj1 (reachDA_inv c Ha v run RA))) as HU. pose proof (reachDA_map c Ha v run RA) as HM.
  assert (Hpos : 1 <= G s + pcount a) by (pose proof (bb_G _ _ _ HB s) as Hnn; unfold pcount; destruct Huse as [Hu|Hu]; [destruct (a_persist a); lia|rewrite Hu; lia]).
  destruct (vi_slots _ _ _ _ HU s a Sa (fun H => H)) as [(K & l & b & rg & Hg & Hb & Hid & _ & _ & _ & _ & _ & Hmem & _)|(K & _ & _ & _)].
  - destruct (block_mapping_agrees_defrag c Ha v run _ l b RA Hg Hb) as (d & F & Em & Hiff).
    exists d. rewrite Hmem. split; [exact F|]. rewrite Em. apply Hiff. left.
    rewrite (bb_blocks _ _ _ HB _ _ _ Hg Hb).
    pose proof (refs_truth_ge v G [] (bk_mem b) s (bb_G _ _ _ HB) (slot_is_range _ _ _ Sa)) as Hge.
    rewrite (users_live v G [] (bk_mem b) s) in Hge; try (rewrite (get_alloc_slot _ _ _ Sa); auto); [|apply Sa|intros []].
    rewrite (get_alloc_slot _ _ _ Sa) in Hge. lia.
  - destruct (mi_ded _ _ HM s a Sa (fun H => H) K) as (d & F & (H0 & H1 & _) & Fr). destruct (H1 Fr) as (_ & E & Hiff).
    exists d. split; [exact F|]. cbn in E. rewrite E. apply Hiff. left. rewrite (bb_ded _ _ _ HB s a Sa K). lia.
Qed.

End Thm.
