(* VamMapStep.v — fourth pass over the block-list layer: structural + accounting invariant (VamInvA, VamAcctStep.v)
   together with the mapping invariant and the call log (MM, VamMap.v).  The functions that touch a memory
   object or its mapping (CreateBlock, block Destroy, commitAllocationRequest, freeWithLock) get their mapping
   half here; the composite functions are re-traversed with the combined invariant VamInvM (the proof scripts
   follow VamAcctStep.v). *)
From Coq Require Import ZArith List Bool Lia Permutation.
From Arsenal Require Import Util Budget BudgetProofs VamDev VamBlockList Vam VamInvMeta VamInv VamInvUpd VamInvDev.
From Arsenal Require Import VamInvStep VamInvStep2 VamAcct VamAcctStep VamMap.
From Arsenal Require SyncMem SyncMemProofs.
Import ListNotations.
Open Scope Z_scope.

Section WithCfg.
Variable c : vcfg.
Hypothesis Hc : cfg_ok c.
Hypothesis Hmax : 0 <= c_maxcount c < 2147483647.
Hypothesis Hlarge : 0 <= c_large c < 2 ^ 61.
(* the device memory objects when the running API call began *)
Variable ms0 : list dmem.
Set Default Proof Using "Hc Hmax Hlarge".

Notation VamInvA := (VamAcctStep.VamInvA c).

(* all three invariants *)
Record VamInvM (v : vam) (U X : list Z) : Prop := mkVamInvM {
  vm_a : VamInvA v U X;
  vm_m : MM ms0 v X
}.

Lemma vm_s v U X : VamInvM v U X -> VamInvU c v U X.
Proof. intros [A _]. apply (va_s _ _ _ _ A). Qed.
Lemma vm_aa v U X : VamInvM v U X -> AInv c v X.
Proof. intros [A _]. apply (va_a _ _ _ _ A). Qed.

(* machine changes that concern neither the accounting nor the memory objects *)
Definition mach_sameX (m m' : mach) : Prop := mach_sameA c m m' /\ mach_sameM m m'.

Lemma mach_sameX_refl m : mach_sameX m m.
Proof. split; [apply (mach_sameA_refl c Hc Hmax Hlarge)|apply mach_sameM_refl]. Qed.

Lemma mach_sameX_trans a b d : mach_sameX a b -> mach_sameX b d -> mach_sameX a d.
Proof. intros (A1 & A2) (B1 & B2). split; [eapply (mach_sameA_trans c Hc Hmax Hlarge); eauto|eapply mach_sameM_trans; eauto]. Qed.

Lemma heap_budget_sameX m h : mach_sameX m (fst (fst (heap_budget c m h))).
Proof. split; [apply (heap_budget_sameA c Hc Hmax Hlarge)|apply heap_budget_sameM]. Qed.

Lemma VamInvM_mach_same v U X m' : VamInvM v U X -> mach_sameX (v_m v) m' -> VamInvM (set_m v m') U X.
Proof.
  intros [A M] (H1 & H2). split; [apply (VamAcctStep.VamInvA_mach_same c Hc Hmax Hlarge); auto|apply MM_mach; auto].
Qed.

(* list-only changes *)
Lemma put_block_same_inv v U X lr l b nb :
  VamInvM v U X -> get_blist v lr = Some l -> In b (bl_blocks l) -> block_same b nb -> MInv (bk_meta nb) -> bk_sm nb = bk_sm b ->
  VamInvM (put_block v lr nb) U X /\ tab_frame v (put_block v lr nb) [] /\ lists_frame v (put_block v lr nb).
Proof.
  intros [A M] Hg Hb Hs Hm Esm.
  destruct (VamAcctStep.put_block_same_inv c Hc Hmax Hlarge v U X lr l b nb A Hg Hb Hs Hm) as (I1 & T1 & L1).
  split; [|split; auto]. split; [exact I1|]. apply (MM_lists ms0 v X); [exact M|apply put_block_m|exact T1|].
  rewrite (put_block_eq _ _ _ _ Hg). apply (blocks_sub_set_blist v lr l _ Hg). cbn. intros b' Hb'.
  pose proof (bw_nodup _ _ (vi_lists _ _ _ _ (va_s _ _ _ _ A) _ _ Hg)) as Hnd.
  destruct (in_replace_block _ _ _ Hnd Hb') as [(-> & _)|(Hin & _)]; [|exists b'; auto].
  exists b. destruct Hs as (_ & Em & _). auto.
Qed.

Lemma permute_inv v U X lr l bs :
  VamInvM v U X -> get_blist v lr = Some l -> Permutation (bl_blocks l) bs ->
  VamInvM (set_blist v lr (set_blocks l bs)) U X /\ tab_frame v (set_blist v lr (set_blocks l bs)) [] /\
  lists_frame v (set_blist v lr (set_blocks l bs)).
Proof.
  intros [A M] Hg P. destruct (VamAcctStep.permute_inv c Hc Hmax Hlarge v U X lr l bs A Hg P) as (I1 & T1 & L1).
  split; [|split; auto]. split; [exact I1|]. apply (MM_lists ms0 v X); [exact M|apply set_blist_m|exact T1|apply blocks_sub_perm; auto].
Qed.

Lemma sort_list_inv v U X lr :
  VamInvM v U X ->
  VamInvM (sort_list v lr) U X /\ tab_frame v (sort_list v lr) [] /\ lists_frame v (sort_list v lr).
Proof.
  intros [A M]. destruct (VamAcctStep.sort_list_inv c Hc Hmax Hlarge v U X lr A) as (I1 & T1 & L1).
  split; [|split; auto]. split; [exact I1|]. apply (MM_lists ms0 v X); [exact M|apply (VamAcctStep.sort_list_m c Hc Hmax Hlarge)|exact T1|].
  unfold sort_list. destruct (get_blist v lr) as [l|] eqn:Hg; [|apply blocks_sub_refl].
  apply (blocks_sub_set_blist v lr l _ Hg). intros b' Hb'. exists b'. split; [|auto].
  unfold incrementally_sort in Hb'. destruct (_ || _); [exact Hb'|]. cbn in Hb'.
  eapply Permutation_in; [apply Permutation_sym; apply bubble_once_perm|exact Hb'].
Qed.

(* ---------------------------------------------------------------- CreateBlock *)

Lemma find_mem_fresh v U X id : VamInvU c v U X -> m_next (v_m v) < id -> find_mem (m_mems (v_m v)) id = None.
Proof.
  intros HI Hid. destruct (find_mem (m_mems (v_m v)) id) as [d|] eqn:E; [|reflexivity]. exfalso.
  destruct (find_mem_in _ _ _ E) as (Hin & Ed). pose proof (vi_dev_next _ _ _ _ HI) as F. rewrite Forall_forall in F. specialize (F d Hin). lia.
Qed.

Lemma create_block_MM v U X lr size :
  MM ms0 v X -> VamInvU c v U X ->
  let '(v', r) := create_block c v lr size in MM ms0 v' X.
Proof.
  intros ([B D] & L) HI. unfold create_block. destruct (get_blist v lr) as [l|] eqn:Hg; [|split; [constructor; auto|exact L]].
  pose proof (alloc_vk_M c ms0 (v_m v) (bl_type l) size 0 L) as K.
  pose proof (alloc_vk_spec c (v_m v) (bl_type l) size 0 (vi_dev_pos _ _ _ _ HI)) as SP.
  destruct (alloc_vk c (v_m v) (bl_type l) size 0) as (m1 & r). destruct K as (L1 & Em).
  assert (Hsame : m_mems m1 = m_mems (v_m v) -> MM ms0 (set_m v m1) X).
  { intros E. split; [|exact L1]. apply (MapInv_sub v X); [constructor; auto|exact E|apply blocks_sub_eq; intros; apply get_blist_set_m|].
    apply deds_sub_nil. apply tab_frame_set_m. }
  destruct r as [mem|code| |]; try (apply Hsame; exact Em).
  - destruct SP as (Eid & _).
    set (d := mkDmem mem (bl_type l) size false) in *.
    assert (Hfresh : find_mem (m_mems (v_m v)) mem = None) by (apply (find_mem_fresh v U X); [exact HI|lia]).
    assert (Hnew : sm_ok (m_mems m1) mem SyncMem.sm_init).
    { exists d. rewrite Em, find_mem_app, Hfresh. cbn [dm_id d]. rewrite Z.eqb_refl. split; [reflexivity|]. split; [exact SyncMemProofs.inv_init|reflexivity]. }
    split; [|rewrite set_blist_m; exact L1]. constructor.
    + intros lr0 l0 b0 G0 B0. rewrite set_blist_m. cbn [v_m set_m].
      rewrite set_blist_set_m, get_blist_set_m in G0.
      destruct (get_set_blist_cases v lr l _ lr0 l0 Hg G0) as [(-> & ->)|(Hne & G)].
      * cbn [bl_blocks set_blocks_next] in B0. apply in_app_iff in B0. destruct B0 as [B0|[<-|[]]]; [rewrite Em; apply sm_ok_app; eauto|exact Hnew].
      * rewrite Em. apply sm_ok_app. eauto.
    + intros s a Sa HX Ka. rewrite set_blist_m. cbn [v_m set_m]. rewrite Em. apply sm_ok_app. apply (D s a); auto.
      rewrite set_blist_set_m in Sa. apply (proj1 (slot_is_set_m _ _ _ _)) in Sa. apply (proj1 (slot_is_set_blist _ _ _ _ _)) in Sa. exact Sa.
Qed.

Lemma mkM v v' U X U' X' :
  VamInvM v U X -> VamInvA v' U' X' -> MM ms0 v' X' -> VamInvM v' U' X'.
Proof. intros _ A M. split; auto. Qed.

Lemma create_block_inv v U X lr l size :
  VamInvM v U X -> get_blist v lr = Some l -> 0 <= size < 2 ^ 62 ->
  let '(v', r) := create_block c v lr size in
  VamInvM v' U X /\ tab_frame v v' [] /\ lists_frame v v'.
Proof.
  intros HI Hg Hsz. pose proof (VamAcctStep.create_block_inv c Hc Hmax Hlarge v U X lr l size (vm_a _ _ _ HI) Hg Hsz) as P.
  pose proof (create_block_MM v U X lr size (vm_m _ _ _ HI) (vm_s _ _ _ HI)) as Q.
  destruct (create_block c v lr size) as (v' & r). destruct P as (I1 & T1 & L1).
  split; [|auto]. split; [exact I1|exact Q].
Qed.

(* ---------------------------------------------------------------- elementary steps *)

Lemma sm_post_trans m0 m1 m2 mem s1 s2 :
  sm_post ms0 m0 mem m1 s1 -> sm_post ms0 m1 mem m2 s2 -> sm_post ms0 m0 mem m2 s2.
Proof.
  intros (A1 & A2 & A3 & A4) (B1 & B2 & B3 & B4). split; [exact B1|]. split; [exact B2|]. split.
  - intros mem2 x Hne H. apply B3; auto.
  - intros id. rewrite B4. apply A4.
Qed.

Lemma sm_post_refl m mem s : LogOk ms0 m -> sm_ok (m_mems m) mem s -> sm_post ms0 m mem m s.
Proof. intros L H. split; [exact L|]. split; [exact H|]. split; [auto|tauto]. Qed.

Lemma sm_post_sameM m0 m1 m2 mem s1 : sm_post ms0 m0 mem m1 s1 -> mach_sameM m1 m2 -> sm_post ms0 m0 mem m2 s1.
Proof.
  intros (A1 & A2 & A3 & A4) H. pose proof (proj1 H) as E. split; [eapply LogOk_same; eauto|]. rewrite E. auto.
Qed.

(* one guarded object (memory M) got the SynchronizedMemory state s'; every other guarded object is as before *)
Lemma MapInv_touch v X v' X' M s' :
  MapInv v X -> sm_ok (m_mems (v_m v')) M s' ->
  (forall mem2 s2, mem2 <> M -> sm_ok (m_mems (v_m v)) mem2 s2 -> sm_ok (m_mems (v_m v')) mem2 s2) ->
  (forall lr l' b', get_blist v' lr = Some l' -> In b' (bl_blocks l') ->
     (bk_mem b' = M /\ bk_sm b' = s') \/
     (exists lr0 l b, get_blist v lr0 = Some l /\ In b (bl_blocks l) /\ bk_mem b = bk_mem b' /\ bk_sm b = bk_sm b' /\ bk_mem b' <> M)) ->
  (forall s a', slot_is v' s a' -> ~ In s X' -> a_kind a' = 2 ->
     (a_mem a' = M /\ a_sm a' = s') \/
     (exists s0 a, slot_is v s0 a /\ ~ In s0 X /\ a_kind a = 2 /\ a_mem a = a_mem a' /\ a_sm a = a_sm a' /\ a_mem a' <> M)) ->
  MapInv v' X'.
Proof.
  intros [B D] HM Hoth Hb Hd. constructor.
  - intros lr l' b' Hg Hin. destruct (Hb _ _ _ Hg Hin) as [(-> & ->)|(lr0 & l & b & G & I0 & E1 & E2 & Hne)]; [exact HM|].
    apply Hoth; [exact Hne|]. rewrite <- E1, <- E2. eauto.
  - intros s a' Sa HX K. destruct (Hd _ _ Sa HX K) as [(-> & ->)|(s0 & a & S0 & HX0 & K0 & E1 & E2 & Hne)]; [exact HM|].
    apply Hoth; [exact Hne|]. rewrite <- E1, <- E2. eauto.
Qed.

(* a block is replaced by one with the same memory object and SynchronizedMemory state *)
Lemma MM_put_same w X lr bc nb :
  MM ms0 w X -> get_block w lr (bk_id nb) = Some bc -> bk_mem nb = bk_mem bc -> bk_sm nb = bk_sm bc ->
  MM ms0 (put_block w lr nb) X.
Proof.
  intros M Hgb Em Es. destruct (get_block_in _ _ _ _ Hgb) as (l & Hg & Hb & Hid).
  apply (MM_lists ms0 w X); [exact M|apply put_block_m|split; [rewrite put_block_tab; reflexivity|intros; rewrite put_block_tab; reflexivity]|].
  rewrite (put_block_eq _ _ _ _ Hg). apply (blocks_sub_set_blist w lr l _ Hg). cbn. intros b' Hb'.
  destruct (replace_block_cases _ _ _ Hb') as [->|Hin]; [exists bc; auto|exists b'; auto].
Qed.

(* the SynchronizedMemory object of block bc of list lr was operated on *)
Lemma MM_put_touch w U X lr l bc m' s' nb :
  MM ms0 w X -> VamInvU c w U X -> get_blist w lr = Some l -> In bc (bl_blocks l) ->
  sm_post ms0 (v_m w) (bk_mem bc) m' s' -> bk_id nb = bk_id bc -> bk_mem nb = bk_mem bc -> bk_sm nb = s' ->
  MM ms0 (put_block (set_m w m') lr nb) X.
Proof.
  intros (I & L) HI Hg Hb (P1 & P2 & P3 & P4) Eid Em Es.
  assert (Hgm : get_blist (set_m w m') lr = Some l) by (rewrite get_blist_set_m; exact Hg).
  split; [|rewrite put_block_m; exact P1].
  pose proof (bw_nodup _ _ (vi_lists _ _ _ _ HI _ _ Hg)) as Hnd.
  apply (MapInv_touch w X _ X (bk_mem bc) s' I); [rewrite put_block_m; exact P2|rewrite put_block_m; exact P3| |].
  - intros lr0 l0 b0 G0 B0. rewrite (put_block_eq _ _ _ _ Hgm) in G0.
    destruct (get_set_blist_cases (set_m w m') lr l _ lr0 l0 Hgm G0) as [(-> & ->)|(Hne & G)].
    + cbn in B0. destruct (in_replace_block _ _ _ Hnd B0) as [(-> & _)|(Hin & Hid)]; [left; auto|right].
      exists lr, l, b0. split; [exact Hg|]. split; [exact Hin|]. split; [reflexivity|]. split; [reflexivity|].
      intros E. destruct (vi_block_mem_inj _ _ _ _ HI _ _ _ _ _ _ Hg Hin Hg Hb E) as (_ & E2). congruence.
    + right. rewrite get_blist_set_m in G. exists lr0, l0, b0. split; [exact G|]. split; [exact B0|]. split; [reflexivity|]. split; [reflexivity|].
      intros E. destruct (vi_block_mem_inj _ _ _ _ HI _ _ _ _ _ _ G B0 Hg Hb E) as (E2 & _). contradiction.
  - intros s a Sa HX Ka. right. assert (Sa0 : slot_is w s a) by (unfold slot_is in *; rewrite put_block_tab in Sa; exact Sa).
    exists s, a. split; [exact Sa0|]. split; [exact HX|]. split; [exact Ka|]. split; [reflexivity|]. split; [reflexivity|].
    apply (vi_ded_not_block _ _ _ _ HI s a _ _ _ Sa0 Ka Hg Hb).
Qed.

(* an unallocated Allocation object is written; the new contents are not a dedicated allocation *)
Lemma MM_set_alloc w X s a' :
  MM ms0 w X -> a_allocated (get_alloc w s) = false -> (a_allocated a' = true -> a_kind a' <> 2) -> MM ms0 (set_alloc w s a') X.
Proof.
  intros (I & L) Hdead Hk. split; [|exact L].
  apply (MapInv_sub w X); [exact I|reflexivity|apply blocks_sub_eq; intros; apply get_blist_set_alloc|].
  intros s1 a1 S1 HX K1. destruct (Z.eq_dec s1 s) as [->|Hne].
  - exfalso. destruct (nth_z (v_tab w) s) as [x|] eqn:E.
    + apply slot_is_set_alloc_same in S1; [|eapply nth_z_some_range; eauto]. destruct S1 as (-> & Ha). apply (Hk Ha K1).
    + destruct S1 as (S1 & _). unfold set_alloc in S1. cbn in S1. rewrite nth_z_set_none in S1 by exact E. discriminate.
  - exists s1, a1. split; [apply (slot_is_set_alloc_other w s a' s1 a1 Hne); exact S1|auto].
Qed.

(* ---------------------------------------------------------------- allocFromBlock / commitAllocationRequest *)

Lemma get_block_set_alloc w s a lr bid : get_block (set_alloc w s a) lr bid = get_block w lr bid.
Proof. unfold get_block. rewrite get_blist_set_alloc. reflexivity. Qed.

Lemma alloc_from_block_MM v U X lr bid size align flags sub s :
  MM ms0 v X -> VamInvU c v U X -> Bits.pow2 align -> 0 <= s < zlen (v_tab v) -> a_allocated (get_alloc v s) = false ->
  let '(v', r) := alloc_from_block c v lr bid size align flags sub s in
  match r with AFPanic | AFStuck => True | _ => MM ms0 v' X end.
Proof.
  intros HM HI Hal Hs Hdead. unfold alloc_from_block.
  destruct (get_block v lr bid) as [b|] eqn:Hgb; [|exact I].
  destruct (negb (meta_may_have_free (bk_meta b) sub size)); [exact HM|].
  destruct (get_block_in _ _ _ _ Hgb) as (l & Hg & Hb & Hbid).
  pose proof (vi_lists _ _ _ _ HI _ _ Hg) as Hwf. pose proof (bw_nodup _ _ Hwf) as Hnd.
  pose proof (bw_meta _ _ Hwf) as Hmeta. rewrite Forall_forall in Hmeta. pose proof (Hmeta _ Hb) as Hmi.
  destruct (meta_create_request (bk_meta b) size align (fl flags F_UPPER) sub (strategy_of flags)) as [mt1 rq| | |] eqn:Hrq;
    try exact I; try exact HM.
  destruct (meta_request_spec _ _ _ _ _ _ _ _ Hmi Hal Hrq) as (Hmi1 & Hl1 & Hs1).
  pose proof (meta_request_g _ _ _ _ _ _ _ _ Hmi Hal Hrq) as Hg1g.
  set (b1 := mkBlock (bk_id b) (bk_mem b) (bk_sm b) mt1).
  assert (Hsame1 : block_same b b1) by (unfold block_same, b1; cbn; auto).
  destruct (VamInvStep.put_block_same_inv c v U X lr l b b1 HI Hg Hb Hsame1 Hmi1) as (HI1 & T1 & L1).
  destruct (put_block_lookup v lr l b b1 Hg Hnd Hb eq_refl) as (Hg1 & Hb1 & Hgb1).
  assert (M1 : MM ms0 (put_block v lr b1) X).
  { apply (MM_put_same v X lr b b1 HM); [cbn [bk_id b1]; rewrite Hbid; exact Hgb|reflexivity|reflexivity]. }
  set (v1 := put_block v lr b1) in *. set (l1 := set_blocks l (replace_block (bl_blocks l) b1)) in *.
  unfold commit_request. cbn [bk_id b1] in Hgb1. rewrite Hbid in Hgb1. rewrite Hg1, Hgb1.
  pose proof (sm_sub_M ms0 (v_m v1) (bk_mem b1) (bk_sm b1) (proj2 M1) (mi_blocks _ _ (proj1 M1) _ _ _ Hg1 Hb1)) as Psub.
  destruct (sm_sub (v_m v1) (bk_mem b1) (bk_sm b1)) as (m1 & s1).
  assert (Pmap : forall m2 s2 (mr : out unit),
            (if fl flags F_MAPPED then sm_map c m1 (bk_mem b1) s1 else (m1, s1, OK tt)) = (m2, s2, mr) -> sm_post ms0 (v_m v1) (bk_mem b1) m2 s2).
  { intros m2 s2 mr E. destruct (fl flags F_MAPPED).
    - pose proof (sm_map_M c ms0 m1 (bk_mem b1) s1 (proj1 Psub) (proj1 (proj2 Psub))) as P. rewrite E in P. eapply sm_post_trans; eauto.
    - injection E as <- <- _. exact Psub. }
  destruct (if fl flags F_MAPPED then sm_map c m1 (bk_mem b1) s1 else (m1, s1, OK tt)) as ((m2 & s2) & mr) eqn:Emap.
  specialize (Pmap _ _ _ eq_refl).
  set (b2 := mkBlock (bk_id b1) (bk_mem b1) s2 (bk_meta b1)).
  assert (M2 : MM ms0 (put_block (set_m v1 m2) lr b2) X).
  { apply (MM_put_touch v1 U X lr l1 b1 m2 s2 b2 M1 HI1 Hg1 Hb1 Pmap); reflexivity. }
  assert (Hg1m : get_blist (set_m v1 m2) lr = Some l1) by (rewrite get_blist_set_m; auto).
  assert (Hnd1 : NoDup (map bk_id (bl_blocks l1))) by (unfold l1; cbn; rewrite replace_block_ids; auto).
  destruct (put_block_lookup (set_m v1 m2) lr l1 b1 b2 Hg1m Hnd1 Hb1 eq_refl) as (Hg2 & Hb2 & Hgb2).
  set (v2 := put_block (set_m v1 m2) lr b2) in *.
  destruct mr as [[]|code| |]; try exact I; try exact M2.
  assert (Et2 : v_tab v2 = v_tab v) by (unfold v2; rewrite put_block_tab; cbn [v_tab set_m]; unfold v1; rewrite put_block_tab; reflexivity).
  assert (Hdead2 : a_allocated (get_alloc v2 s) = false) by (unfold get_alloc; rewrite Et2; exact Hdead).
  assert (M3 : MM ms0 (set_alloc v2 s (alloc_init (mapping_allowed flags))) X).
  { apply MM_set_alloc; [exact M2|exact Hdead2|cbn; discriminate]. }
  set (v3 := set_alloc v2 s (alloc_init (mapping_allowed flags))) in *.
  cbn [bk_meta b1 bk_id bk_mem] in *.
  destruct (meta_alloc mt1 rq sub s size align) as [(mt2 & h)|code| |] eqn:Ema; try exact I; try exact M3.
  destruct (fl flags F_MAPPED && negb (mapping_allowed flags)); [exact I|].
  set (b4 := mkBlock (bk_id b) (bk_mem b) s2 mt2).
  assert (Hgb3 : get_block v3 lr (bk_id b4) = Some b2) by (unfold v3; rewrite get_block_set_alloc; exact Hgb2).
  assert (M4 : MM ms0 (put_block v3 lr b4) X) by (apply (MM_put_same v3 X lr b2 b4 M3 Hgb3); reflexivity).
  assert (Hdead4 : a_allocated (get_alloc (put_block v3 lr b4) s) = false).
  { unfold get_alloc. rewrite put_block_tab. unfold v3. cbn [set_alloc set_tab v_tab]. rewrite nth_z_set_same by (rewrite Et2; exact Hs). reflexivity. }
  match goal with |- context [set_alloc (put_block v3 lr b4) s ?aa] => set (a := aa) end.
  assert (M5 : MM ms0 (set_alloc (put_block v3 lr b4) s a) X).
  { apply MM_set_alloc; [exact M4|exact Hdead4|intros _; unfold a; cbn; discriminate]. }
  apply MM_mach; [exact M5|apply add_allocation_sameM].
Qed.

Definition af_post (v v' : vam) (U X : list Z) (lr : lref) (s : Z) (r : afres) : Prop :=
  match r with
  | AFPanic | AFStuck => True
  | _ =>
    VamInvM v' U X /\ tab_frame v v' [s] /\ lists_frame v v' /\
    match r with
    | AFOk => exists a, slot_is v' s a /\ a_kind a = 1 /\ a_lref a = lr
    | _ => a_allocated (get_alloc v' s) = false
    end
  end.

Lemma alloc_from_block_inv v U X lr bid size align flags sub s :
  VamInvM v U X -> Bits.pow2 align -> min_ok v lr align -> 0 <= s < zlen (v_tab v) -> a_allocated (get_alloc v s) = false ->
  let '(v', r) := alloc_from_block c v lr bid size align flags sub s in af_post v v' U X lr s r.
Proof.
  intros HI Hal Hmin Hs Hdead.
  pose proof (VamAcctStep.alloc_from_block_inv c Hc Hmax Hlarge v U X lr bid size align flags sub s (vm_a _ _ _ HI) Hal Hmin Hs Hdead) as P.
  pose proof (alloc_from_block_MM v U X lr bid size align flags sub s (vm_m _ _ _ HI) (vm_s _ _ _ HI) Hal Hs Hdead) as Q.
  destruct (alloc_from_block c v lr bid size align flags sub s) as (v' & r).
  destruct r; cbn [af_post VamAcctStep.af_post] in *; auto; destruct P as (I1 & R1); (split; [split; [exact I1|exact Q]|exact R1]).
Qed.

(* ---------------------------------------------------------------- block Destroy *)

(* the memory object M is freed; the guarded objects of v' are guarded objects of v other than M *)
Lemma MapInv_free v X v' X' M :
  MapInv v X -> m_mems (v_m v') = remove_mem (m_mems (v_m v)) M ->
  (forall lr l' b', get_blist v' lr = Some l' -> In b' (bl_blocks l') ->
     exists lr0 l b, get_blist v lr0 = Some l /\ In b (bl_blocks l) /\ bk_mem b = bk_mem b' /\ bk_sm b = bk_sm b' /\ bk_mem b' <> M) ->
  (forall s a', slot_is v' s a' -> ~ In s X' -> a_kind a' = 2 ->
     exists s0 a, slot_is v s0 a /\ ~ In s0 X /\ a_kind a = 2 /\ a_mem a = a_mem a' /\ a_sm a = a_sm a' /\ a_mem a' <> M) ->
  MapInv v' X'.
Proof.
  intros [B D] Em Hb Hd. constructor.
  - intros lr l' b' Hg Hin. destruct (Hb _ _ _ Hg Hin) as (lr0 & l & b & G & I0 & E1 & E2 & Hne). rewrite Em.
    apply sm_ok_other_removed; [exact Hne|]. rewrite <- E1, <- E2. eauto.
  - intros s a' Sa HX K. destruct (Hd _ _ Sa HX K) as (s0 & a & S0 & HX0 & K0 & E1 & E2 & Hne). rewrite Em.
    apply sm_ok_other_removed; [exact Hne|]. rewrite <- E1, <- E2. eauto.
Qed.

Lemma destroy_block_M v ty b :
  LogOk ms0 (v_m v) -> (exists d, find_mem (m_mems (v_m v)) (bk_mem b) = Some d) -> meta_is_empty (bk_meta b) = true ->
  let v' := fst (destroy_block c v ty b) in
  LogOk ms0 (v_m v') /\ m_mems (v_m v') = remove_mem (m_mems (v_m v)) (bk_mem b) /\
  (forall lr, get_blist v' lr = get_blist v lr) /\ v_tab v' = v_tab v.
Proof.
  intros L Hd He. unfold destroy_block. rewrite He. cbn [negb].
  destruct (free_vk_M c ms0 (v_m v) ty (meta_size (bk_meta b)) (bk_mem b) L Hd) as (L1 & E1).
  destruct (free_vk c (v_m v) ty (meta_size (bk_meta b)) (bk_mem b)) as (m1 & r). cbn [fst] in *. cbn [v_m set_m v_tab].
  split; [exact L1|]. split; [exact E1|]. split; [intros; apply get_blist_set_m|reflexivity].
Qed.

Lemma remove_destroy_MM v U X lr l b :
  MM ms0 v X -> VamInvU c v U X -> get_blist v lr = Some l -> In b (bl_blocks l) -> meta_is_empty (bk_meta b) = true ->
  MM ms0 (fst (destroy_block c (set_blist v lr (set_blocks l (remove_block (bl_blocks l) (bk_id b)))) (bl_type l) b)) X.
Proof.
  intros (I & L) HI Hg Hb He. set (v1 := set_blist v lr (set_blocks l (remove_block (bl_blocks l) (bk_id b)))).
  destruct (vi_block_mem _ _ _ _ HI _ _ _ Hg Hb) as (d & Hf & _).
  assert (L1 : LogOk ms0 (v_m v1)) by (unfold v1; rewrite set_blist_m; exact L).
  assert (Hd1 : exists d, find_mem (m_mems (v_m v1)) (bk_mem b) = Some d) by (unfold v1; rewrite set_blist_m; eauto).
  destruct (destroy_block_M v1 (bl_type l) b L1 Hd1 He) as (L2 & E2 & G2 & T2). cbn zeta in *.
  split; [|exact L2]. pose proof (bw_nodup _ _ (vi_lists _ _ _ _ HI _ _ Hg)) as Hnd.
  apply (MapInv_free v X _ X (bk_mem b) I); [rewrite E2; unfold v1; rewrite set_blist_m; reflexivity| |].
  - intros lr0 l0 b0 G0 B0. rewrite G2 in G0. destruct (get_set_blist_cases v lr l _ lr0 l0 Hg G0) as [(-> & ->)|(Hne & G)].
    + cbn in B0. pose proof (in_remove_block _ _ _ B0) as Hin. pose proof (in_remove_block_ne _ _ _ Hnd B0) as Hid.
      exists lr, l, b0. split; [exact Hg|]. split; [exact Hin|]. split; [reflexivity|]. split; [reflexivity|].
      intros E. destruct (vi_block_mem_inj _ _ _ _ HI _ _ _ _ _ _ Hg Hin Hg Hb E) as (_ & Eid). contradiction.
    + exists lr0, l0, b0. split; [exact G|]. split; [exact B0|]. split; [reflexivity|]. split; [reflexivity|].
      intros E. destruct (vi_block_mem_inj _ _ _ _ HI _ _ _ _ _ _ G B0 Hg Hb E) as (Elr & _). contradiction.
  - intros s a Sa HX Ka. assert (Sa0 : slot_is v s a).
    { unfold slot_is in *. rewrite T2 in Sa. unfold v1 in Sa. rewrite set_blist_tab in Sa. exact Sa. }
    exists s, a. split; [exact Sa0|]. split; [exact HX|]. split; [exact Ka|]. split; [reflexivity|]. split; [reflexivity|].
    apply (vi_ded_not_block _ _ _ _ HI s a _ _ _ Sa0 Ka Hg Hb).
Qed.

Lemma remove_destroy_inv v U X lr l b :
  VamInvM v U X -> get_blist v lr = Some l -> In b (bl_blocks l) -> meta_is_empty (bk_meta b) = true ->
  let v1 := set_blist v lr (set_blocks l (remove_block (bl_blocks l) (bk_id b))) in
  let '(v', r) := destroy_block c v1 (bl_type l) b in
  VamInvM v' U X /\ tab_frame v v' [] /\ lists_frame v v'.
Proof.
  intros HI Hg Hb He v1.
  pose proof (VamAcctStep.remove_destroy_inv c Hc Hmax Hlarge v U X lr l b (vm_a _ _ _ HI) Hg Hb He) as P. cbn zeta in P. fold v1 in P.
  pose proof (remove_destroy_MM v U X lr l b (vm_m _ _ _ HI) (vm_s _ _ _ HI) Hg Hb He) as Q. fold v1 in Q.
  destruct (destroy_block c v1 (bl_type l) b) as (v' & r). cbn [fst] in Q. destruct P as (I1 & T1 & L1).
  split; [|auto]. split; [exact I1|exact Q].
Qed.


(* ---------------------------------------------------------------- freeWithLock *)

(* the SynchronizedMemory object of block bc was operated on and the list replaced by one whose blocks are the
   touched block (with the new state) or other blocks of the old list *)
Lemma MM_set_touch w U X lr lw bc m' s' lnew :
  MM ms0 w X -> VamInvU c w U X -> get_blist w lr = Some lw -> In bc (bl_blocks lw) ->
  sm_post ms0 (v_m w) (bk_mem bc) m' s' ->
  (forall b0, In b0 (bl_blocks lnew) -> (bk_mem b0 = bk_mem bc /\ bk_sm b0 = s') \/ (In b0 (bl_blocks lw) /\ bk_id b0 <> bk_id bc)) ->
  MM ms0 (set_blist (set_m w m') lr lnew) X.
Proof.
  intros (I & L) HI Hg Hb (P1 & P2 & P3 & P4) Hnew.
  assert (Hgm : get_blist (set_m w m') lr = Some lw) by (rewrite get_blist_set_m; exact Hg).
  split; [|rewrite set_blist_m; exact P1].
  apply (MapInv_touch w X _ X (bk_mem bc) s' I); [rewrite set_blist_m; exact P2|rewrite set_blist_m; exact P3| |].
  - intros lr0 l0 b0 G0 B0.
    destruct (get_set_blist_cases (set_m w m') lr lw _ lr0 l0 Hgm G0) as [(-> & ->)|(Hne & G)].
    + destruct (Hnew _ B0) as [H|(Hin & Hid)]; [left; exact H|right].
      exists lr, lw, b0. split; [exact Hg|]. split; [exact Hin|]. split; [reflexivity|]. split; [reflexivity|].
      intros E. destruct (vi_block_mem_inj _ _ _ _ HI _ _ _ _ _ _ Hg Hin Hg Hb E) as (_ & E2). contradiction.
    + right. rewrite get_blist_set_m in G. exists lr0, l0, b0. split; [exact G|]. split; [exact B0|]. split; [reflexivity|]. split; [reflexivity|].
      intros E. destruct (vi_block_mem_inj _ _ _ _ HI _ _ _ _ _ _ G B0 Hg Hb E) as (E2 & _). contradiction.
  - intros s a Sa HX Ka. right. assert (Sa0 : slot_is w s a) by (unfold slot_is in *; rewrite set_blist_tab in Sa; exact Sa).
    exists s, a. split; [exact Sa0|]. split; [exact HX|]. split; [exact Ka|]. split; [reflexivity|]. split; [reflexivity|].
    apply (vi_ded_not_block _ _ _ _ HI s a _ _ _ Sa0 Ka Hg Hb).
Qed.

(* a block that is in no list any more is destroyed; nothing else uses its memory object *)
Lemma MM_destroy w X ty db :
  MM ms0 w X -> (exists d, find_mem (m_mems (v_m w)) (bk_mem db) = Some d) -> meta_is_empty (bk_meta db) = true ->
  (forall lr0 l0 b0, get_blist w lr0 = Some l0 -> In b0 (bl_blocks l0) -> bk_mem b0 <> bk_mem db) ->
  (forall s a, slot_is w s a -> a_kind a = 2 -> a_mem a <> bk_mem db) ->
  MM ms0 (fst (destroy_block c w ty db)) X.
Proof.
  intros (I & L) Hd He Hb Hs. destruct (destroy_block_M w ty db L Hd He) as (L2 & E2 & G2 & T2). cbn zeta in *.
  split; [|exact L2]. apply (MapInv_free w X _ X (bk_mem db) I); [exact E2| |].
  - intros lr0 l0 b0 G0 B0. rewrite G2 in G0. exists lr0, l0, b0. split; [exact G0|]. split; [exact B0|]. split; [reflexivity|]. split; [reflexivity|]. eapply Hb; eauto.
  - intros s a Sa HX Ka. assert (Sa0 : slot_is w s a) by (unfold slot_is in *; rewrite T2 in Sa; exact Sa).
    exists s, a. split; [exact Sa0|]. split; [exact HX|]. split; [exact Ka|]. split; [reflexivity|]. split; [reflexivity|]. eapply Hs; eauto.
Qed.

Lemma MapInv_weaken v X X' : MapInv v X -> (forall s, In s X -> In s X') -> MapInv v X'.
Proof. intros [B D] H. constructor; [exact B|]. intros s a Sa HX K. apply (D s a Sa); [intros Hin; apply HX; apply H; exact Hin|exact K]. Qed.

Lemma bl_free_MM v U X s a keep :
  MM ms0 v X -> VamInvU c v U X -> slot_is v s a -> ~ In s X -> a_kind a = 1 ->
  let '(v', r) := bl_free c v (a_lref a) s keep in
  match r with OK _ | ER _ => MM ms0 v' X | _ => True end.
Proof.
  intros HM HI Hsl HnX Hk. unfold bl_free. rewrite (get_alloc_slot _ _ _ Hsl).
  destruct (vi_slots _ _ _ _ HI s a Hsl HnX) as [(_ & l & b & rg & Hg & Hb & Hid & Hrg & Hh & Htag & R)|(K & _)]; [|congruence].
  pose proof (vi_lists _ _ _ _ HI _ _ Hg) as Hwf. pose proof (bw_nodup _ _ Hwf) as Hnd.
  pose proof (bw_meta _ _ Hwf) as Hmeta. rewrite Forall_forall in Hmeta. pose proof (Hmeta _ Hb) as Hmi.
  assert (Hgb : get_block v (a_lref a) (a_blk a) = Some b).
  { unfold get_block. rewrite Hg, <- Hid. apply in_find_block; auto. }
  rewrite Hg, Hgb.
  pose proof (heap_budget_same c (v_m v) (type_heap c (bl_type l))) as Hbud.
  pose proof (heap_budget_sameM c (v_m v) (type_heap c (bl_type l))) as HbudM.
  destruct (heap_budget c (v_m v) (type_heap c (bl_type l))) as ((m1 & usage) & budget). cbn [fst] in Hbud, HbudM.
  pose proof (MM_mach ms0 v X m1 HM HbudM) as M0.
  assert (I0 : VamInvU c (set_m v m1) U X) by (apply VamInvU_mach_same; auto).
  assert (Hg0 : get_blist (set_m v m1) (a_lref a) = Some l) by (rewrite get_blist_set_m; auto).
  assert (Pun : forall m2 s2 (ur : out unit), (if a_persist a then sm_unmap m1 (bk_mem b) (bk_sm b) else (m1, bk_sm b, OK tt)) = (m2, s2, ur) ->
            sm_post ms0 m1 (bk_mem b) m2 s2 /\ mach_same m1 m2).
  { intros m2 s2 ur E. destruct (a_persist a).
    - pose proof (sm_unmap_M ms0 m1 (bk_mem b) (bk_sm b) (proj2 M0) (mi_blocks _ _ (proj1 M0) _ _ _ Hg0 Hb)) as P.
      pose proof (sm_unmap_same m1 (bk_mem b) (bk_sm b)) as Q. rewrite E in P, Q. auto.
    - injection E as <- <- _. split; [apply sm_post_refl; [exact (proj2 M0)|exact (mi_blocks _ _ (proj1 M0) _ _ _ Hg0 Hb)]|apply mach_same_refl]. }
  destruct (if a_persist a then sm_unmap m1 (bk_mem b) (bk_sm b) else (m1, bk_sm b, OK tt)) as ((m2 & s2) & ur) eqn:Eun.
  destruct (Pun _ _ _ eq_refl) as (Pun2 & Hm12).
  set (b2 := mkBlock (bk_id b) (bk_mem b) s2 (bk_meta b)).
  assert (M2 : MM ms0 (put_block (set_m v m2) (a_lref a) b2) X).
  { change (set_m v m2) with (set_m (set_m v m1) m2). apply (MM_put_touch (set_m v m1) U X (a_lref a) l b m2 s2 b2 M0 I0 Hg0 Hb Pun2); reflexivity. }
  assert (Hg0' : get_blist (set_m v m2) (a_lref a) = Some l) by (rewrite get_blist_set_m; auto).
  assert (I0' : VamInvU c (set_m v m2) U X) by (apply VamInvU_mach_same; [exact HI|eapply mach_same_trans; eauto]).
  assert (Hsame2 : block_same b b2) by (unfold block_same, b2; cbn; auto).
  destruct (VamInvStep.put_block_same_inv c (set_m v m2) U X (a_lref a) l b b2 I0' Hg0' Hb Hsame2 Hmi) as (I2 & T2 & L2).
  destruct (put_block_lookup (set_m v m2) (a_lref a) l b b2 Hg0' Hnd Hb eq_refl) as (Hg2 & Hb2 & Hgb2).
  set (v2 := put_block (set_m v m2) (a_lref a) b2) in *. set (l2 := set_blocks l (replace_block (bl_blocks l) b2)) in *.
  destruct ur as [[]|code| |]; [|exact M2|exact I|exact I].
  destruct (meta_free_spec (bk_meta b) (a_handle a) Hmi (ex_intro _ rg (conj Hrg Hh))) as (mt' & Hfree & Hmi' & Hsz' & _).
  rewrite Hfree.
  pose proof (sm_sub_M ms0 (v_m v2) (bk_mem b) s2 (proj2 M2) (mi_blocks _ _ (proj1 M2) _ _ _ Hg2 Hb2)) as Psub.
  destruct (sm_sub (v_m v2) (bk_mem b) s2) as (m3 & s3).
  set (b' := mkBlock (bk_id b) (bk_mem b) s3 mt').
  set (bs3 := replace_block (bl_blocks l) b').
  assert (Hnd2 : NoDup (map bk_id (bl_blocks l2))) by (unfold l2; cbn; rewrite replace_block_ids; auto).
  assert (Hnd3 : NoDup (map bk_id bs3)) by (unfold bs3; rewrite replace_block_ids; auto).
  assert (Ebs3 : bs3 = replace_block (bl_blocks l2) b') by (unfold bs3, l2; cbn; rewrite replace_replace by reflexivity; reflexivity).
  (* every block of bs3 is the freed block or another block of the list *)
  assert (Hbs3 : forall b0, In b0 bs3 -> b0 = b' \/ (In b0 (bl_blocks l2) /\ bk_id b0 <> bk_id b2)).
  { intros b0 H0. rewrite Ebs3 in H0. destruct (in_replace_block _ _ _ Hnd2 H0) as [(-> & _)|(Hin & Hne)]; [left; reflexivity|right; auto]. }
  (* ... and has a partner in l2 with the same id and memory *)
  assert (Hpart : forall b0, In b0 bs3 -> exists p, In p (bl_blocks l2) /\ bk_id p = bk_id b0 /\ bk_mem p = bk_mem b0).
  { intros b0 H0. destruct (Hbs3 b0 H0) as [->|(Hin & _)]; [exists b2; auto|exists b0; auto]. }
  assert (Hinj3 : forall x y, In x bs3 -> In y bs3 -> bk_mem x = bk_mem y -> bk_id x = bk_id y).
  { intros x y Hx Hy E. destruct (Hpart x Hx) as (px & Px & Ix & Mx). destruct (Hpart y Hy) as (py & Py & Iy & My).
    destruct (vi_block_mem_inj _ _ _ _ I2 _ _ _ _ _ _ Hg2 Px Hg2 Py ltac:(congruence)) as (_ & Eid). congruence. }
  (* the state after the list was replaced by (a sorted part of) bs3 *)
  assert (M3 : forall bs4, (forall b0, In b0 bs4 -> In b0 bs3) ->
            MM ms0 (set_blist (set_m v2 m3) (a_lref a) (incrementally_sort (set_blocks l bs4))) X).
  { intros bs4 Hsub. apply (MM_set_touch v2 U X (a_lref a) l2 b2 m3 s3 _ M2 I2 Hg2 Hb2 Psub).
    intros b0 H0. assert (H1 : In b0 bs4).
    { unfold incrementally_sort in H0. destruct (_ || _); [exact H0|]. cbn in H0. eapply Permutation_in; [apply Permutation_sym; apply bubble_once_perm|exact H0]. }
    destruct (Hbs3 b0 (Hsub _ H1)) as [->|H2]; [left; split; reflexivity|right; exact H2]. }
  (* ... and after a block of bs3 that is not in the new list was destroyed *)
  assert (M4 : forall bs4 db, (forall b0, In b0 bs4 -> In b0 bs3 /\ bk_id b0 <> bk_id db) -> In db bs3 -> meta_is_empty (bk_meta db) = true ->
            MM ms0 (fst (destroy_block c (set_blist (set_m v2 m3) (a_lref a) (incrementally_sort (set_blocks l bs4))) (bl_type l) db)) X).
  { intros bs4 db Hsub Hdb Hedb. destruct (Hpart db Hdb) as (pdb & Ppdb & Ipdb & Mpdb).
    assert (Hgm3 : get_blist (set_m v2 m3) (a_lref a) = Some l2) by (rewrite get_blist_set_m; exact Hg2).
    apply MM_destroy; [apply M3; intros b0 H0; apply (Hsub b0 H0)| |exact Hedb| |].
    - rewrite set_blist_m. cbn [v_m set_m]. destruct (vi_block_mem _ _ _ _ I2 _ _ _ Hg2 Ppdb) as (d & Hf & _).
      destruct Psub as (_ & _ & _ & P4). destruct (find_mem (m_mems m3) (bk_mem db)) as [d'|] eqn:E; [eauto|].
      apply P4 in E. rewrite <- Mpdb in E. congruence.
    - intros lr0 l0 b0 G0 B0.
      destruct (get_set_blist_cases (set_m v2 m3) (a_lref a) l2 _ lr0 l0 Hgm3 G0) as [(-> & ->)|(Hne & G)].
      + assert (H1 : In b0 bs4).
        { unfold incrementally_sort in B0. destruct (_ || _); [exact B0|]. cbn in B0. eapply Permutation_in; [apply Permutation_sym; apply bubble_once_perm|exact B0]. }
        destruct (Hsub _ H1) as (H2 & H3). intros E. apply H3. apply Hinj3; auto.
      + rewrite get_blist_set_m in G. intros E. rewrite <- Mpdb in E.
        destruct (vi_block_mem_inj _ _ _ _ I2 _ _ _ _ _ _ G B0 Hg2 Ppdb E) as (E2 & _). contradiction.
    - intros s1 a1 S1 K1. assert (S1' : slot_is v2 s1 a1) by (unfold slot_is in *; rewrite set_blist_tab in S1; exact S1).
      rewrite <- Mpdb. apply (vi_ded_not_block _ _ _ _ I2 s1 a1 _ _ _ S1' K1 Hg2 Ppdb). }
  set (heap := type_heap c (bl_type l)).
  assert (Hfinal : forall v4 (dr : out unit), MM ms0 v4 X ->
            match (match dr with
                   | OK _ => let '(m5, rr) := remove_allocation c (v_m v4) heap (a_size a) in (set_m v4 m5, rr)
                   | other => (v4, other) end) with
            | (v', OK _) | (v', ER _) => MM ms0 v' X | _ => True end).
  { intros v4 dr H. destruct dr as [[]|code| |]; auto.
    pose proof (remove_allocation_sameM c (v_m v4) heap (a_size a)) as R5.
    destruct (remove_allocation c (v_m v4) heap (a_size a)) as (m5 & rr). cbn [fst] in R5. destruct rr; auto; apply MM_mach; auto. }
  assert (Hb'in : In b' bs3) by (unfold bs3; apply replace_block_in; cbn; apply in_map; auto).
  match goal with |- context [if ?cnd then (remove_block bs3 (bk_id b'), Some b') else ?rest] => destruct cnd eqn:Ecnd end.
  - apply andb_true_iff in Ecnd. destruct Ecnd as (Ecnd & _). apply andb_true_iff in Ecnd. destruct Ecnd as (He & _).
    pose proof (M4 (remove_block bs3 (bk_id b')) b') as D4.
    match type of D4 with ?P -> _ => assert (HP : P) end.
    { intros b0 H0. split; [eapply in_remove_block; eauto|eapply in_remove_block_ne; eauto]. }
    specialize (D4 HP Hb'in He).
    destruct (destroy_block c _ (bl_type l) b') as (v4 & dr). cbn [fst] in D4.
    specialize (Hfinal v4 (match dr with OK _ => OK tt | STUCK => STUCK | _ => PANIC end) D4).
    destruct dr as [[]|code| |]; cbn in Hfinal |- *; auto.
  - match goal with |- context [if ?cnd then ?x else (bs3, None)] => destruct cnd eqn:Ecnd2 end.
    + destruct (rev bs3) as [|lastb rest] eqn:Erev.
      * specialize (Hfinal _ (OK tt) (M3 bs3 (fun b0 H => H))). cbn in Hfinal |- *. exact Hfinal.
      * destruct (meta_is_empty (bk_meta lastb)) eqn:Hel.
        -- assert (Ebs : bs3 = rev rest ++ [lastb]) by (rewrite <- (rev_involutive bs3), Erev; reflexivity).
           assert (Hlin : In lastb bs3) by (rewrite Ebs; apply in_app_iff; right; left; reflexivity).
           pose proof (M4 (rev rest) lastb) as D4.
           match type of D4 with ?P -> _ => assert (HP : P) end.
           { intros b0 H0. split; [rewrite Ebs; apply in_app_iff; left; exact H0|].
             intros E. rewrite Ebs, map_app in Hnd3. cbn in Hnd3. apply NoDup_remove_2 in Hnd3. apply Hnd3. rewrite app_nil_r, <- E. apply in_map. exact H0. }
           specialize (D4 HP Hlin Hel).
           destruct (destroy_block c _ (bl_type l) lastb) as (v4 & dr). cbn [fst] in D4.
           specialize (Hfinal v4 (match dr with OK _ => OK tt | STUCK => STUCK | _ => PANIC end) D4).
           destruct dr as [[]|code| |]; cbn in Hfinal |- *; auto.
        -- specialize (Hfinal _ (OK tt) (M3 bs3 (fun b0 H => H))). cbn in Hfinal |- *. exact Hfinal.
    + specialize (Hfinal _ (OK tt) (M3 bs3 (fun b0 H => H))). cbn in Hfinal |- *. exact Hfinal.
Qed.

(* ---------------------------------------------------------------- the search loop of allocPage *)

Definition ap_post (v v' : vam) (U X : list Z) (lr : lref) (s : Z) (r : out unit) : Prop :=
  match r with
  | PANIC | STUCK => True
  | _ =>
    VamInvM v' U X /\ tab_frame v v' [s] /\ lists_frame v v' /\
    match r with
    | OK _ => exists a, slot_is v' s a /\ a_kind a = 1 /\ a_lref a = lr
    | _ => a_allocated (get_alloc v' s) = false
    end
  end.

Lemma try_blocks_inv ids : forall v U X lr size align flags sub s,
  VamInvM v U X -> Bits.pow2 align -> min_ok v lr align -> 0 <= s < zlen (v_tab v) -> a_allocated (get_alloc v s) = false ->
  let '(v', r) := try_blocks c v lr ids size align flags sub s in af_post v v' U X lr s r.
Proof.
  induction ids as [|bid tl IH]; intros v U X lr size align flags sub s HI Hal Hmin Hs Hdead; cbn [try_blocks].
  - cbn. split; [auto|]. split; [apply tab_frame_refl|]. split; [apply lists_frame_refl|auto].
  - pose proof (alloc_from_block_inv v U X lr bid size align flags sub s HI Hal Hmin Hs Hdead) as A.
    destruct (alloc_from_block c v lr bid size align flags sub s) as (v1 & r). destruct r; cbn in A |- *; auto.
    + destruct A as (HI1 & T1 & L1 & (a & Sa & Ka & La)).
      destruct (sort_list_inv v1 U X lr HI1) as (HI2 & T2 & L2).
      split; [auto|]. split; [eapply tab_frame_trans; [exact T1|exact T2|auto|intros ? []]|].
      split; [eapply lists_frame_trans; eauto|]. exists a. split; [|auto].
      apply (slot_is_frame _ _ _ _ _ T2); auto.
    + destruct A as (HI1 & T1 & L1 & D1).
      assert (Hs1 : 0 <= s < zlen (v_tab v1)) by (destruct T1 as (E & _); lia).
      specialize (IH v1 U X lr size align flags sub s HI1 Hal (min_ok_frame _ _ _ _ L1 Hmin) Hs1 D1).
      destruct (try_blocks c v1 lr tl size align flags sub s) as (v2 & r2).
      destruct r2; cbn in IH |- *; auto;
        destruct IH as (HI2 & T2 & L2 & R2); (split; [auto|]; split; [eapply tab_frame_trans_same; eauto|]; split; [eapply lists_frame_trans; eauto|auto]).
Qed.

(* ---------------------------------------------------------------- allocPage *)

Definition keeps (v0 v' : vam) (U X : list Z) (s : Z) : Prop :=
  VamInvM v' U X /\ tab_frame v0 v' [s] /\ lists_frame v0 v' /\ a_allocated (get_alloc v' s) = false.

Lemma keeps_step v0 v v' U X s :
  keeps v0 v U X s -> VamInvM v' U X -> tab_frame v v' [] -> lists_frame v v' -> keeps v0 v' U X s.
Proof.
  intros (H1 & H2 & H3 & H4) I T L. split; [auto|]. split; [eapply tab_frame_trans; [exact H2|exact T|auto|intros ? []]|].
  split; [eapply lists_frame_trans; eauto|]. rewrite (get_alloc_frame _ _ _ _ T); auto.
Qed.

Lemma create_block_keeps v0 v U X s lr size :
  keeps v0 v U X s -> 0 <= size < 2 ^ 62 -> let '(v', r) := create_block c v lr size in keeps v0 v' U X s.
Proof.
  intros K Hsz. destruct (get_blist v lr) as [l|] eqn:Hg.
  - destruct K as (K1 & K2 & K3 & K4).
    pose proof (create_block_inv v U X lr l size K1 Hg Hsz) as C.
    destruct (create_block c v lr size) as (v1 & r). destruct C as (C1 & C2 & C3).
    eapply keeps_step; eauto. split; auto.
  - unfold create_block. rewrite Hg. exact K.
Qed.

Lemma quot2_bound n : 0 <= n < 2 ^ 62 -> 0 <= Z.quot n 2 < 2 ^ 62.
Proof. intros H. pose proof (Z.quot_pos n 2 ltac:(lia) ltac:(lia)). assert (Z.quot n 2 <= n) by (apply Z.quot_le_upper_bound; lia). lia. Qed.

Lemma retry_create_inv fuel : forall v0 v U X s lr nbs shift size freeMemory canFallback last,
  keeps v0 v U X s -> 0 <= nbs < 2 ^ 62 ->
  let '(v', r) := retry_create c fuel v lr nbs shift size freeMemory canFallback last in keeps v0 v' U X s.
Proof.
  induction fuel as [|f IH]; intros v0 v U X s lr nbs shift size fm cf last K Hn; cbn [retry_create]; [exact K|].
  destruct last; try exact K. destruct (3 <=? shift); [exact K|]. destruct (size <=? Z.quot nbs 2); [|exact K].
  pose proof (quot2_bound nbs Hn) as Hq.
  destruct (_ || _).
  - pose proof (create_block_keeps v0 v U X s lr (Z.quot nbs 2) K Hq) as C.
    destruct (create_block c v lr (Z.quot nbs 2)) as (v1 & r). apply IH; auto.
  - apply IH; auto.
Qed.

Lemma keeps_trans v0 v1 v2 U X s : keeps v0 v1 U X s -> keeps v1 v2 U X s -> keeps v0 v2 U X s.
Proof.
  intros (A1 & A2 & A3 & A4) (B1 & B2 & B3 & B4). split; [auto|]. split; [eapply tab_frame_trans_same; [exact A2|exact B2]|].
  split; [eapply lists_frame_trans; [exact A3|exact B3]|auto].
Qed.

Lemma keeps_refl v U X s : VamInvM v U X -> a_allocated (get_alloc v s) = false -> keeps v v U X s.
Proof. intros. split; [auto|]. split; [apply tab_frame_refl|]. split; [apply lists_frame_refl|auto]. Qed.

Lemma ap_post_fail v v' U X lr s code : keeps v v' U X s -> ap_post v v' U X lr s (ER code).
Proof. intros (A & B & C0 & D). cbn. auto. Qed.

Lemma af_keeps v v' U X lr s r :
  af_post v v' U X lr s r -> match r with AFOk | AFPanic | AFStuck => True | _ => keeps v v' U X s end.
Proof. destruct r; cbn; auto. Qed.

Lemma shrink_new_block_bound fuel : forall nbs shift maxE size, 0 <= nbs < 2 ^ 62 ->
  0 <= fst (shrink_new_block fuel nbs shift maxE size) < 2 ^ 62.
Proof.
  induction fuel as [|f IH]; intros nbs shift maxE size Hn; cbn [shrink_new_block]; [exact Hn|].
  destruct (_ && _); [|exact Hn]. apply IH. apply quot2_bound. exact Hn.
Qed.

Lemma alloc_page_inv v U X lr size align flags sub s :
  VamInvM v U X -> Bits.pow2 align -> min_ok v lr align -> 0 <= s < zlen (v_tab v) -> a_allocated (get_alloc v s) = false ->
  let '(v', r) := alloc_page c v lr size align flags sub s in ap_post v v' U X lr s r.
Proof.
  intros HI Hal Hmin Hs Hdead. unfold alloc_page. destruct (get_blist v lr) as [l|] eqn:Hg; [|exact I].
  pose proof (heap_budget_sameX (v_m v) (type_heap c (bl_type l))) as Hb.
  destruct (heap_budget c (v_m v) (type_heap c (bl_type l))) as ((m1 & usage) & budget). cbn [fst] in Hb.
  assert (K1 : keeps v (set_m v m1) U X s).
  { split; [apply VamInvM_mach_same; auto|]. split; [apply tab_frame_set_m|]. split; [apply lists_frame_set_m|auto]. }
  destruct (_ && _); [apply ap_post_fail; auto|]. destruct (bl_pref l <? size); [apply ap_post_fail; auto|].
  pose proof (ai_pref _ _ _ (vm_aa _ _ _ HI) _ _ Hg) as Hpref.
  pose proof K1 as (I1 & T1 & L1 & D1).
  assert (Hs1 : 0 <= s < zlen (v_tab (set_m v m1))) by (cbn; auto).
  pose proof (try_blocks_inv (search_order c l flags) (set_m v m1) U X lr size align flags sub s I1 Hal (min_ok_frame _ _ _ _ L1 Hmin) Hs1 D1) as TB.
  destruct (try_blocks c (set_m v m1) lr (search_order c l flags) size align flags sub s) as (v2 & r).
  pose proof (af_keeps _ _ _ _ _ _ _ TB) as TK.
  destruct r; cbn [ap_post]; auto.
  - cbn [af_post] in TB. destruct TB as (A & B & C & D). split; [auto|].
    split; [eapply tab_frame_trans_same; [exact T1|exact B]|]. split; [eapply lists_frame_trans; [exact L1|exact C]|auto].
  - (* no block fits: try a new block *)
    pose proof (keeps_trans _ _ _ _ _ _ K1 TK) as K2. clear TB TK.
    destruct (negb _); [apply ap_post_fail; auto|].
    assert (Hnbs : 0 <= fst (if bl_explicit l then (bl_pref l, 0) else shrink_new_block 3 (bl_pref l) 0 (calc_max_block_size l) size) < 2 ^ 62).
    { destruct (bl_explicit l); [exact Hpref|apply shrink_new_block_bound; exact Hpref]. }
    destruct (if bl_explicit l then (bl_pref l, 0) else shrink_new_block 3 (bl_pref l) 0 (calc_max_block_size l) size) as (nbs & shift). cbn [fst] in Hnbs.
    match goal with |- context [if ?cond then create_block c v2 lr nbs else (v2, ER VK_OODM)] =>
      assert (K3 : let '(v3, first) := (if cond then create_block c v2 lr nbs else (v2, ER VK_OODM)) in keeps v v3 U X s);
      [destruct cond; [apply create_block_keeps; [exact K2|exact Hnbs]|exact K2]|
       destruct (if cond then create_block c v2 lr nbs else (v2, ER VK_OODM)) as (v3 & first)]
    end.
    match goal with |- context [if bl_explicit l then (v3, first) else ?rc] =>
      assert (K4 : let '(v4, created) := (if bl_explicit l then (v3, first) else rc) in keeps v v4 U X s);
      [destruct (bl_explicit l); [exact K3|apply retry_create_inv; [exact K3|exact Hnbs]]|
       destruct (if bl_explicit l then (v3, first) else rc) as (v4 & created)]
    end.
    destruct created as [bid|code| |]; [|apply ap_post_fail; auto|exact I|exact I].
    destruct (get_block v4 lr bid) as [nb|] eqn:Hgb; [|exact I]. destruct (meta_size (bk_meta nb) <? size); [exact I|].
    pose proof K4 as (I4 & T4 & L4 & D4).
    assert (Hs4 : 0 <= s < zlen (v_tab v4)) by (destruct T4 as (E & _); lia).
    pose proof (alloc_from_block_inv v4 U X lr bid size align flags sub s I4 Hal (min_ok_frame _ _ _ _ L4 Hmin) Hs4 D4) as AF.
    destruct (alloc_from_block c v4 lr bid size align flags sub s) as (v5 & r2).
    pose proof (af_keeps _ _ _ _ _ _ _ AF) as AK.
    assert (Hgive : forall code2, keeps v4 v5 U X s ->
      let '(v6, dr) :=
          match get_blist v5 lr, get_block v5 lr bid with
          | Some l5, Some b5 =>
            if meta_is_empty (bk_meta b5) && (bl_min l5 <? zlen (bl_blocks l5)) then
              let v5' := set_blist v5 lr (set_blocks l5 (remove_block (bl_blocks l5) bid)) in
              match destroy_block c v5' (bl_type l5) b5 with
              | (v', OK _) => (v', OK tt)
              | (v', STUCK) => (v', STUCK)
              | (v', _) => (v', PANIC)
              end
            else (v5, OK tt)
          | _, _ => (v5, STUCK)
          end in
      ap_post v v6 U X lr s match dr with OK _ => ER code2 | ER code => ER code | PANIC => PANIC | STUCK => STUCK end).
    { intros code2 K5. pose proof (keeps_trans _ _ _ _ _ _ K4 K5) as K05.
      destruct (get_blist v5 lr) as [l5|] eqn:Hg5; [|exact I]. destruct (get_block v5 lr bid) as [b5|] eqn:Hgb5; [|exact I].
      destruct (meta_is_empty (bk_meta b5)) eqn:He; cbn [andb]; [|apply ap_post_fail; auto].
      destruct (bl_min l5 <? zlen (bl_blocks l5)); [|apply ap_post_fail; auto].
      destruct (get_block_in _ _ _ _ Hgb5) as (l5' & Hg5' & Hb5 & Hid5). assert (l5' = l5) by congruence. subst l5'.
      destruct K05 as (I5 & T5 & L5 & D5).
      pose proof (remove_destroy_inv v5 U X lr l5 b5 I5 Hg5 Hb5 He) as RD. cbn zeta in RD. rewrite Hid5 in RD.
      destruct (destroy_block c _ (bl_type l5) b5) as (v6 & dr). destruct RD as (R1 & R2 & R3).
      destruct dr as [[]|code| |]; cbn [ap_post]; auto.
      split; [auto|]. split; [eapply tab_frame_trans; [exact T5|exact R2|auto|intros ? []]|].
      split; [eapply lists_frame_trans; eauto|]. rewrite (get_alloc_frame _ _ _ _ R2); auto. }
    destruct r2; auto.
    + (* served from the new block *)
      cbn [af_post] in AF. destruct AF as (A & B & C & (a & Sa & Ka & La)).
      destruct (sort_list_inv v5 U X lr A) as (I6 & T6 & L6).
      cbn [ap_post]. split; [auto|].
      split; [eapply tab_frame_trans; [eapply tab_frame_trans_same; [exact T4|exact B]|exact T6|auto|intros ? []]|].
      split; [eapply lists_frame_trans; [eapply lists_frame_trans; [exact L4|exact C]|exact L6]|].
      exists a. split; [|auto]. apply (slot_is_frame _ _ _ _ _ T6); auto.
    + specialize (Hgive VK_OODM AK). destruct (match get_blist v5 lr with Some _ => _ | None => _ end) as (v6 & dr).
      destruct dr; exact Hgive.
    + specialize (Hgive code AK). destruct (match get_blist v5 lr with Some _ => _ | None => _ end) as (v6 & dr).
      destruct dr; exact Hgive.
  - exact (ap_post_fail _ _ _ _ lr _ code (keeps_trans _ _ _ _ _ _ K1 TK)).
Qed.

(* ---------------------------------------------------------------- Free + freeWithLock *)


Definition kept (v v' : vam) (U X : list Z) : Prop := VamInvM v' U X /\ tab_frame v v' [] /\ lists_frame v v'.

Lemma kept_trans v0 v1 v2 U X : kept v0 v1 U X -> kept v1 v2 U X -> kept v0 v2 U X.
Proof.
  intros (A1 & A2 & A3) (B1 & B2 & B3). split; [auto|]. split; [eapply tab_frame_trans_same; [exact A2|exact B2]|eapply lists_frame_trans; [exact A3|exact B3]].
Qed.

Lemma kept_frames v0 v1 v2 U X X' : kept v0 v1 U X -> VamInvM v2 U X' -> tab_frame v1 v2 [] -> lists_frame v1 v2 -> kept v0 v2 U X'.
Proof.
  intros (A1 & A2 & A3) I T L. split; [auto|]. split; [eapply tab_frame_trans_same; [exact A2|exact T]|eapply lists_frame_trans; [exact A3|exact L]].
Qed.


Lemma kept_mach v0 v U X m' : kept v0 v U X -> mach_sameX (v_m v) m' -> kept v0 (set_m v m') U X.
Proof.
  intros K H. eapply kept_frames; [exact K| | |].
  - apply VamInvM_mach_same; [apply K|auto].
  - apply tab_frame_set_m.
  - apply lists_frame_set_m.
Qed.

(* ---------------------------------------------------------------- Free + freeWithLock *)

Lemma MM_weaken v X X' : MM ms0 v X -> (forall s, In s X -> In s X') -> MM ms0 v X'.
Proof. intros (I & L) H. split; [eapply MapInv_weaken; eauto|exact L]. Qed.

Lemma MM_unmark v X s a' : MM ms0 v (s :: X) -> a_allocated a' = false -> MM ms0 (set_alloc v s a') X.
Proof.
  intros (I & L) Ha. split; [|exact L].
  apply (MapInv_sub v (s :: X)); [exact I|reflexivity|apply blocks_sub_eq; intros; apply get_blist_set_alloc|].
  intros s1 a1 S1 HX K1. destruct (Z.eq_dec s1 s) as [->|Hne].
  - exfalso. destruct (nth_z (v_tab v) s) as [x|] eqn:E.
    + apply slot_is_set_alloc_same in S1; [|eapply nth_z_some_range; eauto]. destruct S1 as (-> & Hb). congruence.
    + destruct S1 as (S1 & _). unfold set_alloc in S1. cbn in S1. rewrite nth_z_set_none in S1 by exact E. discriminate.
  - exists s1, a1. split; [apply (slot_is_set_alloc_other v s a' s1 a1 Hne); exact S1|].
    split; [intros [E|H]; [congruence|contradiction]|auto].
Qed.

Lemma bl_free_inv v U X s a keep :
  VamInvM v U X -> slot_is v s a -> ~ In s X -> a_kind a = 1 ->
  let '(v', r) := bl_free c v (a_lref a) s keep in
  match r with
  | OK _ => kept v v' U (s :: X)
  | ER _ => kept v v' U X
  | _ => True
  end.
Proof.
  intros HI Hsl HnX Hk. pose proof (VamAcctStep.bl_free_inv c Hc Hmax Hlarge v U X s a keep (vm_a _ _ _ HI) Hsl HnX Hk) as P.
  pose proof (bl_free_MM v U X s a keep (vm_m _ _ _ HI) (vm_s _ _ _ HI) Hsl HnX Hk) as Q.
  destruct (bl_free c v (a_lref a) s keep) as (v' & r). destruct r as [[]|code| |]; auto; destruct P as (I1 & T1 & L1).
  - split; [split; [exact I1|eapply MM_weaken; [exact Q|intros; right; auto]]|auto].
  - split; [split; [exact I1|exact Q]|auto].
Qed.

Definition keptS (v v' : vam) (U X S : list Z) : Prop := VamInvM v' U X /\ tab_frame v v' S /\ lists_frame v v'.

Lemma keptS_trans v0 v1 v2 U X S : keptS v0 v1 U X S -> keptS v1 v2 U X S -> keptS v0 v2 U X S.
Proof.
  intros (A1 & A2 & A3) (B1 & B2 & B3). split; [auto|]. split; [eapply tab_frame_trans_same; [exact A2|exact B2]|eapply lists_frame_trans; [exact A3|exact B3]].
Qed.

Lemma keptS_weaken v v' U X S S' : keptS v v' U X S -> (forall s, In s S -> In s S') -> keptS v v' U X S'.
Proof. intros (A & B & C) H. split; [auto|]. split; [eapply tab_frame_weaken; eauto|auto]. Qed.

Lemma kept_keptS v v' U X S : kept v v' U X -> keptS v v' U X S.
Proof. intros (A & B & C). split; [auto|]. split; [eapply tab_frame_weaken; [exact B|intros ? []]|auto]. Qed.


(* Free of a block allocation followed by marking the object unallocated *)
Lemma free_block_slot_inv v U X s a keep :
  VamInvM v U X -> slot_is v s a -> ~ In s X -> a_kind a = 1 ->
  let '(v', r) := bl_free c v (a_lref a) s keep in
  match r with
  | OK _ => keptS v (set_alloc v' s (set_allocated (get_alloc v' s) false)) U X [s] /\
            a_allocated (get_alloc (set_alloc v' s (set_allocated (get_alloc v' s) false)) s) = false
  | ER _ => kept v v' U X
  | _ => True
  end.
Proof.
  intros HI Hsl HnX Hk. pose proof (VamAcctStep.free_block_slot_inv c Hc Hmax Hlarge v U X s a keep (vm_a _ _ _ HI) Hsl HnX Hk) as P.
  pose proof (bl_free_inv v U X s a keep HI Hsl HnX Hk) as F.
  destruct (bl_free c v (a_lref a) s keep) as (v' & r). destruct r as [[]|code| |]; auto.
  destruct P as ((I1 & T1 & L1) & D1). destruct F as (F1 & _). split; [|exact D1].
  split; [|auto]. split; [exact I1|]. apply MM_unmark; [apply (vm_m _ _ _ F1)|reflexivity].
Qed.

Lemma unwind_loop_inv done : forall v U X lr,
  VamInvM v U X -> block_slots v lr X done ->
  let '(v', r) := unwind_loop c v lr done in
  match r with
  | OK _ => keptS v v' U X done /\ dead_slots v' done
  | ER _ => False
  | _ => True
  end.
Proof.
  induction done as [|s tl IH]; intros v U X lr HI (Hnd & Hbs); cbn [unwind_loop].
  - split; [split; [auto|split; [apply tab_frame_refl|apply lists_frame_refl]]|intros ? []].
  - inversion Hnd as [|? ? Hs Hnd']; subst.
    destruct (Hbs s (or_introl eq_refl)) as (HX & a & Sa & Ka & La).
    pose proof (free_block_slot_inv v U X s a true HI Sa HX Ka) as F. rewrite La in F.
    destruct (bl_free c v lr s true) as (v1 & r). destruct r as [[]|code| |]; auto.
    destruct F as (K1 & D1). set (v1' := set_alloc v1 s (set_allocated (get_alloc v1 s) false)) in *.
    assert (Hbs' : block_slots v1' lr X tl).
    { eapply block_slots_frame with (v := v) (S := [s]); [split; [auto|]; intros; apply Hbs; right; auto|apply K1|].
      intros s1 H1 [<-|[]]. contradiction. }
    specialize (IH v1' U X lr (proj1 K1) Hbs').
    destruct (unwind_loop c v1' lr tl) as (v2 & r2). destruct r2 as [[]|code| |]; auto.
    destruct IH as (K2 & D2). split.
    + eapply keptS_trans; [eapply keptS_weaken; [exact K1|intros ? [<-|[]]; left; reflexivity]|].
      eapply keptS_weaken; [exact K2|intros; right; auto].
    + intros s1 [<-|H1]; [|apply D2; auto].
      destruct K2 as (_ & T2 & _). split; [destruct T2 as (E & _); destruct K1 as (_ & (E1 & _) & _); rewrite E, E1; eapply slot_is_range; eauto|].
      rewrite (get_alloc_frame _ _ _ _ T2); auto.
Qed.

Lemma release_loop_inv ids : forall v U X lr firstId,
  VamInvM v U X ->
  let '(v', r) := release_loop c v lr ids firstId in
  match r with OK _ => kept v v' U X | ER _ => False | _ => True end.
Proof.
  induction ids as [|bid tl IH]; intros v U X lr firstId HI; cbn [release_loop].
  - split; [auto|split; [apply tab_frame_refl|apply lists_frame_refl]].
  - destruct (get_blist v lr) as [l|] eqn:Hg; [|exact I].
    assert (Hrefl : kept v v U X) by (split; [auto|split; [apply tab_frame_refl|apply lists_frame_refl]]).
    destruct (negb _); [exact Hrefl|].
    destruct (find_block (bl_blocks l) bid) as [b|] eqn:Hf; [|exact I].
    destruct (find_block_in _ _ _ Hf) as (Hb & Hid).
    destruct (meta_is_empty (bk_meta b)) eqn:He.
    + destruct (bk_id b <? firstId); cbn [orb negb]; [apply IH; auto|].
      pose proof (remove_destroy_inv v U X lr l b HI Hg Hb He) as RD. cbn zeta in RD. rewrite Hid in RD.
      destruct (destroy_block c _ (bl_type l) b) as (v2 & dr). destruct dr as [[]|code| |]; auto.
      specialize (IH v2 U X lr firstId (proj1 RD)).
      destruct (release_loop c v2 lr tl firstId) as (v3 & r3). destruct r3 as [[]|code| |]; auto.
      eapply kept_trans; [exact RD|exact IH].
    + rewrite orb_true_r. apply IH; auto.
Qed.

Lemma release_empty_since_inv v U X lr firstId :
  VamInvM v U X ->
  let '(v', r) := release_empty_since c v lr firstId in
  match r with OK _ => kept v v' U X | ER _ => False | _ => True end.
Proof.
  intros HI. unfold release_empty_since. destruct (get_blist v lr) as [l|]; [|exact I]. apply release_loop_inv. auto.
Qed.

Lemma allocate_loop_inv slots : forall v U X lr done size align flags sub,
  VamInvM v U X -> Bits.pow2 align -> min_ok v lr align -> NoDup (slots ++ done) ->
  dead_slots v slots -> block_slots v lr X done ->
  let '(v', r, done') := allocate_loop c v lr slots done size align flags sub in
  match r with
  | PANIC | STUCK => True
  | _ =>
    keptS v v' U X slots /\ block_slots v' lr X done' /\ (forall s, In s done -> In s done') /\
    (forall s, In s done' -> In s (slots ++ done)) /\
    match r with
    | OK _ => forall s, In s slots -> In s done'
    | _ => forall s, In s slots -> In s done' \/ (0 <= s < zlen (v_tab v') /\ a_allocated (get_alloc v' s) = false)
    end
  end.
Proof.
  induction slots as [|s tl IH]; intros v U X lr done size align flags sub HI Hal Hmin Hnd Hdead Hdone; cbn [allocate_loop].
  - split; [split; [auto|split; [apply tab_frame_refl|apply lists_frame_refl]]|]. split; [auto|]. split; [auto|]. split; [auto|]. intros ? [].
  - destruct (Hdead s (or_introl eq_refl)) as (Hr & Hd).
    pose proof (alloc_page_inv v U X lr size align flags sub s HI Hal Hmin Hr Hd) as AP.
    destruct (alloc_page c v lr size align flags sub s) as (v1 & r).
    cbn [app] in Hnd. inversion Hnd as [|? ? Hns Hnd']; subst.
    assert (Hdone1 : tab_frame v v1 [s] -> block_slots v1 lr X done).
    { intros T. eapply block_slots_frame; [exact Hdone|exact T|]. intros s1 H1 [<-|[]]. apply Hns. apply in_app_iff. auto. }
    assert (Hdead1 : tab_frame v v1 [s] -> dead_slots v1 tl).
    { intros T. eapply dead_slots_frame; [intros s1 H1; apply Hdead; right; exact H1|exact T|].
      intros s1 H1 [<-|[]]. apply Hns. apply in_app_iff. auto. }
    assert (Kw : VamInvM v1 U X -> tab_frame v v1 [s] -> lists_frame v v1 -> keptS v v1 U X (s :: tl)).
    { intros I1 T1 L1. split; [exact I1|split; [eapply tab_frame_weaken; [exact T1|intros ? [<-|[]]; left; reflexivity]|exact L1]]. }
    destruct r as [[]|code| |]; cbn [ap_post] in AP; auto.
    + destruct AP as (I1 & T1 & L1 & (a & Sa & Ka & La)).
      assert (Hnd1 : NoDup (tl ++ s :: done)).
      { eapply Permutation.Permutation_NoDup; [apply Permutation.Permutation_middle|exact Hnd]. }
      assert (Hbs1 : block_slots v1 lr X (s :: done)).
      { destruct (Hdone1 T1) as (Hndd & Hd1). split; [constructor; [intros H; apply Hns; apply in_app_iff; auto|auto]|].
        intros s1 [<-|H1]; [|apply Hd1; auto]. split; [|eauto].
        intros HX. destruct (vi_dang _ _ _ _ (vm_s _ _ _ HI) _ HX) as (a2 & S2 & _). rewrite (get_alloc_slot _ _ _ S2) in Hd. destruct S2. congruence. }
      specialize (IH v1 U X lr (s :: done) size align flags sub I1 Hal (min_ok_frame _ _ _ _ L1 Hmin) Hnd1 (Hdead1 T1) Hbs1).
      destruct (allocate_loop c v1 lr tl (s :: done) size align flags sub) as ((v2 & r2) & done2).
      destruct r2 as [[]|code| |]; auto; destruct IH as (K2 & B2 & S2 & Q2 & O2);
        (split; [eapply keptS_trans; [exact (Kw I1 T1 L1)|eapply keptS_weaken; [exact K2|intros; right; auto]]|]);
        (split; [auto|]); (split; [intros x Hx; apply S2; right; auto|]);
        (split; [intros x Hx; specialize (Q2 x Hx); apply in_app_iff in Q2; destruct Q2 as [H|[<-|H]];
                 [right; apply in_app_iff; auto|left; reflexivity|right; apply in_app_iff; auto]|]).
      * intros x [<-|Hx]; [apply S2; left; reflexivity|auto].
      * intros x [<-|Hx]; [left; apply S2; left; reflexivity|auto].
    + destruct AP as (I1 & T1 & L1 & D1). split; [exact (Kw I1 T1 L1)|]. split; [auto|]. split; [auto|].
      split; [intros x Hx; right; apply in_app_iff; auto|].
      intros x [<-|Hx]; right.
      * split; [destruct T1 as (E & _); lia|auto].
      * apply (Hdead1 T1). auto.
Qed.

(* memoryBlockList.Allocate *)
Lemma bl_allocate_inv v U X lr slots size align0 flags sub :
  VamInvM v U X -> align0 = 0 \/ Bits.pow2 align0 -> NoDup slots -> dead_slots v slots ->
  let '(v', r) := bl_allocate c v lr slots size align0 flags sub in
  match r with
  | OK _ => keptS v v' U X slots /\ block_slots v' lr X slots
  | ER _ => keptS v v' U X slots /\ dead_slots v' slots
  | _ => True
  end.
Proof.
  intros HI Hal Hnd Hdead. unfold bl_allocate. destruct (get_blist v lr) as [l|] eqn:Hg; [|exact I].
  pose proof (vi_lists _ _ _ _ (vm_s _ _ _ HI) _ _ Hg) as Hwf.
  assert (Hal' : Bits.pow2 (if align0 <? bl_minalign l then bl_minalign l else align0)).
  { pose proof (bw_align _ _ Hwf) as Hm. pose proof (Bits.pow2_pos _ Hm). destruct (align0 <? bl_minalign l) eqn:E; [auto|].
    destruct Hal as [->|H']; [apply Z.ltb_ge in E; lia|auto]. }
  assert (Hnd0 : NoDup (slots ++ [])) by (rewrite app_nil_r; auto).
  assert (Hbs0 : block_slots v lr X []) by (split; [constructor|intros ? []]).
  assert (Hmin0 : min_ok v lr (if align0 <? bl_minalign l then bl_minalign l else align0)).
  { intros l' G'. rewrite Hg in G'. injection G' as <-. destruct (align0 <? bl_minalign l) eqn:E; [lia|apply Z.ltb_ge in E; lia]. }
  pose proof (allocate_loop_inv slots v U X lr [] size _ flags sub HI Hal' Hmin0 Hnd0 Hdead Hbs0) as AL.
  destruct (allocate_loop c v lr slots [] size _ flags sub) as ((v1 & r) & done).
  destruct r as [[]|code| |]; auto.
  - destruct AL as (K1 & B1 & _ & _ & O1). split; [auto|]. destruct B1 as (Hndd & Hb1). split; [auto|].
    intros s Hs. apply Hb1. auto.
  - destruct AL as (K1 & B1 & _ & Q1 & O1).
    assert (Hsub : forall s, In s done -> In s slots) by (intros s Hs; specialize (Q1 s Hs); rewrite app_nil_r in Q1; auto).
    pose proof (unwind_loop_inv done v1 U X lr (proj1 K1) B1) as UW.
    destruct (unwind_loop c v1 lr done) as (v2 & ur). destruct ur as [[]|ucode| |]; auto; [|contradiction].
    destruct UW as (K2 & D2).
    pose proof (release_empty_since_inv v2 U X lr (bl_next l) (proj1 K2)) as RE.
    destruct (release_empty_since c v2 lr (bl_next l)) as (v3 & rr). destruct rr as [[]|rcode| |]; auto; [|contradiction].
    split.
    + eapply keptS_trans; [exact K1|]. eapply keptS_trans; [eapply keptS_weaken; [exact K2|exact Hsub]|]. apply kept_keptS. exact RE.
    + eapply dead_slots_frame with (v := v2) (S := []); [|apply RE|intros ? ? []].
      intros s Hs. destruct (in_dec Z.eq_dec s done) as [Hin|Hnin]; [apply D2; auto|].
      destruct (O1 s Hs) as [H|(Hr & Hd)]; [contradiction|]. destruct K2 as (_ & T2 & _).
      split; [destruct T2 as (E & _); lia|]. rewrite (get_alloc_frame _ _ _ _ T2); auto.
Qed.


(* memoryBlockList.Destroy *)
Lemma nodup_map_inj {A B C0} (f : A -> B) (g : A -> C0) l :
  NoDup (map f l) -> (forall x y, In x l -> In y l -> g x = g y -> f x = f y) -> NoDup (map g l).
Proof using.
  induction l as [|x l IH]; cbn; intros Hnd Hinj; [constructor|]. inversion Hnd as [|? ? Hx Hr]; subst. constructor.
  - intros Hin. apply in_map_iff in Hin. destruct Hin as (y & Ey & Hy). apply Hx. rewrite <- (Hinj y x); auto. apply in_map. exact Hy.
  - apply IH; auto.
Qed.
(* ---------------------------------------------------------------- memoryBlockList.Destroy *)

(* the guarded objects that survive the destruction of list lr *)
Definition keeper (v : vam) (X : list Z) (lr : lref) (mem : Z) (sm : SyncMem.sm) : Prop :=
  (exists lr0 l0 b0, lr0 <> lr /\ get_blist v lr0 = Some l0 /\ In b0 (bl_blocks l0) /\ bk_mem b0 = mem /\ bk_sm b0 = sm) \/
  (exists s0 a, slot_is v s0 a /\ ~ In s0 X /\ a_kind a = 2 /\ a_mem a = mem /\ a_sm a = sm).

Lemma destroy_blocks_MM v X lr ty bs : forall w,
  LogOk ms0 (v_m w) ->
  (forall mem sm, keeper v X lr mem sm -> sm_ok (m_mems (v_m w)) mem sm) ->
  (forall b0, In b0 bs -> exists d, find_mem (m_mems (v_m w)) (bk_mem b0) = Some d) ->
  (forall mem sm b0, keeper v X lr mem sm -> In b0 bs -> mem <> bk_mem b0) ->
  (forall b0, In b0 bs -> meta_is_empty (bk_meta b0) = true) -> NoDup (map bk_mem bs) ->
  let '(w', r) := destroy_blocks c w ty bs in
  match r with
  | OK _ => LogOk ms0 (v_m w') /\ (forall mem sm, keeper v X lr mem sm -> sm_ok (m_mems (v_m w')) mem sm)
  | _ => True
  end.
Proof.
  induction bs as [|b tl IH]; intros w L K F Hdis He Hnd; cbn [destroy_blocks]; [split; auto|].
  inversion Hnd as [|? ? Hx Hnd']; subst.
  destruct (destroy_block_M w ty b L (F b (or_introl eq_refl)) (He b (or_introl eq_refl))) as (L1 & E1 & _ & _). cbn zeta in *.
  destruct (destroy_block c w ty b) as (w1 & r1). cbn [fst] in *. destruct r1 as [[]|code| |]; auto.
  apply IH; auto.
  - intros mem sm Hk. rewrite E1. apply sm_ok_other_removed; [eapply Hdis; [exact Hk|left; reflexivity]|auto].
  - intros b0 H0. rewrite E1. destruct (F b0 (or_intror H0)) as (d & Hd). exists d.
    rewrite find_remove_mem_other'; [exact Hd|]. intros E. apply Hx. rewrite <- E. apply in_map. exact H0.
  - intros mem sm b0 Hk H0. eapply Hdis; [exact Hk|right; exact H0].
  - intros b0 H0. apply He. right. exact H0.
Qed.

Lemma bl_destroy_MM v U X lr :
  MM ms0 v X -> VamInvU c v U X ->
  let '(v', r) := bl_destroy c v lr in match r with OK _ => MM ms0 v' X | _ => True end.
Proof.
  intros ([B D] & L) HI. unfold bl_destroy. destruct (get_blist v lr) as [l|] eqn:Hg; [|exact I].
  destruct (existsb _ _) eqn:Eall; [exact I|].
  assert (Hall : forall b, In b (bl_blocks l) -> meta_is_empty (bk_meta b) = true).
  { intros b Hb. destruct (meta_is_empty (bk_meta b)) eqn:E; [auto|]. exfalso.
    assert (existsb (fun b => negb (meta_is_empty (bk_meta b))) (bl_blocks l) = true) by (apply existsb_exists; exists b; rewrite E; auto).
    congruence. }
  pose proof (vi_lists _ _ _ _ HI _ _ Hg) as Hwf.
  assert (Hk0 : forall mem sm, keeper v X lr mem sm -> sm_ok (m_mems (v_m v)) mem sm).
  { intros mem sm [(lr0 & l0 & b0 & _ & G0 & B0 & <- & <-)|(s0 & a & S0 & HX & K0 & <- & <-)]; eauto. }
  assert (Hdis : forall mem sm b0, keeper v X lr mem sm -> In b0 (bl_blocks l) -> mem <> bk_mem b0).
  { intros mem sm b0 [(lr0 & l0 & b1 & Hne & G0 & B0 & <- & _)|(s0 & a & S0 & HX & K0 & <- & _)] Hb0.
    - intros E. destruct (vi_block_mem_inj _ _ _ _ HI _ _ _ _ _ _ G0 B0 Hg Hb0 E) as (E2 & _). contradiction.
    - apply (vi_ded_not_block _ _ _ _ HI s0 a _ _ _ S0 K0 Hg Hb0). }
  assert (Hnd : NoDup (map bk_mem (bl_blocks l))).
  { eapply (nodup_map_inj bk_id bk_mem); [apply (bw_nodup _ _ Hwf)|]. intros x y Hx Hy E.
    destruct (vi_block_mem_inj _ _ _ _ HI _ _ _ _ _ _ Hg Hx Hg Hy E) as (_ & Eid). exact Eid. }
  assert (Hfm : forall b0, In b0 (bl_blocks l) -> exists d, find_mem (m_mems (v_m v)) (bk_mem b0) = Some d).
  { intros b0 Hb0. destruct (vi_block_mem _ _ _ _ HI _ _ _ Hg Hb0) as (d & Hf & _). eauto. }
  pose proof (destroy_blocks_MM v X lr (bl_type l) (bl_blocks l) v L Hk0 Hfm Hdis Hall Hnd) as P.
  destruct (VamInvStep.destroy_blocks_machine c (bl_blocks l) v (bl_type l)) as (m' & Em).
  destruct (destroy_blocks c v (bl_type l) (bl_blocks l)) as (v1 & r1). cbn [fst] in Em. subst v1.
  destruct r1 as [[]|code| |]; try exact I. rewrite get_blist_set_m, Hg. destruct P as (L1 & K1).
  split; [|rewrite set_blist_m; exact L1]. constructor.
  - intros lr0 l0 b0 G0 B0. rewrite set_blist_m. cbn [v_m set_m].
    assert (Hgm : get_blist (set_m v m') lr = Some l) by (rewrite get_blist_set_m; exact Hg).
    destruct (get_set_blist_cases (set_m v m') lr l _ lr0 l0 Hgm G0) as [(-> & ->)|(Hne & G)]; [destruct B0|].
    rewrite get_blist_set_m in G. apply K1. left. exists lr0, l0, b0. auto.
  - intros s a Sa HX Ka. rewrite set_blist_m. cbn [v_m set_m]. apply K1. right. exists s, a.
    split; [|auto]. unfold slot_is in *. rewrite set_blist_tab in Sa. exact Sa.
Qed.

Lemma bl_destroy_inv v U X lr :
  VamInvM v U X ->
  let '(v', r) := bl_destroy c v lr in
  match r with
  | OK _ => kept v v' U X /\ (exists l', get_blist v' lr = Some l' /\ bl_blocks l' = [])
  | ER _ => v' = v /\ exists l b, get_blist v lr = Some l /\ In b (bl_blocks l) /\ meta_is_empty (bk_meta b) = false
  | _ => True
  end.
Proof.
  intros HI. pose proof (VamAcctStep.bl_destroy_inv c Hc Hmax Hlarge v U X lr (vm_a _ _ _ HI)) as P.
  pose proof (bl_destroy_MM v U X lr (vm_m _ _ _ HI) (vm_s _ _ _ HI)) as Q.
  destruct (bl_destroy c v lr) as (v' & r). destruct r as [[]|code| |]; auto.
  destruct P as ((I1 & T1 & L1) & E). split; [|exact E]. split; [split; [exact I1|exact Q]|auto].
Qed.

Lemma create_min_blocks_inv n : forall v U X lr size,
  VamInvM v U X -> 0 <= size < 2 ^ 62 ->
  let '(v', r) := create_min_blocks c n v lr size in kept v v' U X.
Proof.
  induction n as [|k IH]; intros v U X lr size HI Hsz; cbn [create_min_blocks].
  - split; [auto|split; [apply tab_frame_refl|apply lists_frame_refl]].
  - destruct (get_blist v lr) as [l|] eqn:Hg.
    + pose proof (create_block_inv v U X lr l size HI Hg Hsz) as C.
      destruct (create_block c v lr size) as (v1 & r). destruct r; try exact C.
      specialize (IH v1 U X lr size (proj1 C) Hsz). destruct (create_min_blocks c k v1 lr size) as (v2 & r2).
      eapply kept_trans; eauto.
    + unfold create_block. rewrite Hg. split; [auto|split; [apply tab_frame_refl|apply lists_frame_refl]].
Qed.

End WithCfg.
