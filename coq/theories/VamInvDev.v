(* VamInvDev.v — what the machine-level functions of VamDev.v do to the set of live memory objects. *)
From Coq Require Import ZArith NArith List Bool Lia.
From Arsenal Require Util Bits SyncMem Budget.
From Arsenal Require Import VamDev VamBlockList VamInvMeta VamInv VamInvUpd.
Import ListNotations.
Open Scope Z_scope.

(* the live objects keep identity, type and size (mapping flags, budget, fault state, call log may change) *)
Definition mach_same (m m' : mach) : Prop := mems_same (m_mems m) (m_mems m') /\ m_next m <= m_next m'.

Lemma mach_same_refl m : mach_same m m.
Proof. split; [apply mems_same_refl|lia]. Qed.

Lemma mach_same_trans a b c : mach_same a b -> mach_same b c -> mach_same a c.
Proof. intros (H1 & H2) (H3 & H4). split; [eapply mems_same_trans; eauto|lia]. Qed.

Lemma VamInvU_mach_same c v U X m' : VamInvU c v U X -> mach_same (v_m v) m' -> VamInvU c (set_m v m') U X.
Proof. intros HI (H1 & H2). apply VamInvU_set_m; auto. Qed.

Ltac ms_triv := split; cbn; [apply mems_same_refl|lia].

Lemma mach_same_set_bud m b : mach_same m (set_bud m b).
Proof. ms_triv. Qed.
Lemma mach_same_log m k : mach_same m (log_call m k).
Proof. ms_triv. Qed.
Lemma mach_same_set_fault m f n : mach_same m (set_fault m f n).
Proof. ms_triv. Qed.
Lemma mach_same_clear m : mach_same m (clear_calls m).
Proof. ms_triv. Qed.

Lemma heap_budget_same c m h : mach_same m (fst (fst (heap_budget c m h))).
Proof.
  unfold heap_budget. destruct (Budget.heap_budget _ _ _ _) as ((b' & r) & cs). destruct r; cbn; ms_triv.
Qed.

Lemma heap_budget_full_same c m h : mach_same m (fst (heap_budget_full c m h)).
Proof.
  unfold heap_budget_full. destruct (Budget.heap_budget _ _ _ _) as ((b' & r) & cs). destruct r; cbn; ms_triv.
Qed.

Lemma add_allocation_same c m h size : mach_same m (add_allocation c m h size).
Proof. unfold add_allocation. destruct (Budget.add_alloc _ _ _ _) as ((b' & r) & cs). ms_triv. Qed.

Lemma remove_allocation_same c m h size : mach_same m (fst (remove_allocation c m h size)).
Proof. unfold remove_allocation. destruct (Budget.remove_alloc _ _ _ _) as ((b' & r) & cs). ms_triv. Qed.

Lemma dev_map_same c m id : mach_same m (fst (dev_map c m id)).
Proof.
  unfold dev_map. destruct (find_mem _ _) as [d|]; [|ms_triv].
  destruct (negb _); [ms_triv|]. destruct (_ <=? 0); [ms_triv|].
  destruct (dev_fault _ _ _) as ((f1 & fired1) & r). destruct (negb _); cbn; [ms_triv|].
  split; cbn; [apply mems_same_mapped|lia].
Qed.

Lemma dev_unmap_same m id : mach_same m (dev_unmap m id).
Proof. unfold dev_unmap. split; cbn; [apply mems_same_mapped|lia]. Qed.

Lemma sm_map_same c m mem s : mach_same m (fst (fst (sm_map c m mem s))).
Proof.
  unfold sm_map. pose proof (dev_map_same c m mem) as H. destruct (dev_map c m mem) as (m1 & code).
  destruct (SyncMem.do_map _ _ _) as ((s' & r) & cs). cbn in *. destruct cs; [ms_triv|exact H].
Qed.

Lemma sm_unmap_same m mem s : mach_same m (fst (fst (sm_unmap m mem s))).
Proof.
  unfold sm_unmap. destruct (SyncMem.do_unmap _ _) as ((s' & r) & cs). cbn. destruct cs; [ms_triv|apply dev_unmap_same].
Qed.

Lemma sm_sub_same m mem s : mach_same m (fst (sm_sub m mem s)).
Proof.
  unfold sm_sub. destruct (SyncMem.do_sub _) as ((s' & r) & cs). cbn. destruct cs; [ms_triv|apply dev_unmap_same].
Qed.

Lemma dev_flush_same m inval id off size : mach_same m (fst (dev_flush m inval id off size)).
Proof.
  unfold dev_flush. destruct (find_mem _ _); [|ms_triv].
  destruct (dev_fault _ _ _) as ((f1 & fired1) & r). ms_triv.
Qed.

Lemma heap_bytes_nonneg c ms h : Forall (fun d => 0 < dm_size d) ms -> 0 <= dev_heap_bytes c ms h.
Proof.
  induction ms as [|d ms IH]; cbn; [lia|]. intros H. inversion H; subst. specialize (IH H3). destruct (_ =? _); lia.
Qed.

(* vkAllocateMemory: either one new object with the next id, or nothing changes *)
Lemma dev_alloc_spec c m ty size ded :
  Forall (fun d => 0 < dm_size d) (m_mems m) ->
  let '(m1, code, id) := dev_alloc c m ty size ded in
  (code = 0 /\ id = m_next m + 1 /\ m_next m1 = id /\ m_mems m1 = m_mems m ++ [mkDmem id ty size false] /\
   0 < size <= heap_size c (type_heap c ty) /\ type_valid c ty = true) \/
  (code <> 0 /\ mach_same m m1).
Proof.
  intros Hpos. unfold dev_alloc. destruct (negb (type_valid c ty)) eqn:Etv; [right; split; [discriminate|ms_triv]|].
  destruct (size <=? 0) eqn:Es; [right; split; [discriminate|ms_triv]|].
  destruct (dev_fault _ _ _) as ((f1 & fired1) & r). destruct (negb (r =? 0)) eqn:Er.
  { right. split; [apply negb_true_iff in Er; apply Z.eqb_neq in Er; auto|ms_triv]. }
  cbn [set_fault m_mems m_fault m_fired m_next].
  destruct (_ && _); [right; split; [discriminate|ms_triv]|].
  destruct (heap_size c (type_heap c ty) <? _) eqn:Eh; [right; split; [discriminate|ms_triv]|].
  destruct (DEV_TABLE <=? m_next m + 1).
  { right. split; [discriminate|]. ms_triv. }
  left. cbn. apply Z.ltb_ge in Eh. apply Z.leb_gt in Es. pose proof (heap_bytes_nonneg c _ (type_heap c ty) Hpos).
  apply negb_false_iff in Etv. repeat split; auto; lia.
Qed.

Lemma alloc_vk_spec c m ty size ded :
  Forall (fun d => 0 < dm_size d) (m_mems m) ->
  let '(m', r) := alloc_vk c m ty size ded in
  match r with
  | OK id => id = m_next m + 1 /\ m_next m' = id /\ m_mems m' = m_mems m ++ [mkDmem id ty size false] /\
             0 < size <= heap_size c (type_heap c ty) /\ type_valid c ty = true
  | _ => mach_same m m'
  end.
Proof.
  intros Hpos. unfold alloc_vk. pose proof (dev_alloc_spec c m ty size ded Hpos) as D.
  destruct (dev_alloc c m ty size ded) as ((m1 & code) & id).
  unfold Budget.alloc_mem.
  destruct (Budget.maxCount _ <? _); [cbn; ms_triv|].
  match goal with |- context [match ?x with Some _ => _ | None => _ end] => destruct x as [s2|] end; [|cbn; ms_triv].
  destruct (negb (code =? 0)) eqn:Ec.
  - destruct (Budget.remove_block _ _ _) as (s3 & p). cbn.
    destruct D as [(E & _)|(_ & D)]; [subst; discriminate|].
    destruct p; cbn; (eapply mach_same_trans; [exact D|ms_triv]).
  - cbn. apply negb_false_iff in Ec. apply Z.eqb_eq in Ec. destruct D as [(_ & D)|(E & _)]; [|congruence].
    destruct D as (D1 & D2 & D3 & D4 & D5). repeat split; auto; lia.
Qed.

Lemma free_vk_spec c m ty size mem :
  m_mems (fst (free_vk c m ty size mem)) = remove_mem (m_mems m) mem /\ m_next (fst (free_vk c m ty size mem)) = m_next m.
Proof.
  unfold free_vk. destruct (Budget.free_mem _ _ _) as ((b' & r) & cs). cbn. auto.
Qed.

Lemma free_vk_no_error c m ty size mem : match snd (free_vk c m ty size mem) with ER _ => False | _ => True end.
Proof. unfold free_vk. destruct (Budget.free_mem _ _ _) as ((b' & r) & cs). cbn. destruct r; exact I. Qed.

Lemma remove_allocation_no_error c m h size : match snd (remove_allocation c m h size) with ER _ => False | _ => True end.
Proof. unfold remove_allocation. destruct (Budget.remove_alloc _ _ _ _) as ((b' & r) & cs). cbn. destruct r; exact I. Qed.

Lemma dev_map_next c m id : m_next (fst (dev_map c m id)) = m_next m.
Proof.
  unfold dev_map. destruct (find_mem _ _); [|reflexivity]. destruct (negb _); [reflexivity|]. destruct (_ <=? 0); [reflexivity|].
  destruct (dev_fault _ _ _) as ((f1 & fired1) & r). destruct (negb _); reflexivity.
Qed.

Lemma sm_map_next c m mem s : m_next (fst (fst (sm_map c m mem s))) = m_next m.
Proof.
  unfold sm_map. pose proof (dev_map_next c m mem) as H. destruct (dev_map c m mem) as (m1 & code).
  destruct (SyncMem.do_map _ _ _) as ((s' & r) & cs). cbn in *. destruct cs; auto.
Qed.

(* resources do not touch memory objects *)
Lemma dev_create_res_same m image kind req : mach_same m (fst (fst (dev_create_res m image kind req))).
Proof.
  unfold dev_create_res. destruct (dev_fault _ _ _) as ((f1 & fired1) & r). destruct (negb _); [ms_triv|].
  destruct (DEV_TABLE <=? _); ms_triv.
Qed.
Lemma dev_destroy_res_same m image id : mach_same m (dev_destroy_res m image id).
Proof. unfold dev_destroy_res. ms_triv. Qed.
Lemma dev_requirements_same m image id : mach_same m (fst (dev_requirements m image id)).
Proof. unfold dev_requirements. ms_triv. Qed.
Lemma dev_bind_same m image res mem off : mach_same m (fst (dev_bind m image res mem off)).
Proof.
  unfold dev_bind. destruct (find_res _ _); [|ms_triv]. destruct (find_mem _ _); [|ms_triv].
  destruct (dev_fault _ _ _) as ((f1 & fired1) & r). destruct (negb _); ms_triv.
Qed.
