(* VamAcctStep2.v — second pass over the allocator layer (allocator.go, dedicated_list.go, pool.go, allocation.go):
   structural + accounting invariant (VamInvA) through every API function.  Structural halves: first pass
   (VamInvStep2.v, qualified); accounting halves of the budget-touching functions: VamAcct.v; composite functions
   re-traversed (scripts follow VamInvStep2.v).  Sizes handed to the driver must be < 2^62 (domain of Budget). *)
From Coq Require Import ZArith List Bool Lia Permutation.
From Arsenal Require Import Util Budget BudgetProofs VamDev VamBlockList Vam VamInvMeta VamInv VamInvUpd VamInvDev.
From Arsenal Require Import VamInvStep VamInvStep2 VamAcct VamAcctStep.
Import ListNotations.
Open Scope Z_scope.

Section WithCfg.
Variable c : vcfg.
Hypothesis Hc : cfg_ok c.
Hypothesis Hmax : 0 <= c_maxcount c < 2147483647.
Hypothesis Hlarge : 0 <= c_large c < 2 ^ 61.
Set Default Proof Using "Hc Hmax Hlarge".

Notation VamInvA := (VamAcctStep.VamInvA c).
Notation va_s := (VamAcctStep.va_s c).
Notation va_a := (VamAcctStep.va_a c).
Notation mkA := (VamAcctStep.mkA c Hc Hmax Hlarge).
Notation VamInvA_mach_same := (VamAcctStep.VamInvA_mach_same c Hc Hmax Hlarge).
Notation bl_allocate_inv := (VamAcctStep.bl_allocate_inv c Hc Hmax Hlarge).
Notation bl_destroy_inv := (VamAcctStep.bl_destroy_inv c Hc Hmax Hlarge).
Notation create_min_blocks_inv := (VamAcctStep.create_min_blocks_inv c Hc Hmax Hlarge).
Notation free_block_slot_inv := (VamAcctStep.free_block_slot_inv c Hc Hmax Hlarge).
Notation bl_free_inv := (VamAcctStep.bl_free_inv c Hc Hmax Hlarge).
Notation put_block_same_inv := (VamAcctStep.put_block_same_inv c Hc Hmax Hlarge).
Notation kept := (VamAcctStep.kept c).
Notation keptS := (VamAcctStep.keptS c).
Notation AMc := (AM c).
Notation AInvc := (AInv c).

(* allocateDedicatedMemoryPage *)
Lemma ded_page_inv v U X lr l ty size sub doMap allowed s ded :
  VamInvA v U X -> get_blist v lr = Some l -> bl_type l = ty -> 0 <= size < 2 ^ 62 ->
  0 <= s < zlen (v_tab v) -> a_allocated (get_alloc v s) = false ->
  let '(v', r) := allocate_dedicated_page c v lr ty size sub doMap allowed s ded in
  match r with
  | OK _ => VamInvA v' (s :: U) X /\ tab_frame v v' [s] /\ lists_frame v v' /\
            exists a, slot_is v' s a /\ a_kind a = 2 /\ a_lref a = lr
  | ER _ => VamInvA v' U X /\ tab_frame v v' [s] /\ lists_frame v v' /\ a_allocated (get_alloc v' s) = false
  | _ => True
  end.
Proof.
  intros HI Hg Hty Hsz Hs Hdead.
  pose proof (VamInvStep2.ded_page_inv c v U X lr l ty size sub doMap allowed s ded (va_s _ _ _ HI) Hg Hty Hs Hdead) as P.
  pose proof (ded_page_AM c Hc Hmax Hlarge v U X lr ty size sub doMap allowed s ded (va_a _ _ _ HI) (va_s _ _ _ HI) Hsz Hs Hdead) as Q.
  destruct (allocate_dedicated_page c v lr ty size sub doMap allowed s ded) as (v' & r).
  destruct r as [[]|code| |]; auto; destruct P as (I1 & T1 & L1 & R1);
    (split; [eapply mkA; [exact HI|exact I1|exact Q|exact T1|apply lists_frame_weak; exact L1]|auto]).
Qed.

Lemma dedicated_loop_inv slots : forall v X lr l ty size sub doMap allowed done ded,
  VamInvA v done X -> get_blist v lr = Some l -> bl_type l = ty -> 0 <= size < 2 ^ 62 -> NoDup (slots ++ done) ->
  dead_slots v slots -> ded_slots v lr done ->
  let '(v', r, done') := dedicated_loop c v lr ty size sub doMap allowed slots done ded in
  match r with
  | PANIC | STUCK => True
  | _ =>
    VamInvA v' done' X /\ tab_frame v v' slots /\ lists_frame v v' /\ ded_slots v' lr done' /\ NoDup done' /\
    (forall s, In s done -> In s done') /\ (forall s, In s done' -> In s (slots ++ done)) /\
    match r with
    | OK _ => forall s, In s slots -> In s done'
    | _ => forall s, In s slots -> In s done' \/ (0 <= s < zlen (v_tab v') /\ a_allocated (get_alloc v' s) = false)
    end
  end.
Proof.
  induction slots as [|s tl IH]; intros v X lr l ty size sub doMap allowed done ded HI Hg Hty Hsz Hnd Hdead Hdone; cbn [dedicated_loop].
  - split; [auto|]. split; [apply tab_frame_refl|]. split; [apply lists_frame_refl|]. split; [auto|].
    split; [rewrite app_nil_l in Hnd; auto|]. split; [auto|]. split; [auto|]. intros ? [].
  - destruct (Hdead s (or_introl eq_refl)) as (Hr & Hd).
    pose proof (ded_page_inv v done X lr l ty size sub doMap allowed s ded HI Hg Hty Hsz Hr Hd) as P.
    destruct (allocate_dedicated_page c v lr ty size sub doMap allowed s ded) as (v1 & r).
    cbn [app] in Hnd. inversion Hnd as [|? ? Hns Hnd']; subst.
    assert (Hnd_done : NoDup done) by (apply NoDup_app_r in Hnd'; auto).
    assert (Hdone1 : tab_frame v v1 [s] -> ded_slots v1 lr done).
    { intros T. eapply ded_slots_frame; [exact Hdone|exact T|]. intros s1 H1 [<-|[]]. apply Hns. apply in_app_iff. auto. }
    assert (Hdead1 : tab_frame v v1 [s] -> dead_slots v1 tl).
    { intros T. eapply dead_slots_frame; [intros s1 H1; apply Hdead; right; exact H1|exact T|].
      intros s1 H1 [<-|[]]. apply Hns. apply in_app_iff. auto. }
    destruct r as [[]|code| |]; auto.
    + destruct P as (I1 & T1 & L1 & (a & Sa & Ka & La)).
      assert (Hnd1 : NoDup (tl ++ s :: done)).
      { eapply Permutation.Permutation_NoDup; [apply Permutation.Permutation_middle|exact Hnd]. }
      assert (Hds1 : ded_slots v1 lr (s :: done)).
      { intros x [<-|Hx]; [eauto|apply (Hdone1 T1); auto]. }
      destruct (lf_some _ _ L1 _ _ Hg) as (l1 & Hg1 & C1).
      assert (Hty1 : bl_type l1 = bl_type l) by (apply C1).
      specialize (IH v1 X lr l1 (bl_type l) size sub doMap allowed (s :: done) ded I1 Hg1 Hty1 Hsz Hnd1 (Hdead1 T1) Hds1).
      destruct (dedicated_loop c v1 lr (bl_type l) size sub doMap allowed tl (s :: done) ded) as ((v2 & r2) & done2).
      destruct r2 as [[]|code| |]; auto; destruct IH as (I2 & T2 & L2 & D2 & N2 & S2 & Q2 & O2);
        (split; [auto|]);
        (split; [eapply tab_frame_trans; [exact T1|exact T2|intros ? [<-|[]]; left; reflexivity|intros; right; auto]|]);
        (split; [eapply lists_frame_trans; eauto|]); (split; [auto|]); (split; [auto|]);
        (split; [intros x Hx; apply S2; right; auto|]);
        (split; [intros x Hx; specialize (Q2 x Hx); apply in_app_iff in Q2; destruct Q2 as [H|[<-|H]];
                 [right; apply in_app_iff; auto|left; reflexivity|right; apply in_app_iff; auto]|]).
      * intros x [<-|Hx]; [apply S2; left; reflexivity|auto].
      * intros x [<-|Hx]; [left; apply S2; left; reflexivity|auto].
    + destruct P as (I1 & T1 & L1 & D1). split; [auto|].
      split; [eapply tab_frame_weaken; [exact T1|intros ? [<-|[]]; left; reflexivity]|]. split; [auto|].
      split; [apply Hdone1; auto|]. split; [auto|]. split; [auto|].
      split; [intros x Hx; right; apply in_app_iff; auto|].
      intros x [<-|Hx]; right.
      * split; [destruct T1 as (E & _); lia|auto].
      * apply (Hdead1 T1). auto.
Qed.

(* the accounting half of the rollback loop, from facts about the start state *)
Lemma dedicated_rollback_AM done : forall v X ty,
  AMc v X -> NoDup done ->
  (forall s, In s done -> ~ In s X /\ exists a d, slot_is v s a /\ a_type a = ty /\
       find_mem (m_mems (v_m v)) (a_mem a) = Some d /\ dm_type d = a_type a /\ dm_size d = a_size a) ->
  (forall s1 s2, In s1 done -> In s2 done -> s1 <> s2 -> a_mem (get_alloc v s1) <> a_mem (get_alloc v s2)) ->
  let '(v', r) := dedicated_rollback c v ty done in
  match r with OK _ => AMc v' X | _ => True end.
Proof.
  induction done as [|s tl IH]; intros v X ty HM Hnd Hall Hinj; cbn [dedicated_rollback]; [exact HM|].
  inversion Hnd as [|? ? Hns Hnd']; subst.
  destruct (Hall s (or_introl eq_refl)) as (HX & a & d & Sa & Hty & Hf & Hdt & Hds). rewrite (get_alloc_slot _ _ _ Sa).
  pose proof (ded_release_AM c Hc Hmax Hlarge v X s a d HM Sa HX Hf Hdt Hds) as R. rewrite Hty in R.
  destruct (free_vk c (v_m v) ty (a_size a) (a_mem a)) as (m1 & fr). destruct R as (-> & R).
  destruct (remove_allocation c m1 (type_heap c ty) (a_size a)) as (m2 & rr). destruct R as (-> & R1 & R2).
  set (v1 := set_alloc (set_m v m2) s (set_allocated a false)).
  assert (HM1 : AMc v1 X) by (apply (AM_unmark c Hc Hmax Hlarge); [exact R1|reflexivity]).
  apply IH; auto.
  - intros s' Hs'. destruct (Hall s' (or_intror Hs')) as (HX' & a' & d' & Sa' & Hty' & Hf' & Hdt' & Hds').
    assert (Hne : s' <> s) by (intros ->; contradiction).
    split; [auto|]. exists a', d'. split; [|split; [auto|split; [|auto]]].
    + unfold v1. apply slot_is_set_alloc_other; [auto|]. apply slot_is_set_m. exact Sa'.
    + unfold v1. cbn [set_alloc set_tab v_m set_m]. rewrite R2. rewrite find_remove_mem_other; [exact Hf'|].
      specialize (Hinj s' s (or_intror Hs') (or_introl eq_refl) Hne).
      rewrite (get_alloc_slot _ _ _ Sa'), (get_alloc_slot _ _ _ Sa) in Hinj. auto.
  - intros s1 s2 H1 H2 Hne. unfold v1.
    assert (s1 <> s) by (intros ->; contradiction). assert (s2 <> s) by (intros ->; contradiction).
    rewrite !(get_alloc_set_other (set_m v m2) s) by auto. apply Hinj; auto; right; auto.
Qed.

Lemma dedicated_rollback_inv done : forall v X lr l ty,
  VamInvA v done X -> get_blist v lr = Some l -> bl_type l = ty -> NoDup done -> ded_slots v lr done ->
  let '(v', r) := dedicated_rollback c v ty done in
  match r with
  | OK _ => VamInvA v' [] X /\ tab_frame v v' done /\ lists_frame v v' /\ dead_slots v' done
  | ER _ => False
  | _ => True
  end.
Proof.
  intros v X lr l ty HI Hg Hty Hnd Hds.
  pose proof (VamInvStep2.dedicated_rollback_inv c done v X lr ty (va_s _ _ _ HI) Hnd Hds) as P.
  assert (Hfacts : forall s, In s done -> ~ In s X /\ exists a, slot_is v s a /\ a_kind a = 2 /\ a_type a = ty /\
             exists d, find_mem (m_mems (v_m v)) (a_mem a) = Some d /\ dm_type d = a_type a /\ dm_size d = a_size a).
  { intros s Hs. destruct (Hds s Hs) as (a & Sa & Ka & La).
    assert (HX : ~ In s X).
    { intros Hi. destruct (vi_dang _ _ _ _ (va_s _ _ _ HI) _ Hi) as (a2 & S2 & K2). assert (a2 = a) by (destruct S2, Sa; congruence). subst. congruence. }
    split; [auto|]. exists a. split; [auto|]. split; [auto|].
    destruct (vi_slots _ _ _ _ (va_s _ _ _ HI) s a Sa HX) as [(K & _)|(_ & _ & (l2 & Hg2 & Ht2) & Hdev)]; [congruence|].
    split; [|exact Hdev]. rewrite La in Hg2. congruence. }
  pose proof (dedicated_rollback_AM done v X ty (AInv_AM c Hc Hmax Hlarge _ _ (va_a _ _ _ HI)) Hnd) as Q.
  match type of Q with ?A -> ?B -> _ => assert (HA : A); [|assert (HB : B)] end.
  { intros s Hs. destruct (Hfacts s Hs) as (HX & a & Sa & _ & Ht & d & Hd). split; [auto|]. exists a, d. tauto. }
  { intros s1 s2 H1 H2 Hne E. destruct (Hfacts s1 H1) as (_ & a1 & S1 & K1 & _). destruct (Hfacts s2 H2) as (_ & a2 & S2 & K2 & _).
    rewrite (get_alloc_slot _ _ _ S1), (get_alloc_slot _ _ _ S2) in E.
    apply Hne. eapply (vi_ded_inj _ _ _ _ (va_s _ _ _ HI)); eauto. }
  specialize (Q HA HB).
  destruct (dedicated_rollback c v ty done) as (v' & r). destruct r as [[]|code| |]; auto.
  destruct P as (I1 & T1 & L1 & D1). split; [|auto].
  eapply mkA; [exact HI|exact I1|exact Q|exact T1|apply lists_frame_weak; exact L1].
Qed.

(* result of an allocation over the caller's objects [slots] (no pending registrations) *)
Definition alloc_post (v v' : vam) (X slots : list Z) (r : out unit) : Prop :=
  match r with
  | OK _ => VamInvA v' [] X /\ tab_frame v v' slots /\ lists_frame' v v' /\
            forall s, In s slots -> exists a, slot_is v' s a
  | ER _ => VamInvA v' [] X /\ tab_frame v v' slots /\ lists_frame' v v' /\ dead_slots v' slots
  | _ => True
  end.

Lemma allocate_dedicated_inv v X lr l ty size sub doMap allowed slots ded :
  VamInvA v [] X -> get_blist v lr = Some l -> bl_type l = ty -> 0 <= size < 2 ^ 62 -> NoDup slots -> dead_slots v slots ->
  let '(v', r) := allocate_dedicated c v lr ty size sub doMap allowed slots ded in alloc_post v v' X slots r.
Proof.
  intros HI Hg Hty Hsz Hnd Hdead. unfold allocate_dedicated. destruct slots as [|s0 tl0] eqn:Eslots; [exact I|]. rewrite <- Eslots in *.
  assert (Hnd0 : NoDup (slots ++ [])) by (rewrite app_nil_r; auto).
  assert (Hds0 : ded_slots v lr []) by (intros ? []).
  pose proof (dedicated_loop_inv slots v X lr l ty size sub doMap allowed [] ded HI Hg Hty Hsz Hnd0 Hdead Hds0) as DL.
  destruct (dedicated_loop c v lr ty size sub doMap allowed slots [] ded) as ((v1 & r) & done).
  destruct r as [[]|code| |]; auto.
  - destruct DL as (I1 & T1 & L1 & D1 & N1 & _ & Q1 & O1). cbn [alloc_post].
    destruct (lf_some _ _ L1 _ _ Hg) as (l1 & Hg1 & _).
    set (v2 := set_dedlist v1 lr (get_dedlist v1 lr ++ slots)).
    assert (Hlen : length (v_ded v1) = length (v_lists v1)).
    { rewrite (vi_ded_len _ _ _ _ (va_s _ _ _ I1)), (vi_lists_len _ _ _ _ (va_s _ _ _ I1)). reflexivity. }
    assert (I2 : VamInvA v2 [] X).
    { split; [|apply (AInv_lists c Hc Hmax Hlarge v1 X v2 (va_a _ _ _ I1)); [apply set_dedlist_m|apply set_dedlist_tab|
               intros lr0 l0 H0; unfold v2 in H0; rewrite get_blist_set_dedlist in H0; eapply (ai_pref _ _ _ (va_a _ _ _ I1)); eauto]].
      apply (VamInvU_register c v1 v2 done slots X lr (va_s _ _ _ I1) Hnd).
      - intros x. split; [auto|]. intros Hx. specialize (Q1 x Hx). rewrite app_nil_r in Q1. auto.
      - intros x Hx. destruct (D1 x Hx) as (a & Sa & _ & La). rewrite (get_alloc_slot _ _ _ Sa). auto.
      - intros. apply get_blist_set_dedlist.
      - apply set_dedlist_tab.
      - apply set_dedlist_m.
      - unfold v2. rewrite set_dedlist_lists. reflexivity.
      - apply set_dedlist_ded_len.
      - apply set_dedlist_uids.
      - apply set_dedlist_pids.
      - apply set_dedlist_next_uid.
      - apply set_dedlist_next_pid.
      - eapply get_dedlist_set_dedlist_same; eauto.
      - intros. apply get_dedlist_set_dedlist_other. auto. }
    split; [auto|]. split; [eapply tab_frame_trans_same; [exact T1|apply tab_frame_set_dedlist]|].
    split; [eapply lists_frame'_trans; [apply lists_frame_weak; exact L1|apply lists_frame'_set_dedlist]|].
    intros x Hx. destruct (D1 x (O1 x Hx)) as (a & Sa & _). exists a. unfold slot_is, v2. rewrite set_dedlist_tab. exact Sa.
  - destruct DL as (I1 & T1 & L1 & D1 & N1 & _ & Q1 & O1).
    destruct (lf_some _ _ L1 _ _ Hg) as (l1 & Hg1 & C1).
    pose proof (dedicated_rollback_inv done v1 X lr l1 ty I1 Hg1 ltac:(destruct C1 as (C1 & _); congruence) N1 D1) as RB.
    destruct (dedicated_rollback c v1 ty done) as (v2 & rr). destruct rr as [[]|rcode| |]; auto; [|contradiction].
    destruct RB as (I2 & T2 & L2 & D2). cbn [alloc_post].
    assert (Hsub : forall x, In x done -> In x slots) by (intros x Hx; specialize (Q1 x Hx); rewrite app_nil_r in Q1; auto).
    split; [auto|]. split; [eapply tab_frame_trans; [exact T1|exact T2|auto|exact Hsub]|].
    split; [apply lists_frame_weak; eapply lists_frame_trans; eauto|].
    intros x Hx. destruct (in_dec Z.eq_dec x done) as [Hin|Hnin]; [apply D2; auto|].
    destruct (O1 x Hx) as [H|(Hr & Hd)]; [contradiction|].
    split; [destruct T2 as (E & _); lia|]. rewrite (get_alloc_frame _ _ _ _ T2); auto.
Qed.

Lemma alloc_post_trans_fail v0 v1 v2 X slots code :
  VamInvA v1 [] X -> tab_frame v0 v1 slots -> lists_frame' v0 v1 ->
  alloc_post v1 v2 X slots (ER code) -> alloc_post v0 v2 X slots (ER code).
Proof.
  intros I T L (A & B & C & D). cbn. split; [auto|]. split; [eapply tab_frame_trans_same; eauto|].
  split; [eapply lists_frame'_trans; eauto|auto].
Qed.

Lemma alloc_post_pre v0 v1 v2 X slots r :
  tab_frame v0 v1 slots -> lists_frame' v0 v1 -> alloc_post v1 v2 X slots r -> alloc_post v0 v2 X slots r.
Proof.
  intros T L P. destruct r as [[]|code| |]; cbn in *; auto; destruct P as (A & B & C & D);
    (split; [auto|]; split; [eapply tab_frame_trans_same; eauto|]; split; [eapply lists_frame'_trans; eauto|auto]).
Qed.

Lemma calc_type_params_spec v ty size count flags :
  let '(v1, fr) := calc_type_params c v ty size count flags in
  exists m1, v1 = set_m v m1 /\ mach_sameA c (v_m v) m1 /\
    match fr with
    | OK f => f = (if fl flags F_MAPPED && negb (host_visible c ty) then fl_clear flags F_MAPPED else flags)
    | ER _ => True
    | _ => False
    end.
Proof.
  unfold calc_type_params. destruct (_ && fl _ F_BUDGET).
  - pose proof (heap_budget_sameA c Hc Hmax Hlarge (v_m v) (type_heap c ty)) as H.
    destruct (heap_budget c (v_m v) (type_heap c ty)) as ((m1 & usage) & budget). cbn [fst] in H.
    destruct (budget <? _); exists m1; auto.
  - exists (v_m v). split; [destruct v; reflexivity|]. split; [apply (mach_sameA_refl c Hc Hmax Hlarge)|reflexivity].
Qed.

(* allocateMemoryOfType *)
Lemma alloc_of_type_inv v X lr l ty size align dedPref flags sub slots ded :
  VamInvA v [] X -> get_blist v lr = Some l -> bl_type l = ty -> 0 <= size < 2 ^ 62 -> align = 0 \/ Bits.pow2 align ->
  NoDup slots -> dead_slots v slots ->
  let '(v', r) := alloc_of_type c v lr ty size align dedPref flags sub slots ded in alloc_post v v' X slots r.
Proof.
  intros HI Hg Hty Hsz Hal Hnd Hdead. unfold alloc_of_type. destruct slots as [|s0 tl0] eqn:Eslots; [exact I|]. rewrite <- Eslots in *.
  rewrite Hg.
  (* calculateMemoryTypeParameters *)
  set (f1 := if fl flags F_MAPPED && negb (host_visible c ty) then fl_clear flags F_MAPPED else flags).
  pose proof (calc_type_params_spec v ty size (zlen slots) flags) as Hctp. fold f1 in Hctp.
  destruct (calc_type_params c v ty size (zlen slots) flags) as (v1 & fr).
  destruct Hctp as (m1 & -> & Hm1 & Hfr).
  assert (I1 : VamInvA (set_m v m1) [] X) by (apply VamInvA_mach_same; auto).
  assert (T1 : tab_frame v (set_m v m1) slots) by apply tab_frame_set_m.
  assert (L1 : lists_frame' v (set_m v m1)) by (apply lists_frame_weak; apply lists_frame_set_m).
  assert (Hg1 : get_blist (set_m v m1) lr = Some l) by (rewrite get_blist_set_m; auto).
  assert (Hdead1 : dead_slots (set_m v m1) slots) by exact Hdead.
  destruct fr as [flags'|code| |]; try contradiction.
  2:{ cbn. split; [auto|]. split; [auto|]. split; auto. }
  subst flags'.
  assert (Hded : forall w, VamInvA w [] X -> tab_frame v w slots -> lists_frame' v w -> get_blist w lr = Some l -> dead_slots w slots ->
            let '(v', r) := allocate_dedicated c w lr ty size sub (fl f1 F_MAPPED) (mapping_allowed f1) slots ded in alloc_post v v' X slots r).
  { intros w Iw Tw Lw Hgw Hdw. pose proof (allocate_dedicated_inv w X lr l ty size sub (fl f1 F_MAPPED) (mapping_allowed f1) slots ded Iw Hgw Hty Hsz Hnd Hdw) as P.
    destruct (allocate_dedicated c w lr ty size sub (fl f1 F_MAPPED) (mapping_allowed f1) slots ded) as (v' & r).
    eapply alloc_post_pre; eauto. }
  destruct (fl f1 F_DEDICATED); [apply Hded; auto|].
  set (canDed := negb (fl f1 F_NEVER) && (negb match lr with LPool _ => true | LDef _ => false end || negb (bl_explicit l))).
  match goal with |- context [if canDed then ?x else dedPref] => set (dp := if canDed then x else dedPref) end.
  (* the preferred dedicated attempt *)
  assert (Hearly : let '(v2, early) :=
            (if canDed && dp then
               let '(v', r) := allocate_dedicated c (set_m v m1) lr ty size sub (fl f1 F_MAPPED) (mapping_allowed f1) slots ded in
               match r with OK _ => (v', Some (OK tt)) | ER _ => (v', None) | other => (v', Some other) end
             else (set_m v m1, None)) in
          match early with
          | Some r => alloc_post v v2 X slots r
          | None => VamInvA v2 [] X /\ tab_frame v v2 slots /\ lists_frame' v v2 /\ dead_slots v2 slots /\
                    exists l2, get_blist v2 lr = Some l2 /\ bl_type l2 = ty
          end).
  { destruct (canDed && dp).
    - specialize (Hded (set_m v m1) I1 T1 L1 Hg1 Hdead1).
      destruct (allocate_dedicated c (set_m v m1) lr ty size sub (fl f1 F_MAPPED) (mapping_allowed f1) slots ded) as (v' & r).
      destruct r as [[]|code| |]; auto. destruct Hded as (A & B & C & D). split; [auto|]. split; [auto|]. split; [auto|]. split; [auto|].
      destruct (lf'_some _ _ C _ _ Hg) as (l2 & G2 & C2). exists l2. split; [auto|]. destruct C2 as (C2 & _). congruence.
    - split; [auto|]. split; [auto|]. split; [auto|]. split; [auto|]. exists l. auto. }
  destruct (if canDed && dp then _ else _) as (v2 & early).
  destruct early as [r|]; [exact Hearly|].
  destruct Hearly as (I2 & T2 & L2 & D2 & l2 & G2 & Ty2).
  pose proof (bl_allocate_inv v2 [] X lr slots size align f1 sub I2 Hal Hnd D2) as BA.
  destruct (bl_allocate c v2 lr slots size align f1 sub) as (v3 & br).
  destruct br as [[]|bcode| |]; auto.
  - destruct BA as ((A & B & C) & (_ & D)). cbn. split; [auto|]. split; [eapply tab_frame_trans_same; eauto|].
    split; [eapply lists_frame'_trans; [exact L2|apply lists_frame_weak; exact C]|].
    intros x Hx. destruct (D x Hx) as (_ & a & Sa & _). eauto.
  - destruct BA as ((A & B & C) & D).
    assert (T3 : tab_frame v v3 slots) by (eapply tab_frame_trans_same; eauto).
    assert (L3 : lists_frame' v v3) by (eapply lists_frame'_trans; [exact L2|apply lists_frame_weak; exact C]).
    destruct (canDed && negb dp).
    + pose proof (heap_budget_sameA c Hc Hmax Hlarge (v_m v3) (type_heap c ty)) as H.
      destruct (heap_budget c (v_m v3) (type_heap c ty)) as ((m4 & usage) & budget). cbn [fst] in H.
      assert (I4 : VamInvA (set_m v3 m4) [] X) by (apply VamInvA_mach_same; auto).
      destruct (budget <? _).
      * cbn. split; [auto|]. split; [eapply tab_frame_trans_same; [exact T3|apply tab_frame_set_m]|].
        split; [eapply lists_frame'_trans; [exact L3|apply lists_frame_weak; apply lists_frame_set_m]|exact D].
      * destruct (lf_some _ _ C _ _ G2) as (l3 & G3 & C3).
        pose proof (allocate_dedicated_inv (set_m v3 m4) X lr l3 ty size sub (fl f1 F_MAPPED) (mapping_allowed f1) slots ded I4
                      ltac:(rewrite get_blist_set_m; exact G3) ltac:(destruct C3 as (C3 & _); congruence) Hsz Hnd D) as P.
        destruct (allocate_dedicated c (set_m v3 m4) lr ty size sub (fl f1 F_MAPPED) (mapping_allowed f1) slots ded) as (v5 & r5).
        eapply alloc_post_pre; [| |exact P].
        -- eapply tab_frame_trans_same; [exact T3|apply tab_frame_set_m].
        -- eapply lists_frame'_trans; [exact L3|apply lists_frame_weak; apply lists_frame_set_m].
    + cbn. split; [auto|]. split; [auto|]. split; auto.
Qed.

Lemma type_loop_inv fuel : forall v X bits ty size align dedPref usage flags req pref ctb sub slots ded bufimg,
  VamInvA v [] X -> 0 <= size < 2 ^ 62 -> align = 0 \/ Bits.pow2 align -> NoDup slots -> dead_slots v slots ->
  let '(v', r) := type_loop c fuel v bits ty size align dedPref usage flags req pref ctb sub slots ded bufimg in
  alloc_post v v' X slots r.
Proof.
  induction fuel as [|f IH]; intros v X bits ty size align dedPref usage flags req pref ctb sub slots ded bufimg HI Hsz Hal Hnd Hdead;
    cbn [type_loop]; [exact I|].
  assert (Hfail : forall code, alloc_post v v X slots (ER code)).
  { intros code. cbn. split; [auto|]. split; [apply tab_frame_refl|]. split; [apply lists_frame'_refl|auto]. }
  destruct (get_blist v (LDef ty)) as [l|] eqn:Hg; [|apply Hfail].
  pose proof (alloc_of_type_inv v X (LDef ty) l ty size align dedPref flags sub slots ded HI Hg (vi_def_type _ _ _ _ (va_s _ _ _ HI) _ _ Hg) Hsz Hal Hnd Hdead) as P.
  destruct (alloc_of_type c v (LDef ty) ty size align dedPref flags sub slots ded) as (v1 & r).
  destruct r as [[]|code| |]; auto.
  destruct (code =? VK_UNKNOWN); [exact P|].
  destruct P as (I1 & T1 & L1 & D1).
  destruct (find_type_index c (v_global v1) _ usage flags req pref ctb bufimg) as [ty'|].
  - specialize (IH v1 X (Z.land bits (Z.lnot (Z.shiftl 1 ty))) ty' size align dedPref usage flags req pref ctb sub slots ded bufimg I1 Hsz Hal Hnd D1).
    destruct (type_loop c f v1 _ ty' size align dedPref usage flags req pref ctb sub slots ded bufimg) as (v2 & r2).
    eapply alloc_post_pre; eauto.
  - cbn. split; [auto|]. split; [auto|]. split; auto.
Qed.

Lemma multi_allocate_inv v X size align typeBits reqDed prefDed ded bufimg usage flags0 req pref ctb pool sub slots :
  VamInvA v [] X -> size < 2 ^ 62 -> NoDup slots -> dead_slots v slots ->
  let '(v', r) := multi_allocate c v size align typeBits reqDed prefDed ded bufimg usage flags0 req pref ctb pool sub slots in
  alloc_post v v' X slots r.
Proof.
  intros HI Hsz0 Hnd Hdead. unfold multi_allocate.
  assert (Hfail : forall code, alloc_post v v X slots (ER code)).
  { intros code. cbn. split; [auto|]. split; [apply tab_frame_refl|]. split; [apply lists_frame'_refl|auto]. }
  destruct (is_pow2_or_zero align) eqn:Ea; cbn [negb]; [|apply Hfail].
  pose proof (pow2_or_zero_spec _ Ea) as Hal.
  destruct (size <? 1) eqn:Es1; [apply Hfail|]. assert (Hsz : 0 <= size < 2 ^ 62) by (apply Z.ltb_ge in Es1; lia).
  destruct (calc_params usage flags0 reqDed _) as [flags|code| |]; [|apply Hfail|exact I|exact I].
  destruct pool as [uid|].
  - destruct (get_blist v (LPool uid)) as [l|] eqn:Hg; [|exact I].
    apply (alloc_of_type_inv v X (LPool uid) l); auto.
  - destruct (find_type_index c (v_global v) typeBits usage flags req pref ctb bufimg) as [ty|]; [|apply Hfail].
    apply type_loop_inv; auto.
Qed.

(* AllocateMemory / AllocateMemorySlice into objects that are not allocated *)
Lemma allocate_memory_inv v X slot size align typeBits usage flags req pref ctb pool :
  VamInvA v [] X -> size < 2 ^ 62 -> 0 <= slot < zlen (v_tab v) ->
  let '(v', r) := allocate_memory c v slot size align typeBits usage flags req pref ctb pool in
  match r with
  | OK _ => VamInvA v' [] X /\ tab_frame v v' [slot] /\ lists_frame' v v' /\ exists a, slot_is v' slot a
  | ER _ => VamInvA v' [] X /\ tab_frame v v' [slot] /\ lists_frame' v v' /\
            a_allocated (get_alloc v' slot) = a_allocated (get_alloc v slot)
  | _ => True
  end.
Proof.
  intros HI Hsz Hr. unfold allocate_memory. destruct (a_allocated (get_alloc v slot)) eqn:Ea.
  - split; [auto|]. split; [apply tab_frame_refl|]. split; [apply lists_frame'_refl|auto].
  - assert (Hnd : NoDup [slot]) by (constructor; [intros []|constructor]).
    assert (Hdead : dead_slots v [slot]) by (intros s [<-|[]]; auto).
    pose proof (multi_allocate_inv v X size align typeBits false false 0 None usage flags req pref ctb pool 1 [slot] HI Hsz Hnd Hdead) as P.
    destruct (multi_allocate c v size align typeBits false false 0 None usage flags req pref ctb pool 1 [slot]) as (v' & r).
    destruct r as [[]|code| |]; auto; destruct P as (A & B & C & D); (split; [auto|]; split; [auto|]; split; [auto|]).
    + apply D. left. reflexivity.
    + apply D. left. reflexivity.
Qed.

Lemma allocate_memory_slice_inv v X slot n size align typeBits usage flags req pref ctb pool :
  VamInvA v [] X -> size < 2 ^ 62 -> 0 <= slot -> slot + n <= zlen (v_tab v) ->
  let '(v', r) := allocate_memory_slice c v slot n size align typeBits usage flags req pref ctb pool in
  let slots := slot_range slot (Z.to_nat n) in
  match r with
  | OK _ => VamInvA v' [] X /\ tab_frame v v' slots /\ lists_frame' v v' /\ forall s, In s slots -> exists a, slot_is v' s a
  | ER _ => VamInvA v' [] X /\ tab_frame v v' slots /\ lists_frame' v v' /\
            forall s, In s slots -> a_allocated (get_alloc v' s) = a_allocated (get_alloc v s)
  | _ => True
  end.
Proof.
  intros HI Hsz H0 Hn. unfold allocate_memory_slice. cbn zeta.
  destruct (slot_range_nodup (Z.to_nat n) slot) as (Hnd & Hrange).
  set (slots := slot_range slot (Z.to_nat n)) in *.
  assert (Hrefl : VamInvA v [] X /\ tab_frame v v slots /\ lists_frame' v v) by (split; [auto|split; [apply tab_frame_refl|apply lists_frame'_refl]]).
  destruct slots as [|s0 tl] eqn:Es.
  - destruct Hrefl as (A & B & C). split; [auto|]. split; [auto|]. split; [auto|]. intros ? [].
  - rewrite <- Es in *. destruct (existsb _ slots) eqn:Eex.
    + destruct Hrefl as (A & B & C). split; [auto|]. split; [auto|]. split; auto.
    + assert (Hdead : dead_slots v slots).
      { intros s Hs. split.
        - specialize (Hrange s Hs). destruct n as [|p|p]; [cbn in Hrange; lia|rewrite Z2Nat.id in Hrange by lia; lia|cbn in Hrange; lia].
        - destruct (a_allocated (get_alloc v s)) eqn:E; [|reflexivity]. exfalso.
          assert (existsb (fun s => a_allocated (get_alloc v s)) slots = true) by (apply existsb_exists; exists s; auto). congruence. }
      pose proof (multi_allocate_inv v X size align typeBits false false 0 None usage flags req pref ctb pool 1 slots HI Hsz Hnd Hdead) as P.
      destruct (multi_allocate c v size align typeBits false false 0 None usage flags req pref ctb pool 1 slots) as (v' & r).
      destruct r as [[]|code| |]; auto. destruct P as (A & B & C & D). split; [auto|]. split; [auto|]. split; [auto|].
      intros s Hs. destruct (D s Hs) as (_ & E). rewrite E. symmetry. apply Hdead. auto.
Qed.

(* ---------------------------------------------------------------- freeing *)


(* ---------------------------------------------------------------- freeing *)

Lemma free_ded_slot_inv v X s a :
  VamInvA v [] X -> slot_is v s a -> a_kind a = 2 ->
  let '(v', r) := free_dedicated c v s in
  match r with
  | OK _ => let v2 := set_alloc v' s (set_allocated (get_alloc v' s) false) in
            VamInvA v2 [] X /\ tab_frame v v2 [s] /\ lists_frame' v v2 /\ a_allocated (get_alloc v2 s) = false
  | ER _ => False
  | _ => True
  end.
Proof.
  intros HI Sa Ka. pose proof (VamInvStep2.free_ded_slot_inv c v X s a (va_s _ _ _ HI) Sa Ka) as P.
  assert (HnX : ~ In s X).
  { intros Hi. destruct (vi_dang _ _ _ _ (va_s _ _ _ HI) _ Hi) as (a2 & S2 & K2). assert (a2 = a) by (destruct S2, Sa; congruence). subst. congruence. }
  assert (Q : let '(v', r) := free_dedicated c v s in match r with OK _ => AMc v' (s :: X) | _ => True end).
  { unfold free_dedicated. rewrite (get_alloc_slot _ _ _ Sa). rewrite Ka. cbn [Z.eqb negb Pos.eqb].
    destruct (vi_slots _ _ _ _ (va_s _ _ _ HI) s a Sa HnX) as [(K & _)|(_ & _ & _ & d & Hf & Hdt & Hds)]; [congruence|].
    set (v1 := set_dedlist v (a_lref a) (Util.remove_z s (get_dedlist v (a_lref a)))).
    assert (HM1 : AMc v1 X).
    { eapply (AM_tab c Hc Hmax Hlarge); [apply (AInv_AM c Hc Hmax Hlarge); apply (va_a _ _ _ HI)|apply set_dedlist_tab|unfold v1; rewrite set_dedlist_m; apply (mach_sameA_refl c Hc Hmax Hlarge)]. }
    assert (Sa1 : slot_is v1 s a) by (unfold slot_is, v1; rewrite set_dedlist_tab; exact Sa).
    pose proof (ded_release_AM c Hc Hmax Hlarge v1 X s a d HM1 Sa1 HnX ltac:(unfold v1; rewrite set_dedlist_m; exact Hf) Hdt Hds) as R.
    destruct (free_vk c (v_m v1) (a_type a) (a_size a) (a_mem a)) as (m1 & fr). destruct R as (-> & R).
    destruct (remove_allocation c m1 (type_heap c (a_type a)) (a_size a)) as (m2 & rr). destruct R as (-> & R1 & _). exact R1. }
  destruct (free_dedicated c v s) as (v' & r). destruct r as [[]|code| |]; auto.
  cbn zeta in *. destruct P as (I1 & T1 & L1 & D1). split; [|auto].
  eapply mkA; [exact HI|exact I1| |exact T1|exact L1]. apply (AM_unmark c Hc Hmax Hlarge); [exact Q|reflexivity].
Qed.

Lemma multi_free_inv slots : forall v X,
  VamInvA v [] X -> NoDup slots -> live_slots v X slots ->
  let '(v', r) := multi_free c v slots in
  match r with
  | OK _ => VamInvA v' [] X /\ tab_frame v v' slots /\ lists_frame' v v' /\ dead_slots v' slots
  | ER _ => VamInvA v' [] X /\ tab_frame v v' slots /\ lists_frame' v v'
  | _ => True
  end.
Proof.
  induction slots as [|s tl IH]; intros v X HI Hnd Hlive; cbn [multi_free].
  - split; [auto|]. split; [apply tab_frame_refl|]. split; [apply lists_frame'_refl|intros ? []].
  - inversion Hnd as [|? ? Hns Hnd']; subst.
    destruct (Hlive s (or_introl eq_refl)) as (HnX & a & Sa).
    assert (Hstep : let '(v1, r) := free_single c v s in
              match r with
              | OK _ => let v2 := set_alloc v1 s (set_allocated (get_alloc v1 s) false) in
                        VamInvA v2 [] X /\ tab_frame v v2 [s] /\ lists_frame' v v2 /\ a_allocated (get_alloc v2 s) = false
              | ER _ => VamInvA v1 [] X /\ tab_frame v v1 [s] /\ lists_frame' v v1
              | _ => True end).
    { unfold free_single. rewrite (get_alloc_slot _ _ _ Sa).
      destruct (vi_slots _ _ _ _ (va_s _ _ _ HI) s a Sa HnX) as [(K & _)|(K & _)]; rewrite K; cbn [Z.eqb Pos.eqb].
      - pose proof (free_block_slot_inv v [] X s a false HI Sa HnX K) as F.
        destruct (bl_free c v (a_lref a) s false) as (v1 & r). destruct r as [[]|code| |]; auto.
        + destruct F as ((A & B & C) & D). cbn zeta. split; [auto|]. split; [auto|]. split; [apply lists_frame_weak; auto|auto].
        + destruct F as (A & B & C). split; [auto|]. split; [eapply tab_frame_weaken; [exact B|intros ? []]|apply lists_frame_weak; auto].
      - pose proof (free_ded_slot_inv v X s a HI Sa K) as F.
        destruct (free_dedicated c v s) as (v1 & r). destruct r as [[]|code| |]; auto. contradiction. }
    destruct (free_single c v s) as (v1 & r). destruct r as [[]|code| |]; auto.
    + cbn zeta in Hstep. set (v2 := set_alloc v1 s (set_allocated (get_alloc v1 s) false)) in *.
      destruct Hstep as (I2 & T2 & L2 & D2).
      assert (Hlive2 : live_slots v2 X tl).
      { intros x Hx. destruct (Hlive x (or_intror Hx)) as (HX & b & Sb). split; [auto|]. exists b.
        apply (slot_is_frame _ _ _ _ _ T2); auto. intros [<-|[]]. contradiction. }
      specialize (IH v2 X I2 Hnd' Hlive2). destruct (multi_free c v2 tl) as (v3 & r3).
      destruct r3 as [[]|code| |]; auto.
      * destruct IH as (I3 & T3 & L3 & D3). split; [auto|].
        split; [eapply tab_frame_trans; [exact T2|exact T3|intros ? [<-|[]]; left; reflexivity|intros; right; auto]|].
        split; [eapply lists_frame'_trans; eauto|].
        intros x [<-|Hx]; [|apply D3; auto].
        split; [destruct T3 as (E & _); destruct T2 as (E2 & _); rewrite E, E2; eapply slot_is_range; eauto|].
        rewrite (get_alloc_frame _ _ _ _ T3); auto.
      * destruct IH as (I3 & T3 & L3). split; [auto|].
        split; [eapply tab_frame_trans; [exact T2|exact T3|intros ? [<-|[]]; left; reflexivity|intros; right; auto]|eapply lists_frame'_trans; eauto].
    + destruct Hstep as (A & B & C). split; [auto|]. split; [eapply tab_frame_weaken; [exact B|intros ? [<-|[]]; left; reflexivity]|auto].
Qed.


(* ---------------------------------------------------------------- Map / Unmap / Flush *)

Lemma allocs_truth_set_key v X s a' :
  a_allocated a' = a_allocated (get_alloc v s) -> a_type a' = a_type (get_alloc v s) -> a_size a' = a_size (get_alloc v s) ->
  0 <= s < zlen (v_tab v) -> allocs_truth c (set_alloc v s a') X = allocs_truth c v X.
Proof.
  intros E1 E2 E3 Hs. apply (allocs_truth_ext c Hc Hmax Hlarge); [apply zlen_set_alloc|]. intros s' _.
  destruct (Z.eq_dec s' s) as [->|Hne].
  - unfold contrib. rewrite get_alloc_set_same by auto. rewrite E1, E2, E3. reflexivity.
  - apply (contrib_same c Hc Hmax Hlarge); [apply get_alloc_set_other; auto|tauto].
Qed.

Lemma sm_update_inv v X s a m' sm' :
  VamInvA v [] X -> slot_is v s a -> ~ In s X -> mach_sameA c (v_m v) m' ->
  (a_kind a = 1 -> forall b, get_block v (a_lref a) (a_blk a) = Some b ->
     let v' := put_block (set_m v m') (a_lref a) (mkBlock (bk_id b) (bk_mem b) sm' (bk_meta b)) in
     VamInvA v' [] X /\ tab_frame v v' [] /\ lists_frame v v') /\
  (a_kind a = 2 ->
     let v' := set_alloc (set_m v m') s (set_a_sm a sm') in
     VamInvA v' [] X /\ tab_frame v v' [s] /\ lists_frame v v').
Proof.
  intros HI Sa HnX Hm. pose proof (VamInvA_mach_same _ _ _ _ HI Hm) as I1. split.
  - intros K b Hgb. destruct (get_block_in _ _ _ _ Hgb) as (l & Hg & Hb & Hid).
    assert (Hg1 : get_blist (set_m v m') (a_lref a) = Some l) by (rewrite get_blist_set_m; auto).
    pose proof (vi_lists _ _ _ _ (va_s _ _ _ HI) _ _ Hg) as Hwf. pose proof (bw_meta _ _ Hwf) as Hmeta. rewrite Forall_forall in Hmeta.
    destruct (put_block_same_inv (set_m v m') [] X (a_lref a) l b (mkBlock (bk_id b) (bk_mem b) sm' (bk_meta b)) I1 Hg1 Hb) as (A & B & C0).
    + unfold block_same. cbn. auto.
    + cbn. auto.
    + cbn zeta. split; [auto|]. split; [eapply tab_frame_trans_same; [apply tab_frame_set_m|exact B]|eapply lists_frame_trans; [apply lists_frame_set_m|exact C0]].
  - intros K. cbn zeta.
    destruct (VamInvStep2.sm_update_inv c v X s a m' sm' (va_s _ _ _ HI) Sa HnX (proj1 Hm)) as (_ & P). specialize (P K). cbn zeta in P.
    destruct P as (I2 & T2 & L2). split; [|auto].
    eapply mkA; [exact HI|exact I2| |exact T2|apply lists_frame_weak; exact L2].
    destruct (AInv_AM c Hc Hmax Hlarge _ _ (va_a _ _ _ I1)) as (A1 & D1). split; [|exact D1].
    cbn [set_alloc set_tab v_m]. rewrite allocs_truth_set_key; [exact A1| | | |].
    + cbn. rewrite (get_alloc_slot _ _ _ (proj2 (slot_is_set_m v m' s a) Sa)). reflexivity.
    + cbn. rewrite (get_alloc_slot _ _ _ (proj2 (slot_is_set_m v m' s a) Sa)). reflexivity.
    + cbn. rewrite (get_alloc_slot _ _ _ (proj2 (slot_is_set_m v m' s a) Sa)). reflexivity.
    + cbn. eapply slot_is_range; eauto.
Qed.

Definition slot_post (v v' : vam) (s : Z) (r : out unit) : Prop :=
  match r with PANIC | STUCK => True | _ => VamInvA v' [] [] /\ tab_frame v v' [s] /\ lists_frame v v' end.

Lemma slot_post_refl v s r : VamInvA v [] [] -> slot_post v v s r.
Proof. intros H. destruct r; cbn; auto; (split; [auto|split; [apply tab_frame_refl|apply lists_frame_refl]]). Qed.

Lemma slot_post_of v v' s r : VamInvA v' [] [] /\ tab_frame v v' [s] /\ lists_frame v v' -> slot_post v v' s r.
Proof. intros H. destruct r; cbn; auto. Qed.

Lemma weaken_nil v v' s : tab_frame v v' [] -> tab_frame v v' [s].
Proof. intros H. eapply tab_frame_weaken; [exact H|intros ? []]. Qed.

Lemma allocation_map_inv v s :
  VamInvA v [] [] -> let '(v', r) := allocation_map c v s in slot_post v v' s r.
Proof.
  intros HI. unfold allocation_map. set (a := get_alloc v s).
  destruct (negb (a_mapallowed a)); [apply slot_post_refl; auto|].
  destruct (a_allocated a) eqn:Ea; cbn [negb]; [|apply slot_post_refl; auto].
  pose proof (get_alloc_allocated v s Ea) as Sa. fold a in Sa.
  destruct (a_kind a =? 1) eqn:K1.
  - apply Z.eqb_eq in K1. destruct (get_block v (a_lref a) (a_blk a)) as [b|] eqn:Hgb; [|exact I].
    pose proof (sm_map_sameA c Hc Hmax Hlarge (v_m v) (bk_mem b) (bk_sm b)) as Hm.
    destruct (sm_map c (v_m v) (bk_mem b) (bk_sm b)) as ((m1 & s1) & r). cbn [fst] in Hm.
    destruct (sm_update_inv v [] s a m1 s1 HI Sa (fun H => H) Hm) as (P1 & _). specialize (P1 K1 b Hgb). cbn zeta in P1.
    destruct P1 as (A & B & C).
    destruct r as [[]|code| |]; try exact I.
    + destruct (find_offset _ a); [|exact I]. cbn. split; [auto|]. split; [apply weaken_nil; auto|auto].
    + cbn. split; [auto|]. split; [apply weaken_nil; auto|auto].
  - destruct (a_kind a =? 2) eqn:K2; [|exact I]. apply Z.eqb_eq in K2.
    pose proof (sm_map_sameA c Hc Hmax Hlarge (v_m v) (a_mem a) (a_sm a)) as Hm.
    destruct (sm_map c (v_m v) (a_mem a) (a_sm a)) as ((m1 & s1) & r). cbn [fst] in Hm.
    destruct (sm_update_inv v [] s a m1 s1 HI Sa (fun H => H) Hm) as (_ & P2). specialize (P2 K2). cbn zeta in P2.
    apply slot_post_of. exact P2.
Qed.

Lemma allocation_unmap_inv v s :
  VamInvA v [] [] -> let '(v', r) := allocation_unmap v s in slot_post v v' s r.
Proof.
  intros HI. unfold allocation_unmap. set (a := get_alloc v s).
  destruct (a_allocated a) eqn:Ea; cbn [negb]; [|exact I].
  pose proof (get_alloc_allocated v s Ea) as Sa. fold a in Sa.
  destruct (a_kind a =? 1) eqn:K1.
  - apply Z.eqb_eq in K1. destruct (get_block v (a_lref a) (a_blk a)) as [b|] eqn:Hgb; [|exact I].
    pose proof (sm_unmap_sameA c Hc Hmax Hlarge (v_m v) (bk_mem b) (bk_sm b)) as Hm.
    destruct (sm_unmap (v_m v) (bk_mem b) (bk_sm b)) as ((m1 & s1) & r). cbn [fst] in Hm.
    destruct (sm_update_inv v [] s a m1 s1 HI Sa (fun H => H) Hm) as (P1 & _). specialize (P1 K1 b Hgb). cbn zeta in P1.
    destruct P1 as (A & B & C). apply slot_post_of. split; [auto|]. split; [apply weaken_nil; auto|auto].
  - destruct (a_kind a =? 2) eqn:K2; [|exact I]. apply Z.eqb_eq in K2.
    pose proof (sm_unmap_sameA c Hc Hmax Hlarge (v_m v) (a_mem a) (a_sm a)) as Hm.
    destruct (sm_unmap (v_m v) (a_mem a) (a_sm a)) as ((m1 & s1) & r). cbn [fst] in Hm.
    destruct (sm_update_inv v [] s a m1 s1 HI Sa (fun H => H) Hm) as (_ & P2). specialize (P2 K2). cbn zeta in P2.
    apply slot_post_of. exact P2.
Qed.

Lemma slot_post_trans v0 v1 v2 s r : VamInvA v1 [] [] -> tab_frame v0 v1 [s] -> lists_frame v0 v1 -> slot_post v1 v2 s r -> slot_post v0 v2 s r.
Proof.
  intros I T L P. destruct r as [[]|code| |]; cbn in *; auto; destruct P as (A & B & C);
    (split; [auto|]; split; [eapply tab_frame_trans_same; eauto|eapply lists_frame_trans; eauto]).
Qed.

Lemma harness_rw_inv v s : VamInvA v [] [] -> let '(v', r) := harness_rw c v s in slot_post v v' s r.
Proof.
  intros HI. unfold harness_rw. pose proof (allocation_map_inv v s HI) as M.
  destruct (allocation_map c v s) as (v1 & r). destruct r as [[]|code| |]; auto.
  destruct M as (A & B & C). pose proof (allocation_unmap_inv v1 s A) as U.
  destruct (allocation_unmap v1 s) as (v2 & ur).
  assert (P : slot_post v v2 s ur) by (eapply slot_post_trans; eauto).
  destruct ur as [[]|ucode| |]; auto.
Qed.

Lemma allocation_flush_inv v inval s off size :
  VamInvA v [] [] -> let '(v', r) := allocation_flush c v inval s off size in slot_post v v' s r.
Proof.
  intros HI. unfold allocation_flush. destruct (negb _); [apply slot_post_refl; auto|].
  destruct (flush_range c v (get_alloc v s) off size) as [[(roff & rsize)|]|code| |]; try (apply slot_post_refl; auto); try exact I.
  pose proof (dev_flush_sameA c Hc Hmax Hlarge (v_m v) inval (a_mem (get_alloc v s)) roff rsize) as Hm.
  destruct (dev_flush (v_m v) inval (a_mem (get_alloc v s)) roff rsize) as (m1 & code). cbn [fst] in Hm.
  apply slot_post_of. split; [apply VamInvA_mach_same; auto|]. split; [apply tab_frame_set_m|apply lists_frame_set_m].
Qed.

(* ---------------------------------------------------------------- pools *)


(* ---------------------------------------------------------------- pools *)

Lemma find_pool_nodup ps p : NoDup (map p_uid ps) -> In p ps -> find_pool ps (p_uid p) = Some p.
Proof using.
  induction ps as [|x l IHl]; cbn; [intros _ []|]. intros Hnd [->|H]; [rewrite Z.eqb_refl; reflexivity|].
  inversion Hnd as [|? ? Hx Hr]; subst. destruct (p_uid x =? p_uid p) eqn:E; [|auto].
  exfalso. apply Hx. apply Z.eqb_eq in E. rewrite E. apply in_map. auto.
Qed.

Lemma pool_destroy_AM v uid :
  VamInvA v [] [] ->
  let '(v', r) := pool_destroy c v uid in
  match r with OK _ => AMc v' [] /\ prefs_ok v' | _ => True end.
Proof.
  intros HI. unfold pool_destroy. destruct (find_pool (v_pools v) uid) as [p|] eqn:Hf; [|exact I].
  destruct (p_ded p); [|exact I].
  pose proof (bl_destroy_inv v [] [] (LPool uid) HI) as BD.
  destruct (bl_destroy c v (LPool uid)) as (v1 & r). destruct r as [[]|code| |]; auto.
  destruct BD as ((I1 & T1 & L1) & _). split.
  - eapply (AM_tab c Hc Hmax Hlarge); [apply (AInv_AM c Hc Hmax Hlarge); apply (va_a _ _ _ I1)|reflexivity|apply (mach_sameA_refl c Hc Hmax Hlarge)].
  - intros lr l Hg. destruct lr as [t|u]; [apply (ai_pref _ _ _ (va_a _ _ _ I1) (LDef t)); exact Hg|].
    cbn in Hg. destruct (find_pool (remove_pool (v_pools v1) uid) u) as [q|] eqn:Eq; [|discriminate]. injection Hg as <-.
    destruct (find_pool_in _ _ _ Eq) as (Hin & Hu). apply in_remove_pool in Hin.
    apply (ai_pref _ _ _ (va_a _ _ _ I1) (LPool (p_uid q))). cbn.
    rewrite (find_pool_nodup _ _ (vi_pools_nodup _ _ _ _ (va_s _ _ _ I1)) Hin). reflexivity.
Qed.

Lemma pool_destroy_inv v uid nextId :
  VamInvA v [] [] ->
  Forall (fun q => p_id q < nextId) (remove_pool (v_pools v) uid) ->
  let '(v', r) := pool_destroy c v uid in
  match r with
  | OK _ => VamInvA (mkVam (v_m v') (v_global v') (v_lists v') (v_ded v') (v_pools v') nextId (v_next_uid v') (v_tab v')) [] [] /\
            tab_frame v v' [] /\ find_pool (v_pools v') uid = None /\
            map p_id (v_pools v') = map p_id (remove_pool (v_pools v) uid)
  | ER _ => v' = v /\ exists p, find_pool (v_pools v) uid = Some p /\
              (p_ded p <> [] \/ exists b, In b (bl_blocks (p_list p)) /\ meta_is_empty (bk_meta b) = false)
  | _ => True
  end.
Proof.
  intros HI Hids. pose proof (VamInvStep2.pool_destroy_inv c v uid nextId (va_s _ _ _ HI) Hids) as P.
  pose proof (pool_destroy_AM v uid HI) as Q.
  destruct (pool_destroy c v uid) as (v' & r). destruct r as [[]|code| |]; auto.
  destruct P as (I1 & T1 & R1). destruct Q as ((A & D) & Pf). split; [|auto].
  split; [exact I1|]. destruct (va_a _ _ _ HI) as [_ B _ _]. constructor.
  - exact A.
  - cbn [v_tab]. destruct T1 as (E & _). rewrite E. exact B.
  - exact Pf.
  - exact D.
Qed.

Lemma rmpool_inv v uid :
  VamInvA v [] [] ->
  let '(v', r) := pool_destroy c v uid in
  match r with PANIC | STUCK => True | _ => VamInvA v' [] [] /\ tab_frame v v' [] end.
Proof.
  intros HI.
  assert (Hids : Forall (fun q => p_id q < v_next_pool_id v) (remove_pool (v_pools v) uid)).
  { apply Forall_forall. intros q Hq. destruct (vi_pools_id _ _ _ _ (va_s _ _ _ HI)) as (_ & Hf). rewrite Forall_forall in Hf. apply Hf.
    eapply in_remove_pool; eauto. }
  pose proof (pool_destroy_inv v uid (v_next_pool_id v) HI Hids) as P.
  destruct (pool_destroy c v uid) as (v' & r) eqn:E. destruct r as [[]|code| |]; auto.
  - destruct P as (I1 & T1 & _ & _).
    assert (En : v_next_pool_id v' = v_next_pool_id v).
    { unfold pool_destroy in E. destruct (find_pool (v_pools v) uid) as [p|]; [|discriminate]. destruct (p_ded p); [|discriminate].
      pose proof (bl_destroy_inv v [] [] (LPool uid) HI) as BD. destruct (bl_destroy c v (LPool uid)) as (v1 & r1).
      destruct r1 as [[]|code| |]; try discriminate. injection E as <-. cbn. destruct BD as ((_ & _ & L) & _). apply (lf_next _ _ L). }
    rewrite <- En, vam_eta in I1. auto.
  - destruct P as (-> & _). split; [auto|apply tab_frame_refl].
Qed.

Lemma create_pool_inv v ty flags blockSize minB maxB0 minAlign :
  VamInvA v [] [] -> 0 <= blockSize < 2 ^ 62 ->
  let '(v', r) := create_pool c v ty flags blockSize minB maxB0 minAlign in
  match r with PANIC | STUCK => True | _ => VamInvA v' [] [] /\ tab_frame v v' [] end.
Proof.
  intros HI Hbs0. unfold create_pool.
  assert (Hrefl : VamInvA v [] [] /\ tab_frame v v []) by (split; [auto|apply tab_frame_refl]).
  destruct (_ <? minB); [exact Hrefl|]. destruct ((ty <? 0) || (ntypes c <=? ty)) eqn:Ety; [exact Hrefl|].
  destruct (negb (N.testbit _ _)); [exact Hrefl|]. destruct ((0 <? minAlign) && negb (is_pow2_or_zero minAlign)) eqn:Eal; [exact Hrefl|].
  set (bs := if blockSize =? 0 then preferred_block_size c ty else blockSize).
  set (al := if type_min_alignment c ty <? minAlign then minAlign else type_min_alignment c ty).
  set (gr := if Z.testbit flags 0 then 1 else eff_granularity c).
  set (l := mkBlist ty bs minB (if maxB0 =? 0 then MAXINT else maxB0) gr (negb (blockSize =? 0)) (Z.land flags 2) al [] 0 true).
  set (uid := v_next_uid v).
  assert (Hwf : blist_wf c l).
  { constructor; cbn.
    9: (unfold gr, eff_granularity; destruct (Z.testbit flags 0); auto).
    all: try constructor; try lia.
    - unfold type_valid. apply orb_false_iff in Ety. destruct Ety as (E1 & E2). apply Z.ltb_ge in E1. apply Z.leb_gt in E2.
      apply andb_true_iff. split; [apply Z.leb_le; lia|apply Z.ltb_lt; lia].
    - unfold al. pose proof (type_min_alignment_pow2 c Hc ty) as Ht. destruct (type_min_alignment c ty <? minAlign) eqn:E; [|auto].
      apply Z.ltb_lt in E. pose proof (Bits.pow2_pos _ Ht). apply andb_false_iff in Eal. destruct Eal as [Eal|Eal].
      + apply Z.ltb_ge in Eal. lia.
      + apply negb_false_iff in Eal. destruct (pow2_or_zero_spec _ Eal); [lia|auto].
    - unfold gr. destruct (Z.testbit flags 0); [apply Bits.pow2_1|apply (eff_granularity_pow2 c Hc)].
    - unfold al. destruct (type_min_alignment c ty <? minAlign) eqn:E; [apply Z.ltb_lt in E|]; unfold type_min_alignment in *; lia. }
  assert (Hbs : 0 <= bs < 2 ^ 62).
  { unfold bs. destruct (blockSize =? 0); [apply (preferred_block_size_bound c Hc Hmax Hlarge)|exact Hbs0]. }
  assert (I0 : VamInvA (mkVam (v_m v) (v_global v) (v_lists v) (v_ded v) (mkPool (v_next_uid v) (v_next_pool_id v) l [] :: v_pools v)
                   (v_next_pool_id v + 1) (v_next_uid v + 1) (v_tab v)) [] []).
  { split; [exact (VamInvU_add_pool c v [] [] l (va_s _ _ _ HI) Hwf eq_refl)|].
    apply (AInv_lists c Hc Hmax Hlarge v [] _ (va_a _ _ _ HI)); [reflexivity|reflexivity|].
    intros lr l' Hg. destruct lr as [t|u]; [apply (ai_pref _ _ _ (va_a _ _ _ HI) (LDef t)); exact Hg|].
    cbn in Hg. destruct (v_next_uid v =? u) eqn:Eu.
    - injection Hg as <-. exact Hbs.
    - apply (ai_pref _ _ _ (va_a _ _ _ HI) (LPool u)). exact Hg. }
  fold uid in I0.
  set (v0 := mkVam (v_m v) (v_global v) (v_lists v) (v_ded v) (mkPool uid (v_next_pool_id v) l [] :: v_pools v)
                   (v_next_pool_id v + 1) (uid + 1) (v_tab v)) in *.
  pose proof (create_min_blocks_inv (Z.to_nat minB) v0 [] [] (LPool uid) bs I0 Hbs) as CM.
  destruct (create_min_blocks c (Z.to_nat minB) v0 (LPool uid) bs) as (v1 & r).
  destruct CM as (I1 & T1 & L1).
  assert (T01 : tab_frame v v1 []) by (destruct T1 as (A & B); split; auto).
  destruct r as [[]|code| |]; auto.
  (* creation failed: the blocks created so far are released, the pool unlinked, nextPoolId restored *)
  assert (Hfresh : find_pool (v_pools v) uid = None).
  { apply find_pool_none_fresh. eapply Forall_impl; [|exact (vi_pools_uid _ _ _ _ (va_s _ _ _ HI))]. cbn. intros; lia. }
  assert (Hu1 : map p_uid (v_pools v1) = uid :: map p_uid (v_pools v)) by (rewrite (lf_uids _ _ L1); reflexivity).
  assert (Hp1 : map p_id (v_pools v1) = v_next_pool_id v :: map p_id (v_pools v)) by (rewrite (lf_pids _ _ L1); reflexivity).
  assert (Hrem : map p_id (remove_pool (v_pools v1) uid) = map p_id (v_pools v)).
  { destruct (v_pools v1) as [|q qs]; cbn in *; [discriminate|]. injection Hu1 as Hq Hu. injection Hp1 as Hq' Hp.
    rewrite Hq, Z.eqb_refl. exact Hp. }
  assert (Hids : Forall (fun q => p_id q < v_next_pool_id v) (remove_pool (v_pools v1) uid)).
  { apply Forall_forall. intros q Hq. assert (In (p_id q) (map p_id (v_pools v))) by (rewrite <- Hrem; apply in_map; auto).
    apply in_map_iff in H. destruct H as (q0 & E0 & H0). destruct (vi_pools_id _ _ _ _ (va_s _ _ _ HI)) as (_ & Hf). rewrite Forall_forall in Hf. rewrite <- E0. auto. }
  pose proof (pool_destroy_inv v1 uid (v_next_pool_id v) I1 Hids) as PD.
  (* the new pool is not referenced by any Allocation object, so its destruction cannot be refused *)
  assert (Hnoref : forall s a, slot_is v1 s a -> a_lref a <> LPool uid).
  { intros s a S E. assert (S0 : slot_is v s a) by (apply (slot_is_frame _ _ _ _ _ T01) in S; auto).
    destruct (vi_slots _ _ _ _ (va_s _ _ _ HI) s a S0 (fun H => H)) as [(_ & l2 & _ & _ & G & _)|(_ & _ & (l2 & G & _) & _)];
      rewrite E in G; cbn in G; rewrite Hfresh in G; discriminate. }
  destruct (pool_destroy c v1 uid) as (v2 & dr). destruct dr as [[]|dcode| |]; auto.
  - destruct PD as (I2 & T2 & F2 & _). unfold unlink_pool. rewrite (remove_pool_absent _ _ F2).
    split; [exact I2|]. eapply tab_frame_trans_same; [exact T01|exact T2].
  - exfalso. destruct PD as (_ & p1 & Hf1 & [Hd|(b & Hb & He)]).
    + apply Hd. pose proof (lf_ded _ _ L1 (LPool uid)) as D. cbn in D. rewrite Hf1, Z.eqb_refl in D. exact D.
    + assert (Hg1 : get_blist v1 (LPool uid) = Some (p_list p1)) by (cbn; rewrite Hf1; reflexivity).
      rewrite (VamInvStep2.unreferenced_blocks_empty c v1 (LPool uid) (p_list p1) (va_s _ _ _ I1) Hg1 Hnoref b Hb) in He. discriminate.
Qed.

Definition inv_post (v v' : vam) (r : out unit) : Prop :=
  match r with PANIC | STUCK => True | _ => VamInvA v' [] [] /\ tab_frame v v' [] end.

Lemma inv_post_refl v r : VamInvA v [] [] -> inv_post v v r.
Proof. intros H. destruct r; cbn; auto; (split; [auto|apply tab_frame_refl]). Qed.

Lemma destroy_lists_inv n : forall v t, VamInvA v [] [] -> let '(v', r) := destroy_lists c v n t in inv_post v v' r.
Proof.
  induction n as [|k IH]; intros v t HI; cbn [destroy_lists]; [apply inv_post_refl; auto|].
  destruct (get_blist v (LDef t)); [|apply IH; auto].
  pose proof (bl_destroy_inv v [] [] (LDef t) HI) as BD.
  destruct (bl_destroy c v (LDef t)) as (v1 & r). destruct r as [[]|code| |]; auto.
  - destruct BD as ((I1 & T1 & L1) & _). specialize (IH v1 (t + 1) I1).
    destruct (destroy_lists c v1 k (t + 1)) as (v2 & r2). destruct r2 as [[]|code| |]; cbn in *; auto;
      destruct IH as (A & B); (split; [auto|eapply tab_frame_trans_same; eauto]).
  - destruct BD as (-> & _). cbn. split; [auto|apply tab_frame_refl].
Qed.

Lemma allocator_destroy_inv v : VamInvA v [] [] -> let '(v', r) := allocator_destroy c v in inv_post v v' r.
Proof.
  intros HI. unfold allocator_destroy. destruct (existsb _ (v_ded v)); [apply inv_post_refl; auto|].
  destruct (v_pools v); [|apply inv_post_refl; auto]. destruct (existsb list_nonempty _); [apply inv_post_refl; auto|].
  apply destroy_lists_inv. auto.
Qed.

Lemma stats_budgets_same n : forall m h, mach_sameA c m (stats_budgets c m n h).
Proof.
  induction n as [|k IH]; intros m h; cbn [stats_budgets]; [apply (mach_sameA_refl c Hc Hmax Hlarge)|].
  pose proof (heap_budget_sameA c Hc Hmax Hlarge m h) as H. destruct (heap_budget c m h) as ((m1 & u) & b). cbn [fst] in H.
  eapply (mach_sameA_trans c Hc Hmax Hlarge); [exact H|apply IH].
Qed.

Lemma build_stats_string_inv v : VamInvA v [] [] -> let '(v', r) := build_stats_string c v in inv_post v v' r.
Proof.
  intros HI. unfold build_stats_string. destruct (calculate_statistics c v); [|exact I].
  cbn. split; [apply VamInvA_mach_same; [auto|apply stats_budgets_same]|apply tab_frame_set_m].
Qed.


(* ---------------------------------------------------------------- resources *)

Definition res_post (v v' : vam) (s : Z) (r : out unit) : Prop :=
  match r with PANIC | STUCK => True | _ => VamInvA v' [] [] /\ tab_frame v v' [s] end.

Lemma res_post_refl v s r : VamInvA v [] [] -> res_post v v s r.
Proof. intros H. destruct r; cbn; auto; (split; [auto|apply tab_frame_refl]). Qed.

Lemma bind_memory_inv v s image res off : VamInvA v [] [] -> let '(v', r) := bind_memory v s image res off in res_post v v' s r.
Proof.
  intros HI. unfold bind_memory. destruct (res =? 0); [apply res_post_refl; auto|]. destruct (negb _); [apply res_post_refl; auto|]. destruct (off <? 0); [apply res_post_refl; auto|].
  match goal with |- context [match ?t with OK _ => _ | ER _ => _ | PANIC => _ | STUCK => _ end] => destruct t as [o|code| |] end;
    try (apply res_post_refl; auto); try exact I.
  pose proof (dev_bind_sameA c Hc Hmax Hlarge (v_m v) image res (a_mem (get_alloc v s)) o) as H.
  destruct (dev_bind (v_m v) image res (a_mem (get_alloc v s)) o) as (m1 & code). cbn [fst] in H.
  assert (P : VamInvA (set_m v m1) [] [] /\ tab_frame v (set_m v m1) [s]) by (split; [apply VamInvA_mach_same; auto|apply tab_frame_set_m]).
  destruct (code =? 0); exact P.
Qed.

Lemma allocation_free_inv v s :
  VamInvA v [] [] -> let '(v', r) := allocation_free c v s in res_post v v' s r.
Proof.
  intros HI. unfold allocation_free. destruct (a_allocated (get_alloc v s)) eqn:Ea; cbn [negb]; [|apply res_post_refl; auto].
  assert (Hnd : NoDup [s]) by (constructor; [intros []|constructor]).
  assert (Hlive : live_slots v [] [s]) by (intros x [<-|[]]; split; [intros []|exists (get_alloc v s); apply get_alloc_allocated; auto]).
  pose proof (multi_free_inv [s] v [] HI Hnd Hlive) as P. destruct (multi_free c v [s]) as (v' & r).
  destruct r as [[]|code| |]; auto; cbn; destruct P as (A & B & C); auto.
Qed.

Lemma get_requirements_spec m image id :
  exists m2 rq rd pd, get_requirements c m image id = (m2, rq, rd, pd) /\ mach_sameA c m m2 /\ (res_ok m -> rq_size rq < 2 ^ 62).
Proof.
  unfold get_requirements. pose proof (dev_requirements_sameA c Hc Hmax Hlarge m image id) as H.
  pose proof (dev_requirements_size c Hc Hmax Hlarge m image id) as Hs.
  destruct (dev_requirements m image id) as (m2 & rq). cbn [fst snd] in *. destruct (11 <=? c_api c); eauto 10.
Qed.

Lemma create_resource_inv v s image kind sub devreq resusage minAlign usage flags req pref ctb pool :
  VamInvA v [] [] -> rq_size devreq < 2 ^ 62 -> 0 <= s < zlen (v_tab v) -> a_allocated (get_alloc v s) = false ->
  let '(v', r) := create_resource c v s image kind sub devreq resusage minAlign usage flags req pref ctb pool in res_post v v' s r.
Proof.
  intros HI Hdq Hr Hd. unfold create_resource.
  pose proof (dev_create_res_sameA c Hc Hmax Hlarge (v_m v) image kind devreq Hdq) as H1.
  destruct (dev_create_res (v_m v) image kind devreq) as ((m1 & code) & id). cbn [fst] in H1.
  destruct (negb (code =? 0)); [cbn; split; [apply VamInvA_mach_same; auto|apply tab_frame_set_m]|].
  destruct (get_requirements_spec m1 image id) as (m2 & rq & rd & pd & Egr & H2 & Hrq). rewrite Egr.
  assert (Hsz : rq_size rq < 2 ^ 62) by (apply Hrq; apply (proj2 (proj2 H1)); apply (ai_res _ _ _ (va_a _ _ _ HI))).
  pose proof (mach_sameA_trans c Hc Hmax Hlarge _ _ _ H1 H2) as H12.
  assert (I2 : VamInvA (set_m v m2) [] []) by (apply VamInvA_mach_same; auto).
  assert (Hnd : NoDup [s]) by (constructor; [intros []|constructor]).
  assert (Hdead : dead_slots (set_m v m2) [s]) by (intros x [<-|[]]; auto).
  match goal with |- context [multi_allocate c (set_m v m2) ?a1 ?a2 ?a3 ?a4 ?a5 ?a6 ?a7 usage flags req pref ctb pool sub [s]] =>
    pose proof (multi_allocate_inv (set_m v m2) [] a1 a2 a3 a4 a5 a6 a7 usage flags req pref ctb pool sub [s] I2 Hsz Hnd Hdead) as MA;
    destruct (multi_allocate c (set_m v m2) a1 a2 a3 a4 a5 a6 a7 usage flags req pref ctb pool sub [s]) as (v3 & r) end.
  destruct r as [[]|acode| |]; auto.
  - destruct MA as (I3 & T3 & L3 & D3).
    assert (T03 : tab_frame v v3 [s]) by (eapply tab_frame_trans_same; [apply tab_frame_set_m|exact T3]).
    destruct (fl flags F_DONTBIND); [cbn; auto|].
    pose proof (bind_memory_inv v3 s image id 0 I3) as B. destruct (bind_memory v3 s image id 0) as (v4 & br).
    destruct br as [[]|bcode| |]; auto.
    + cbn in *. destruct B as (A & B). split; [auto|eapply tab_frame_trans_same; eauto].
    + destruct B as (I4 & T4).
      assert (Hfree : let '(v5, fr) := (if a_allocated (get_alloc v4 s) then multi_free c v4 [s] else (v4, OK tt)) in
                      match fr with PANIC | STUCK => True | _ => VamInvA v5 [] [] /\ tab_frame v4 v5 [s] end).
      { destruct (a_allocated (get_alloc v4 s)) eqn:Ea; [|split; [auto|apply tab_frame_refl]].
        assert (Hlive : live_slots v4 [] [s]) by (intros x [<-|[]]; split; [intros []|exists (get_alloc v4 s); apply get_alloc_allocated; auto]).
        pose proof (multi_free_inv [s] v4 [] I4 Hnd Hlive) as P. destruct (multi_free c v4 [s]) as (v5 & fr).
        destruct fr as [[]|code5| |]; auto; destruct P as (A & B & C); auto. }
      destruct (if a_allocated (get_alloc v4 s) then multi_free c v4 [s] else (v4, OK tt)) as (v5 & fr).
      destruct fr as [[]|code5| |]; auto; destruct Hfree as (I5 & T5); cbn;
        (split; [apply VamInvA_mach_same; [auto|apply (dev_destroy_res_sameA c Hc Hmax Hlarge)]|];
         eapply tab_frame_trans_same; [exact T03|]; eapply tab_frame_trans_same; [exact T4|]; eapply tab_frame_trans_same; [exact T5|apply tab_frame_set_m]).
  - destruct MA as (I3 & T3 & L3 & D3). cbn. split; [apply VamInvA_mach_same; [auto|apply (dev_destroy_res_sameA c Hc Hmax Hlarge)]|].
    eapply tab_frame_trans_same; [apply tab_frame_set_m|]. eapply tab_frame_trans_same; [exact T3|apply tab_frame_set_m].
Qed.

Lemma res_post_of_alloc v v' s r : alloc_post v v' [] [s] r -> res_post v v' s r.
Proof. destruct r as [[]|code| |]; cbn; auto; intros (A & B & _); auto. Qed.

Lemma allocate_for_resource_inv v s image res usage flags req pref ctb pool :
  VamInvA v [] [] -> 0 <= s < zlen (v_tab v) ->
  let '(v', r) := allocate_for_resource c v s image res usage flags req pref ctb pool in res_post v v' s r.
Proof.
  intros HI Hr. unfold allocate_for_resource. destruct (res =? 0); [apply res_post_refl; auto|].
  destruct (a_allocated (get_alloc v s)) eqn:Ea; [apply res_post_refl; auto|].
  destruct (get_requirements_spec (v_m v) image res) as (m2 & rq & rd & pd & Egr & H2 & Hrq). rewrite Egr.
  assert (Hsz : rq_size rq < 2 ^ 62) by (apply Hrq; apply (ai_res _ _ _ (va_a _ _ _ HI))).
  assert (I2 : VamInvA (set_m v m2) [] []) by (apply VamInvA_mach_same; auto).
  assert (Hnd : NoDup [s]) by (constructor; [intros []|constructor]).
  assert (Hdead : dead_slots (set_m v m2) [s]) by (intros x [<-|[]]; auto).
  match goal with |- context [multi_allocate c (set_m v m2) ?a1 ?a2 ?a3 ?a4 ?a5 ?a6 ?a7 usage flags req pref ctb pool ?sb [s]] =>
    pose proof (multi_allocate_inv (set_m v m2) [] a1 a2 a3 a4 a5 a6 a7 usage flags req pref ctb pool sb [s] I2 Hsz Hnd Hdead) as MA;
    destruct (multi_allocate c (set_m v m2) a1 a2 a3 a4 a5 a6 a7 usage flags req pref ctb pool sb [s]) as (v3 & r) end.
  apply res_post_of_alloc in MA. destruct r as [[]|code| |]; cbn in *; auto; destruct MA as (A & B);
    (split; [auto|eapply tab_frame_trans_same; [apply tab_frame_set_m|exact B]]).
Qed.

Lemma create_buffer_inv v s size devreq bufUsage minAlign usage flags req pref ctb pool :
  VamInvA v [] [] -> rq_size devreq < 2 ^ 62 -> 0 <= s < zlen (v_tab v) ->
  let '(v', r) := create_buffer c v s size devreq bufUsage minAlign usage flags req pref ctb pool in res_post v v' s r.
Proof.
  intros HI Hdq Hr. unfold create_buffer. destruct (a_allocated (get_alloc v s)) eqn:Ea; [apply res_post_refl; auto|].
  destruct (_ && _); [apply res_post_refl; auto|]. destruct (size =? 0); [apply res_post_refl; auto|].
  destruct (_ && _); [apply res_post_refl; auto|]. apply create_resource_inv; auto.
Qed.

Lemma create_image_inv v s tiling width devreq imgUsage usage flags req pref ctb pool :
  VamInvA v [] [] -> rq_size devreq < 2 ^ 62 -> 0 <= s < zlen (v_tab v) ->
  let '(v', r) := create_image c v s tiling width devreq imgUsage usage flags req pref ctb pool in res_post v v' s r.
Proof.
  intros HI Hdq Hr. unfold create_image. destruct (a_allocated (get_alloc v s)) eqn:Ea; [apply res_post_refl; auto|].
  destruct (width =? 0); [apply res_post_refl; auto|]. apply create_resource_inv; auto.
Qed.

Lemma destroy_with_resource_inv v s image res :
  VamInvA v [] [] -> let '(v', r) := destroy_with_resource c v s image res in res_post v v' s r.
Proof.
  intros HI. unfold destroy_with_resource.
  set (v1 := if res =? 0 then v else set_m v (dev_destroy_res (v_m v) image res)).
  assert (I1 : VamInvA v1 [] [] /\ tab_frame v v1 [s]).
  { unfold v1. destruct (res =? 0); [split; [auto|apply tab_frame_refl]|].
    split; [apply VamInvA_mach_same; [auto|apply (dev_destroy_res_sameA c Hc Hmax Hlarge)]|apply tab_frame_set_m]. }
  pose proof (allocation_free_inv v1 s (proj1 I1)) as F. destruct (allocation_free c v1 s) as (v2 & r).
  destruct r as [[]|code| |]; cbn in *; auto; destruct F as (A & B); (split; [auto|eapply tab_frame_trans_same; [apply I1|exact B]]).
Qed.

(* ---------------------------------------------------------------- vam.New *)

(* ---------------------------------------------------------------- vam.New *)

Lemma vam_new_inv nslots v : vam_new c nslots = OK v -> Z.of_nat nslots <= 4194304 -> VamInvA v [] [].
Proof.
  intros E Hn. split; [eapply (VamInvStep2.vam_new_inv c Hc); eauto|eapply (vam_new_AInv c Hc Hmax Hlarge); eauto].
Qed.


End WithCfg.
