(* GranInv.v — facts about the buffer-image-granularity handler model (Gran.v), independent of
   the block algorithm that calls it:
     1. the conflict relation on resource kinds;
     2. page arithmetic: the bit formula for a slot is division by the granularity;
     3. the meaning of the page table: for a list of "spans" (offset, size, kind) — the live
        allocations of a block — what every (type, count) entry says, and that AllocRegions (after a
        CheckConflictAndAlignUp that reported no conflict) and FreeRegions keep it that way.
   Basis of C09. *)
From Coq Require Import ZArith List Bool Lia.
From Coq Require Import ZifyBool.
From Arsenal Require Import Util Bits Gran.
Import ListNotations.
Open Scope Z_scope.
Ltac Zify.zify_post_hook ::= Z.div_mod_to_equations.

(* ================================================================== 1. the conflict relation *)

(* the kinds a caller can pass: Unknown, Buffer, ImageUnknown, ImageLinear, ImageOptimal.
   (Go: suballocationType is an unexported enum with exactly the values 0..5, 0 = Free.) *)
Definition kind_ok (k : Z) : Prop := 1 <= k <= 5.

Lemma conflict_true_iff a b :
  conflict a b = true <->
  (Z.min a b = 1 \/
   (Z.min a b = 2 /\ (Z.max a b = 3 \/ Z.max a b = 5)) \/
   (Z.min a b = 3 /\ (Z.max a b = 3 \/ Z.max a b = 4 \/ Z.max a b = 5)) \/
   (Z.min a b = 4 /\ Z.max a b = 5)).
Proof.
  unfold conflict. set (lo := Z.min a b). set (hi := Z.max a b).
  assert (Hle : lo <= hi) by (unfold lo, hi; lia). clearbody lo hi.
  destruct (Z.eqb_spec lo 0) as [E0|E0]; [split; [discriminate|lia]|].
  destruct (Z.eqb_spec lo 1) as [E1|E1]; [split; [auto|reflexivity]|].
  destruct (Z.eqb_spec lo 2) as [E2|E2]; [lia|].
  destruct (Z.eqb_spec lo 3) as [E3|E3]; [lia|].
  destruct (Z.eqb_spec lo 4) as [E4|E4]; [lia|].
  split; [discriminate|lia].
Qed.

Lemma bool_eq_iff (x y : bool) : (x = true <-> y = true) -> x = y.
Proof. destruct x, y; intuition congruence. Qed.

Theorem conflict_sym a b : conflict a b = conflict b a.
Proof. unfold conflict. rewrite (Z.min_comm a b), (Z.max_comm a b). reflexivity. Qed.

(* Free (0) and every kind outside 0..5 that is not positive conflict with nothing *)
Theorem conflict_nonpos a b : a <= 0 -> conflict a b = false.
Proof.
  intros Ha. destruct (conflict a b) eqn:E; auto. apply conflict_true_iff in E. lia.
Qed.

Theorem conflict_free_l b : conflict 0 b = false.
Proof. apply conflict_nonpos; lia. Qed.
Theorem conflict_free_r a : conflict a 0 = false.
Proof. rewrite conflict_sym. apply conflict_free_l. Qed.

(* Unknown conflicts with every positive kind (the code does not even bound it by 5), itself included *)
Theorem conflict_unknown b : 1 <= b -> conflict 1 b = true.
Proof. intros Hb. apply conflict_true_iff. lia. Qed.

(* ImageUnknown conflicts with every kind of the enum except Free, itself included;
   outside the enum (kinds >= 6, which the Go type cannot hold) it does not *)
Theorem conflict_image_unknown b : kind_ok b -> conflict 3 b = true.
Proof. unfold kind_ok. intros Hb. apply conflict_true_iff. lia. Qed.
Theorem conflict_image_unknown_outside b : 6 <= b -> conflict 3 b = false.
Proof. intros Hb. destruct (conflict 3 b) eqn:E; auto. apply conflict_true_iff in E. lia. Qed.

(* the complete table on the enum *)
Theorem conflict_table :
  map (fun a => map (conflict a) [0;1;2;3;4;5]) [0;1;2;3;4;5] =
  [ [false;false;false;false;false;false];
    [false;true ;true ;true ;true ;true ];
    [false;true ;false;true ;false;true ];
    [false;true ;true ;true ;true ;true ];
    [false;true ;false;true ;false;true ];
    [false;true ;true ;true ;true ;false] ].
Proof. vm_compute. reflexivity. Qed.

(* two kinds have the same conflict set *)
Definition same_class (a b : Z) : Prop := forall c, conflict a c = conflict b c.

Lemma same_class_refl a : same_class a a.
Proof. intros c; reflexivity. Qed.

(* kinds of the enum that do not conflict with each other conflict with exactly the same kinds
   (of ALL integers, not only of the enum) *)
Theorem nonconflict_same_class a b :
  kind_ok a -> kind_ok b -> conflict a b = false -> same_class a b.
Proof.
  unfold kind_ok. intros Ha Hb Hab c.
  assert (Ea : a = 1 \/ a = 2 \/ a = 3 \/ a = 4 \/ a = 5) by lia.
  assert (Eb : b = 1 \/ b = 2 \/ b = 3 \/ b = 4 \/ b = 5) by lia.
  destruct Ea as [->|[->|[->|[->| ->]]]]; destruct Eb as [->|[->|[->|[->| ->]]]];
    try reflexivity; try (vm_compute in Hab; discriminate Hab);
    apply bool_eq_iff; rewrite !conflict_true_iff; lia.
Qed.

(* the statement asked for, with the weakest hypotheses under which it is true *)
Theorem nonconflict_same_conflicts a b :
  conflict a b = false -> kind_ok a -> kind_ok b -> forall c, conflict a c = conflict b c.
Proof. intros H Ha Hb. apply nonconflict_same_class; auto. Qed.

(* it is false outside the enum: 3 and 7 do not conflict, yet 3 conflicts with 2 and 7 does not *)
Theorem nonconflict_same_conflicts_outside_enum_refuted :
  exists a b c, conflict a b = false /\ a <> 0 /\ b <> 0 /\ conflict a c <> conflict b c.
Proof. exists 3, 7, 2. vm_compute. repeat split; discriminate. Qed.

Lemma same_class_pair t a b : same_class t a -> same_class t b -> conflict a b = conflict b b.
Proof. intros Ha Hb. rewrite <- (Ha b), (Hb b). reflexivity. Qed.

(* the classes on the enum: {Unknown} {ImageUnknown} (both self-conflicting), {Buffer, ImageLinear},
   {ImageOptimal} *)
Theorem conflict_self a : kind_ok a -> conflict a a = true <-> (a = 1 \/ a = 3).
Proof. unfold kind_ok. intros Ha. rewrite conflict_true_iff. lia. Qed.

(* ================================================================== 2. page arithmetic *)

Lemma div_bounds a g : 0 < g -> g * (a / g) <= a < g * (a / g) + g.
Proof.
  intros Hg. pose proof (Z.mul_div_le a g Hg). pose proof (Z.mul_succ_div_gt a g Hg). lia.
Qed.

Lemma div_unique_page a g p : 0 < g -> g * p <= a < g * p + g -> a / g = p.
Proof.
  intros Hg H. symmetry. apply (Z.div_unique a g p (a - g * p)); lia.
Qed.

Theorem slot_of_div g off : pow2 (g_g g) -> slot_of g off = off / g_g g.
Proof.
  intros (k & Hk & E). unfold slot_of. rewrite E.
  replace (2 ^ k - 1) with (Z.ones k) by (rewrite Z.ones_equiv; lia).
  rewrite land_lnot_ones, Z.log2_pow2, Z.shiftr_div_pow2 by lia.
  pose proof (Z.pow_pos_nonneg 2 k ltac:(lia) Hk) as Hp.
  rewrite (Z.div_mod off (2 ^ k)) at 1 by lia.
  replace (2 ^ k * (off / 2 ^ k) + off mod 2 ^ k - off mod 2 ^ k) with ((off / 2 ^ k) * 2 ^ k) by ring.
  apply Z.div_mul. lia.
Qed.

Corollary start_slot_div g off : pow2 (g_g g) -> start_slot g off = off / g_g g.
Proof. apply slot_of_div. Qed.
Corollary end_slot_div g off size : pow2 (g_g g) -> end_slot g off size = (off + size - 1) / g_g g.
Proof. intros H. unfold end_slot. apply slot_of_div; auto. Qed.

(* the pages of the byte range [off, off+size) are exactly first .. last *)
Theorem range_pages gz off size :
  0 < gz -> 0 < size ->
  forall p, (exists x, off <= x < off + size /\ x / gz = p) <-> off / gz <= p <= (off + size - 1) / gz.
Proof.
  intros Hg Hs p. split.
  - intros (x & Hx & <-). split; apply Z.div_le_mono; lia.
  - intros (Hlo & Hhi).
    pose proof (div_bounds off gz Hg). pose proof (div_bounds (off + size - 1) gz Hg).
    exists (Z.max off (gz * p)). split.
    + assert (gz * p <= gz * ((off + size - 1) / gz)) by (apply Z.mul_le_mono_nonneg_l; lia). lia.
    + apply div_unique_page; auto.
      assert (gz * (off / gz) <= gz * p) by (apply Z.mul_le_mono_nonneg_l; lia). lia.
Qed.

(* a range whose offset and size are multiples of the page size owns its pages: a byte on one
   of its pages is a byte of the range *)
Lemma whole_pages_own gz off size x y :
  0 < gz -> off mod gz = 0 -> size mod gz = 0 ->
  off <= x < off + size -> x / gz = y / gz -> off <= y < off + size.
Proof.
  intros Hg Ho Hs Hx Hxy.
  pose proof (div_bounds x gz Hg) as Bx. pose proof (div_bounds y gz Hg) as By. rewrite Hxy in Bx.
  set (P := gz * (y / gz)) in *.
  assert (HP : P mod gz = 0) by (unfold P; rewrite Z.mul_comm; apply Z_mod_mult).
  assert (HPg : (P + gz) mod gz = 0).
  { rewrite Z.add_mod, HP, Z_mod_same_full by lia. reflexivity. }
  assert (Hos : (off + size) mod gz = 0).
  { rewrite Z.add_mod, Ho, Hs by lia. reflexivity. }
  pose proof (multiple_gap (off + size) P gz Hg Hos HP ltac:(lia)).
  pose proof (multiple_gap (P + gz) off gz Hg HPg Ho ltac:(lia)).
  lia.
Qed.

(* ================================================================== 3. the region table *)

Lemma nth_error_update_nth {A} (f : A -> A) l n m :
  nth_error (update_nth n f l) m = if Nat.eqb n m then option_map f (nth_error l m) else nth_error l m.
Proof.
  revert n m; induction l as [|x l IH]; intros n m; cbn.
  - destruct n; destruct m; cbn; try reflexivity; destruct (Nat.eqb _ _); reflexivity.
  - destruct n as [|n]; destruct m as [|m]; cbn; auto.
Qed.

Lemma update_nth_length {A} (f : A -> A) l n : length (update_nth n f l) = length l.
Proof. revert n; induction l as [|x l IH]; intros n; destruct n; cbn; auto. Qed.

Lemma region_at_nonneg g p r : region_at g p = Some r -> 0 <= p.
Proof. unfold region_at. destruct (Z.ltb_spec p 0); [discriminate|lia]. Qed.

Lemma upd_region_spec g s f g' :
  upd_region g s f = Some g' ->
  g_g g' = g_g g /\ g_h g' = g_h g /\ length (g_regions g') = length (g_regions g) /\
  forall p, region_at g' p = if p =? s then option_map f (region_at g p) else region_at g p.
Proof.
  unfold upd_region. destruct (region_at g s) as [r0|] eqn:Hs; [|discriminate].
  apply region_at_nonneg in Hs. intros H; injection H as <-. cbn [g_g g_h g_regions].
  split; [reflexivity|]. split; [reflexivity|]. split; [apply update_nth_length|].
  intros p. unfold region_at; cbn [g_regions].
  destruct (Z.ltb_spec p 0) as [Hp|Hp].
  - destruct (Z.eqb_spec p s); [lia|reflexivity].
  - rewrite nth_error_update_nth.
    destruct (Z.eqb_spec p s) as [->|Hne].
    + rewrite Nat.eqb_refl. reflexivity.
    + destruct (Nat.eqb_spec (Z.to_nat s) (Z.to_nat p)) as [E|E]; [|reflexivity].
      apply Z2Nat.inj in E; lia.
Qed.

(* AllocRegions and FreeRegions have the same shape: apply f to the start page and, if different,
   to the end page *)
Definition upd2 (g : gran) (s e : Z) (f : Z * Z -> Z * Z) : option gran :=
  match upd_region g s f with
  | None => None
  | Some g1 => if s =? e then Some g1 else upd_region g1 e f
  end.

Lemma alloc_regions_upd2 g ty off sz :
  alloc_regions g ty off sz =
  if negb (enabled g) then Some g else upd2 g (start_slot g off) (end_slot g off sz) (alloc_one ty).
Proof. reflexivity. Qed.

Lemma free_regions_upd2 g off sz :
  free_regions g off sz =
  if negb (enabled g) then Some g else upd2 g (start_slot g off) (end_slot g off sz) free_one.
Proof. reflexivity. Qed.

Lemma upd2_spec g s e f g' :
  upd2 g s e f = Some g' ->
  g_g g' = g_g g /\ g_h g' = g_h g /\ length (g_regions g') = length (g_regions g) /\
  forall p, region_at g' p =
            option_map (fun r => if (p =? s) || (p =? e) then f r else r) (region_at g p).
Proof.
  unfold upd2. destruct (upd_region g s f) as [g1|] eqn:E1; [|discriminate].
  apply upd_region_spec in E1. destruct E1 as (G1 & H1 & L1 & R1).
  destruct (Z.eqb_spec s e) as [->|Hne].
  - intros H; injection H as <-. repeat split; auto. intros p. rewrite R1.
    destruct (p =? e); cbn [orb]; destruct (region_at g p); reflexivity.
  - intros E2. apply upd_region_spec in E2. destruct E2 as (G2 & H2 & L2 & R2).
    repeat split; try congruence. intros p. rewrite R2, R1.
    destruct (Z.eqb_spec p e) as [->|Hpe].
    + destruct (Z.eqb_spec e s); [lia|]. cbn [orb]. reflexivity.
    + rewrite orb_false_r. destruct (p =? s); destruct (region_at g p); reflexivity.
Qed.

Lemma enabled_ext g g' : g_g g' = g_g g -> g_h g' = g_h g -> enabled g' = enabled g.
Proof. unfold enabled. intros -> ->. reflexivity. Qed.

Lemma alloc_regions_frame g ty off sz g' :
  alloc_regions g ty off sz = Some g' ->
  g_g g' = g_g g /\ g_h g' = g_h g /\ length (g_regions g') = length (g_regions g).
Proof.
  rewrite alloc_regions_upd2. destruct (negb (enabled g)).
  - intros H; injection H as <-. auto.
  - intros H. apply upd2_spec in H. tauto.
Qed.

Lemma free_regions_frame g off sz g' :
  free_regions g off sz = Some g' ->
  g_g g' = g_g g /\ g_h g' = g_h g /\ length (g_regions g') = length (g_regions g).
Proof.
  rewrite free_regions_upd2. destruct (negb (enabled g)).
  - intros H; injection H as <-. auto.
  - intros H. apply upd2_spec in H. tauto.
Qed.

Lemma region_at_repeat h gz n p r :
  region_at (mkGran h gz (repeat (0, 0) n)) p = Some r -> r = (0, 0).
Proof.
  unfold region_at; cbn [g_regions]. destruct (p <? 0); [discriminate|].
  intros H. apply nth_error_In in H. apply repeat_spec in H. exact H.
Qed.

(* what a "no conflict" answer of CheckConflictAndAlignUp says about the table *)
Lemma check_conflict_sound g a sz ro rs ty off :
  enabled g = true ->
  check_conflict g a sz ro rs ty = Some (off, false) ->
  (exists r, region_at g (start_slot g off) = Some r /\ slot_conflicts r ty = false) /\
  (end_slot g off sz = start_slot g off \/
   exists r, region_at g (end_slot g off sz) = Some r /\ slot_conflicts r ty = false).
Proof.
  intros Hen. unfold check_conflict. rewrite Hen. cbn [negb].
  assert (Hend : forall o,
             (exists r, region_at g (start_slot g o) = Some r /\ slot_conflicts r ty = false) ->
             (if end_slot g o sz =? start_slot g o then Some (o, false)
              else match region_at g (end_slot g o sz) with
                   | None => None
                   | Some r => Some (o, slot_conflicts r ty)
                   end) = Some (off, false) ->
             (exists r, region_at g (start_slot g off) = Some r /\ slot_conflicts r ty = false) /\
             (end_slot g off sz = start_slot g off \/
              exists r, region_at g (end_slot g off sz) = Some r /\ slot_conflicts r ty = false)).
  { intros o Hst. destruct (Z.eqb_spec (end_slot g o sz) (start_slot g o)) as [E|E].
    - intros H; injection H as <-. auto.
    - destruct (region_at g (end_slot g o sz)) as [re|] eqn:Hre; [|discriminate].
      intros H; injection H as <- Hc. split; auto. right. exists re. auto. }
  destruct (region_at g (start_slot g a)) as [r1|] eqn:Hr1; [|discriminate].
  destruct (slot_conflicts r1 ty) eqn:Hc1.
  - destruct (rs <? sz + align_up a (g_g g) - ro); [intros H; injection H; discriminate|].
    destruct (region_at g (start_slot g (align_up a (g_g g)))) as [r2|] eqn:Hr2; [|discriminate].
    destruct (slot_conflicts r2 ty) eqn:Hc2; [intros H; injection H; discriminate|].
    apply Hend. exists r2. auto.
  - apply Hend. exists r1. auto.
Qed.

(* ================================================================== 4. spans and what an entry means *)

(* a live allocation as the handler sees it: offset, size, kind *)
Definition span : Type := (Z * Z * Z)%type.
Definition s_off (s : span) : Z := fst (fst s).
Definition s_size (s : span) : Z := snd (fst s).
Definition s_kind (s : span) : Z := snd s.

Definition first_page (gz : Z) (s : span) : Z := s_off s / gz.
Definition last_page (gz : Z) (s : span) : Z := (s_off s + s_size s - 1) / gz.

(* the pages on which AllocRegions / FreeRegions count the span: its first and its last page *)
Definition touchb (gz p : Z) (s : span) : bool := (p =? first_page gz s) || (p =? last_page gz s).

Definition tcount (gz p : Z) (L : list span) : Z := Z.of_nat (length (filter (touchb gz p) L)).

Lemma tcount_nonneg gz p L : 0 <= tcount gz p L.
Proof. unfold tcount. lia. Qed.

Lemma tcount_app gz p L1 L2 : tcount gz p (L1 ++ L2) = tcount gz p L1 + tcount gz p L2.
Proof. unfold tcount. rewrite filter_app, app_length. lia. Qed.

Lemma tcount_cons gz p s L : tcount gz p (s :: L) = (if touchb gz p s then 1 else 0) + tcount gz p L.
Proof. unfold tcount. cbn [filter]. destruct (touchb gz p s); cbn [length]; lia. Qed.

Lemma tcount_insert gz p L1 s L2 :
  tcount gz p (L1 ++ s :: L2) = tcount gz p (L1 ++ L2) + (if touchb gz p s then 1 else 0).
Proof. rewrite !tcount_app, tcount_cons. lia. Qed.

Lemma tcount_pos gz p L s : In s L -> touchb gz p s = true -> 0 < tcount gz p L.
Proof.
  intros Hin Ht. unfold tcount.
  assert (H : In s (filter (touchb gz p) L)) by (apply filter_In; auto).
  destruct (filter (touchb gz p) L); [destruct H|cbn; lia].
Qed.

Lemma in_insert {A} (x s : A) L1 L2 : In x (L1 ++ s :: L2) <-> x = s \/ In x (L1 ++ L2).
Proof. rewrite !in_app_iff. cbn. intuition. Qed.

(* The meaning of the entry (ty, c) of page p, for the list L of live spans; n = number of live
   spans having p as first or last page (once if both):
     - c is n modulo 2^32 (the counter is a uint32);
     - n = 0: the type is Free;
     - n > 0: the type is a kind of the enum with the same conflict set as the kind of every
       span counted on the page; if it conflicts with itself (Unknown, ImageUnknown) then n = 1. *)
Definition page_ok (gz : Z) (L : list span) (p : Z) (r : Z * Z) : Prop :=
  let n := tcount gz p L in
  snd r = n mod 4294967296 /\
  (n = 0 -> fst r = 0) /\
  (0 < n -> kind_ok (fst r) /\ (conflict (fst r) (fst r) = true -> n = 1) /\
            forall s, In s L -> touchb gz p s = true -> same_class (fst r) (s_kind s)).

Lemma page_ok_nil gz p : page_ok gz [] p (0, 0).
Proof. unfold page_ok, tcount; cbn. repeat split; auto; lia. Qed.

(* AllocRegions on a page of the new span: needs the answer "no conflict" for that page and that
   the counter does not wrap (fewer than 2^32 spans counted so far) *)
Lemma page_ok_alloc gz L1 L2 p r s :
  page_ok gz (L1 ++ L2) p r -> touchb gz p s = true ->
  tcount gz p (L1 ++ L2) < 4294967296 ->
  slot_conflicts r (s_kind s) = false -> kind_ok (s_kind s) ->
  page_ok gz (L1 ++ s :: L2) p (alloc_one (s_kind s) r).
Proof.
  destruct r as [ty c]. unfold page_ok. cbn [fst snd].
  intros (Hc & Hz & Hp) Ht Hlt Hsc Hk.
  rewrite tcount_insert, Ht.
  pose proof (tcount_nonneg gz p (L1 ++ L2)) as Hn0.
  set (n := tcount gz p (L1 ++ L2)) in *.
  assert (Hcn : c = n) by lia.
  unfold alloc_one. cbn [fst snd].
  split; [lia|]. split; [lia|]. intros _.
  destruct (Z.eq_dec n 0) as [En|En].
  - (* first span on the page *)
    assert (E : (c =? 0) || ((c >? 0) && (ty =? 0)) = true) by lia. rewrite E.
    split; [exact Hk|]. split; [lia|].
    intros x Hx Hxt. apply in_insert in Hx. destruct Hx as [->|Hx]; [apply same_class_refl|].
    pose proof (tcount_pos _ _ _ _ Hx Hxt). lia.
  - destruct (Hp ltac:(lia)) as (Hty & Hself & Hall).
    unfold kind_ok in Hty.
    assert (E : (c =? 0) || ((c >? 0) && (ty =? 0)) = false) by lia. rewrite E.
    unfold slot_conflicts in Hsc. cbn [fst snd] in Hsc.
    assert (Hcf : conflict ty (s_kind s) = false).
    { destruct (conflict ty (s_kind s)); auto. lia. }
    pose proof (nonconflict_same_class _ _ Hty Hk Hcf) as Hsame.
    split; [exact Hty|]. split.
    + intros Hs. rewrite (Hsame ty), conflict_sym, Hcf in Hs. discriminate.
    + intros x Hx Hxt. apply in_insert in Hx. destruct Hx as [->|Hx]; auto.
Qed.

Lemma page_ok_insert_other gz L1 L2 p r s :
  page_ok gz (L1 ++ L2) p r -> touchb gz p s = false -> page_ok gz (L1 ++ s :: L2) p r.
Proof.
  unfold page_ok. intros (Hc & Hz & Hp) Ht. rewrite tcount_insert, Ht, Z.add_0_r.
  split; [auto|]. split; [auto|]. intros Hn. destruct (Hp Hn) as (H1 & H2 & H3).
  split; [exact H1|]. split; [exact H2|].
  intros x Hx Hxt. apply in_insert in Hx. destruct Hx as [->|Hx]; auto. congruence.
Qed.

(* FreeRegions on a page of the span being freed; n <= 2^32 *)
Lemma page_ok_free gz L1 L2 p r s :
  page_ok gz (L1 ++ s :: L2) p r -> touchb gz p s = true ->
  tcount gz p (L1 ++ s :: L2) <= 4294967296 ->
  page_ok gz (L1 ++ L2) p (free_one r).
Proof.
  destruct r as [ty c]. unfold page_ok. cbn [fst snd].
  rewrite tcount_insert. intros (Hc & Hz & Hp) Ht. rewrite Ht in *. intros Hle.
  pose proof (tcount_nonneg gz p (L1 ++ L2)) as Hn0.
  set (n := tcount gz p (L1 ++ L2)) in *.
  unfold free_one. cbn [fst snd].
  assert (Hc' : (c - 1) mod 4294967296 = n mod 4294967296) by lia.
  rewrite Hc'. split; [reflexivity|].
  destruct (Hp ltac:(lia)) as (Hty & Hself & Hall).
  split.
  - intros ->. reflexivity.
  - intros Hn. assert (E : n mod 4294967296 =? 0 = false) by lia. rewrite E.
    split; [exact Hty|]. split; [intros Hs; specialize (Hself Hs); lia|].
    intros x Hx Hxt. apply Hall; auto. apply in_insert. auto.
Qed.

Lemma page_ok_remove_other gz L1 L2 p r s :
  page_ok gz (L1 ++ s :: L2) p r -> touchb gz p s = false -> page_ok gz (L1 ++ L2) p r.
Proof.
  unfold page_ok. rewrite tcount_insert. intros (Hc & Hz & Hp) Ht. rewrite Ht, Z.add_0_r in *.
  split; [auto|]. split; [auto|]. intros Hn. destruct (Hp Hn) as (H1 & H2 & H3).
  split; [exact H1|]. split; [exact H2|].
  intros x Hx Hxt. apply H3; auto. apply in_insert. auto.
Qed.

(* ------------------------------------------------------------------ the whole table *)

Definition table_ok (g : gran) (L : list span) : Prop :=
  forall p r, region_at g p = Some r -> page_ok (g_g g) L p r.

Lemma touchb_slots g p off sz k :
  pow2 (g_g g) ->
  (p =? start_slot g off) || (p =? end_slot g off sz) = touchb (g_g g) p (off, sz, k).
Proof.
  intros Hp. rewrite start_slot_div, end_slot_div by auto. reflexivity.
Qed.

Theorem alloc_regions_table_ok g L1 L2 k off sz g' a ro rs :
  pow2 (g_g g) -> enabled g = true -> kind_ok k ->
  table_ok g (L1 ++ L2) ->
  check_conflict g a sz ro rs k = Some (off, false) ->
  alloc_regions g k off sz = Some g' ->
  (forall p, touchb (g_g g) p (off, sz, k) = true -> tcount (g_g g) p (L1 ++ L2) < 4294967296) ->
  table_ok g' (L1 ++ (off, sz, k) :: L2).
Proof.
  intros Hp2 Hen Hk Htab Hcc Hal Hnw.
  rewrite alloc_regions_upd2, Hen in Hal. cbn [negb] in Hal.
  apply upd2_spec in Hal. destruct Hal as (Hg & _ & _ & Hreg).
  destruct (check_conflict_sound _ _ _ _ _ _ _ Hen Hcc) as ((rs0 & Hrs0 & Hcs) & Hce).
  intros p r' Hr'. rewrite Hg. rewrite Hreg in Hr'.
  destruct (region_at g p) as [r|] eqn:Hr; [|discriminate]. cbn [option_map] in Hr'.
  rewrite (touchb_slots g p off sz k Hp2) in Hr'. injection Hr' as <-.
  destruct (touchb (g_g g) p (off, sz, k)) eqn:Ht.
  - change k with (s_kind (off, sz, k)). apply page_ok_alloc; auto.
    cbn [s_kind snd].
    rewrite <- (touchb_slots g p off sz k Hp2) in Ht.
    destruct (Z.eqb_spec p (start_slot g off)) as [->|Hne].
    + congruence.
    + cbn [orb] in Ht. apply Z.eqb_eq in Ht. subst p.
      destruct Hce as [E|(re & Hre & Hcre)]; congruence.
  - apply page_ok_insert_other; auto.
Qed.

Theorem free_regions_table_ok g L1 L2 k off sz g' :
  pow2 (g_g g) -> enabled g = true ->
  table_ok g (L1 ++ (off, sz, k) :: L2) ->
  free_regions g off sz = Some g' ->
  (forall p, tcount (g_g g) p (L1 ++ (off, sz, k) :: L2) <= 4294967296) ->
  table_ok g' (L1 ++ L2).
Proof.
  intros Hp2 Hen Htab Hfr Hnw.
  rewrite free_regions_upd2, Hen in Hfr. cbn [negb] in Hfr.
  apply upd2_spec in Hfr. destruct Hfr as (Hg & _ & _ & Hreg).
  intros p r' Hr'. rewrite Hg. rewrite Hreg in Hr'.
  destruct (region_at g p) as [r|] eqn:Hr; [|discriminate]. cbn [option_map] in Hr'.
  rewrite (touchb_slots g p off sz k Hp2) in Hr'. injection Hr' as <-.
  destruct (touchb (g_g g) p (off, sz, k)) eqn:Ht.
  - eapply page_ok_free; eauto.
  - eapply page_ok_remove_other; eauto.
Qed.

Lemma table_ok_clear g : table_ok (gran_clear g) [].
Proof.
  intros p r Hr. unfold gran_clear in Hr. apply region_at_repeat in Hr. subst r. apply page_ok_nil.
Qed.

Lemma table_ok_init h gr size : table_ok (gran_init h gr size) [].
Proof.
  intros p r Hr. unfold gran_init in Hr. destruct (enabled _).
  - apply region_at_repeat in Hr. subst r. apply page_ok_nil.
  - unfold region_at in Hr; cbn in Hr. destruct (p <? 0); [discriminate|].
    destruct (Z.to_nat p); discriminate.
Qed.

(* two spans counted on the same page: unless the second is of a self-conflicting kind, they do
   not conflict *)
Theorem table_ok_no_conflict g L p r a b :
  table_ok g L -> region_at g p = Some r -> In a L -> In b L ->
  touchb (g_g g) p a = true -> touchb (g_g g) p b = true ->
  conflict (s_kind a) (s_kind b) = conflict (s_kind b) (s_kind b).
Proof.
  intros Htab Hr Ha Hb Hta Htb. destruct (Htab p r Hr) as (_ & _ & Hp).
  pose proof (tcount_pos _ _ _ _ Ha Hta) as Hn. destruct (Hp Hn) as (_ & _ & Hall).
  eapply same_class_pair; eauto.
Qed.

(* when no span is live every entry is (Free, 0) *)
Theorem table_ok_empty g p r : table_ok g [] -> region_at g p = Some r -> r = (0, 0).
Proof.
  intros Htab Hr. destruct (Htab p r Hr) as (Hc & Hz & _). unfold tcount in *; cbn in *.
  destruct r as [ty c]; cbn in *. rewrite (Hz eq_refl), Hc. reflexivity.
Qed.

(* ------------------------------------------------------------------ at most g spans on a page *)

(* spans in ascending address order, pairwise disjoint, each non-empty, all at or above o *)
Fixpoint asc (o : Z) (L : list span) : Prop :=
  match L with
  | [] => True
  | s :: r => o <= s_off s /\ 0 < s_size s /\ asc (s_off s + s_size s) r
  end.

Lemma asc_weaken o o' L : o' <= o -> asc o L -> asc o' L.
Proof. destruct L; cbn; auto. intros H (H1 & H2 & H3). repeat split; auto; lia. Qed.

Lemma touchb_byte gz p s :
  0 < gz -> 0 < s_size s -> touchb gz p s = true ->
  s_off s < gz * p + gz /\ gz * p < s_off s + s_size s.
Proof.
  intros Hg Hs Ht. unfold touchb, first_page, last_page in Ht.
  pose proof (div_bounds (s_off s) gz Hg). pose proof (div_bounds (s_off s + s_size s - 1) gz Hg).
  apply orb_true_iff in Ht. destruct Ht as [E|E]; apply Z.eqb_eq in E; subst p; lia.
Qed.

Lemma tcount_bound gz p o L :
  0 < gz -> asc o L -> tcount gz p L <= Z.max 0 (gz * p + gz - Z.max o (gz * p)).
Proof.
  intros Hg. revert o; induction L as [|s L IH]; intros o Hasc.
  - unfold tcount; cbn. lia.
  - cbn [asc] in Hasc. destruct Hasc as (Ho & Hs & Hrest).
    rewrite tcount_cons. specialize (IH _ Hrest).
    destruct (touchb gz p s) eqn:Ht; [|lia].
    pose proof (touchb_byte _ _ _ Hg Hs Ht). lia.
Qed.

Theorem tcount_le_g gz p L : 0 < gz -> asc 0 L -> tcount gz p L <= gz.
Proof.
  intros Hg Hasc. pose proof (tcount_bound gz p 0 L Hg Hasc). lia.
Qed.
