(* VamWorld.v — the harness side of the correspondence run of Vam.v: the bookkeeping and applicability
   rules of harness/cmd/vamh/world.go (World.Step / World.exec: which op lines are executed and which are
   skipped, the fault pseudo-op, slot liveness) and the observable state dump of observe.go, as data the
   OCaml driver only has to print.  Nothing here models library code. *)
From Coq Require Import ZArith NArith List Bool Lia.
From Arsenal Require SyncMem Budget Pass Defrag.
From Arsenal Require Import VamDev VamBlockList VamDefrag Vam.
Import ListNotations.
Open Scope Z_scope.

Definition MAX_SLOTS : Z := 160.
Definition MAX_POOLS : Z := 8.

(* slotInfo (the fields that decide applicability) / poolInfo *)
Record hslot := mkHslot { hs_live : bool; hs_ever : bool; hs_maps : Z;
                          hs_res : Z;          (* resource slot created together with the allocation, or -1 *)
                          hs_align : Z;        (* reqAlign *)
                          hs_wantded : bool }.
(* resInfo *)
Record hres := mkHres { hr_live : bool; hr_id : Z; hr_image : bool; hr_kind : Z; hr_req : resreq;
                        hr_owner : Z; hr_bound : bool; hr_at : Z }.
Record hpool := mkHpool { hp_live : bool; hp_uid : Z; hp_type : Z }.

(* moveInfo: source slot, decision, slot of the temporary *)
Record hmove := mkHmove { hm_src : Z; hm_dec : Z; hm_tmp : Z }.
(* defragInfo *)
Record hdefrag := mkHdefrag { hd_begun : bool; hd_inpass : bool; hd_pool : Z; hd_moves : list hmove }.

Record world := mkWorld {
  w_v : option vam;          (* w.alloc *)
  w_destroyed : bool;
  w_poisoned : bool;
  w_slots : list hslot;
  w_pools : list hpool;
  w_pending : option fault;  (* pendingFault *)
  w_defrag : list hdefrag;
  w_run : option dfrun;      (* the DefragmentationContext of the run in progress (one run at a time) *)
  w_res : list hres }.

Definition MAX_DEFRAG : Z := 4.
Definition MAX_RES : Z := 64.
Definition hres_none : hres := mkHres false 0 false 0 (mkResreq 0 0 0 false false) (-1) false (-1).

Definition world_init : world :=
  mkWorld None false false (repeat (mkHslot false false 0 (-1) 0 false) (Z.to_nat MAX_SLOTS))
          (repeat (mkHpool false 0 0) (Z.to_nat MAX_POOLS)) None
          (repeat (mkHdefrag false false (-1) []) (Z.to_nat MAX_DEFRAG)) None (repeat hres_none (Z.to_nat MAX_RES)).

(* op lines *)
Inductive wop :=
| WNew
| WAlloc (a size align tb usage flags req pref ctb pool : Z)
| WAllocN (a0 n size align tb usage flags req pref ctb pool : Z)
| WFree (a : Z)
| WFreeN (a0 n : Z)
| WMap (a : Z)
| WUnmap (a : Z)
| WRw (a : Z)
| WFlush (inval : bool) (a off size : Z)
| WMkPool (p ty flags bs minB maxB minAlign : Z)
| WRmPool (p : Z)
| WStats (detailed : Z)
| WDestroy
| WFault (kind k result sticky : Z)
| WDBegin (d flags pool maxBytes maxAllocs : Z)
| WDPass (d : Z)
| WDMove (d i dec : Z)
| WDEnd (d : Z)
| WDFin (d : Z)
| WCBuf (r a size align tb reqDed prefDed bufUsage usage flags req pref ctb pool minAlign : Z)
| WCImg (r a tiling size align tb reqDed prefDed imgUsage usage flags req pref ctb pool : Z)
| WDRes (image : bool) (r a : Z)
| WRRes (image : bool) (r tiling size align tb reqDed prefDed : Z)
| WRdRes (r : Z)
| WARes (image : bool) (a r usage flags req pref ctb pool : Z)
| WBRes (image : bool) (a r off : Z)
| WUnsupported.

Inductive wres := WOk | WErr (code : Z) | WPanic | WSkip | WStuck.

Definition slot_ok (a : Z) : bool := (0 <=? a) && (a <? MAX_SLOTS).
Definition pool_ok (p : Z) : bool := (0 <=? p) && (p <? MAX_POOLS).

Definition hslot_at (w : world) (a : Z) : hslot :=
  match nth_z (w_slots w) a with Some s => s | None => mkHslot false false 0 (-1) 0 false end.
Definition hpool_at (w : world) (p : Z) : hpool :=
  match nth_z (w_pools w) p with Some s => s | None => mkHpool false 0 0 end.

Definition set_hslot (w : world) (a : Z) (s : hslot) : world :=
  mkWorld (w_v w) (w_destroyed w) (w_poisoned w) (set_nth_z (w_slots w) a s) (w_pools w) (w_pending w)
          (w_defrag w) (w_run w) (w_res w).
Definition set_hpool (w : world) (p : Z) (s : hpool) : world :=
  mkWorld (w_v w) (w_destroyed w) (w_poisoned w) (w_slots w) (set_nth_z (w_pools w) p s) (w_pending w)
          (w_defrag w) (w_run w) (w_res w).
Definition set_wv (w : world) (v : vam) : world :=
  mkWorld (Some v) (w_destroyed w) (w_poisoned w) (w_slots w) (w_pools w) (w_pending w) (w_defrag w) (w_run w) (w_res w).
Definition set_destroyed (w : world) : world :=
  mkWorld (w_v w) true (w_poisoned w) (w_slots w) (w_pools w) (w_pending w) (w_defrag w) (w_run w) (w_res w).
Definition set_poisoned (w : world) : world :=
  mkWorld (w_v w) (w_destroyed w) true (w_slots w) (w_pools w) (w_pending w) (w_defrag w) (w_run w) (w_res w).
Definition set_pending (w : world) (f : option fault) : world :=
  mkWorld (w_v w) (w_destroyed w) (w_poisoned w) (w_slots w) (w_pools w) f (w_defrag w) (w_run w) (w_res w).
Definition set_hdefrag (w : world) (d : Z) (h : hdefrag) : world :=
  mkWorld (w_v w) (w_destroyed w) (w_poisoned w) (w_slots w) (w_pools w) (w_pending w)
          (set_nth_z (w_defrag w) d h) (w_run w) (w_res w).
Definition set_run (w : world) (r : option dfrun) : world :=
  mkWorld (w_v w) (w_destroyed w) (w_poisoned w) (w_slots w) (w_pools w) (w_pending w) (w_defrag w) r (w_res w).
Definition set_hres (w : world) (r : Z) (h : hres) : world :=
  mkWorld (w_v w) (w_destroyed w) (w_poisoned w) (w_slots w) (w_pools w) (w_pending w) (w_defrag w) (w_run w)
          (set_nth_z (w_res w) r h).
Definition hres_at (w : world) (r : Z) : hres :=
  match nth_z (w_res w) r with Some h => h | None => hres_none end.
Definition res_ok (r : Z) : bool := (0 <=? r) && (r <? MAX_RES).

Definition hdefrag_at (w : world) (d : Z) : hdefrag :=
  match nth_z (w_defrag w) d with Some h => h | None => mkHdefrag false false (-1) [] end.
Definition defrag_ok (d : Z) : bool := (0 <=? d) && (d <? MAX_DEFRAG).

(* inPendingMove *)
Definition in_pending_move (w : world) (a : Z) : bool :=
  existsb (fun h => hd_inpass h && existsb (fun m => hm_src m =? a) (hd_moves h)) (w_defrag w).
Definition any_begun (w : world) : bool := existsb hd_begun (w_defrag w).

(* noteAlloc / markDead *)
Definition note_alloc_full (w : world) (a align : Z) (wantded : bool) (res : Z) : world :=
  set_hslot w a (mkHslot true true 0 res align wantded).
(* markDead: raw resources bound to the allocation lose their binding on the device (ForgetBinding) *)
Definition mark_dead (w : world) (a : Z) : world :=
  let forget (v : vam) :=
    fold_left (fun v' h => if hr_live h && hr_bound h && (hr_at h =? a)
                           then set_m v' (dev_forget_binding (v_m v') (hr_id h)) else v') (w_res w) v in
  let w1 := match w_v w with Some v => set_wv w (forget v) | None => w end in
  let s := hslot_at w1 a in
  set_hslot w1 a (mkHslot false (hs_ever s) 0 (-1) (hs_align s) (hs_wantded s)).
Definition set_maps (w : world) (a n : Z) : world :=
  let s := hslot_at w a in set_hslot w a (mkHslot (hs_live s) (hs_ever s) n (hs_res s) (hs_align s) (hs_wantded s)).

(* createInfo: the pool argument; None = not applicable *)
Definition pool_arg (w : world) (pool : Z) : option (option Z) :=
  if pool <? 0 then Some None
  else if (MAX_POOLS <=? pool) || negb (hp_live (hpool_at w pool)) then None
  else Some (Some (hp_uid (hpool_at w pool))).

Section WithCfg.
Variable c : vcfg.

(* what to do with an op line: skip it, or call the library and then update the bookkeeping *)
Inductive plan :=
| PSkip
| PCall (o : op) (post : world -> world)   (* post is applied when the call returned no error *)
| PCall2 (o : op) (post_ok post_err : world -> world).

Definition all_slots (w : world) (a0 : Z) (n : nat) (p : hslot -> bool) : bool :=
  forallb (fun s => p (hslot_at w s)) (slot_range a0 n).

Definition fold_slots (f : world -> Z -> world) (a0 : Z) (n : nat) (w : world) : world :=
  fold_left f (slot_range a0 n) w.

(* World.exec after `new` *)
Definition plan_of (w : world) (v : vam) (o : wop) : plan :=
  match o with
  | WAlloc a size align tb usage flags req pref ctb pool =>
    if negb (slot_ok a) then PSkip else
    match pool_arg w pool with
    | None => PSkip
    | Some po =>
      let wasLive := hs_live (hslot_at w a) in
      PCall (OAlloc a size align tb usage flags req pref ctb po)
            (fun w' => if wasLive then w' else note_alloc_full w' a align (fl flags F_DEDICATED || (usage =? 1)) (-1))
    end
  | WAllocN a0 n size align tb usage flags req pref ctb pool =>
    if negb (slot_ok a0) || (n <? 0) || (negb (slot_ok (a0 + n - 1)) && (0 <? n)) then PSkip else
    match pool_arg w pool with
    | None => PSkip
    | Some po =>
      let anyLive := negb (all_slots w a0 (Z.to_nat n) (fun s => negb (hs_live s))) in
      PCall (OAllocN a0 n size align tb usage flags req pref ctb po)
            (fun w' => if anyLive then w'
                       else fold_slots (fun w'' s => note_alloc_full w'' s align (fl flags F_DEDICATED || (usage =? 1)) (-1))
                                       a0 (Z.to_nat n) w')
    end
  | WFree a =>
    let s := hslot_at w a in
    if negb (slot_ok a) || negb (hs_ever s) || in_pending_move w a then PSkip
    else if hs_live s && ((0 <=? hs_res s) || (0 <? hs_maps s)) then PSkip
    else PCall (OFree a) (fun w' => mark_dead w' a)
  | WFreeN a0 n =>
    if negb (slot_ok a0) || (n <=? 0) || negb (slot_ok (a0 + n - 1)) then PSkip
    else if negb (all_slots w a0 (Z.to_nat n) (fun s => hs_live s && (hs_maps s =? 0) && (hs_res s <? 0))) then PSkip
    else if existsb (in_pending_move w) (slot_range a0 (Z.to_nat n)) then PSkip
    else PCall (OFreeN a0 n) (fun w' => fold_slots mark_dead a0 (Z.to_nat n) w')
  | WMap a =>
    let s := hslot_at w a in
    if negb (slot_ok a) || negb (hs_live s) then PSkip
    else if negb (host_visible c (a_type (get_alloc v a))) then PSkip
    else if in_pending_move w a then PSkip
    else PCall (OMap a) (fun w' => set_maps w' a (hs_maps s + 1))
  | WUnmap a =>
    let s := hslot_at w a in
    if negb (slot_ok a) || negb (hs_live s) || (hs_maps s =? 0) then PSkip
    else PCall (OUnmap a) (fun w' => set_maps w' a (hs_maps s - 1))
  | WRw a =>
    let s := hslot_at w a in
    if negb (slot_ok a) || negb (hs_live s) then PSkip
    else if negb (host_visible c (a_type (get_alloc v a))) then PSkip
    else PCall (ORw a) (fun w' => w')
  | WFlush inval a off size =>
    let s := hslot_at w a in
    if negb (slot_ok a) || negb (hs_live s) then PSkip
    else if (hs_maps s =? 0) && negb (a_persist (get_alloc v a)) then PSkip
    else PCall (OFlush inval a off size) (fun w' => w')
  | WMkPool p ty flags bs minB maxB minAlign =>
    if negb (pool_ok p) || hp_live (hpool_at w p) then PSkip
    else PCall (OMkPool ty flags bs minB maxB minAlign) (fun w' => set_hpool w' p (mkHpool true (v_next_uid v) ty))
  | WRmPool p =>
    if negb (pool_ok p) || negb (hp_live (hpool_at w p)) then PSkip
    else if existsb (fun h => hd_begun h && (hd_pool h =? p)) (w_defrag w) then PSkip
    else PCall (ORmPool (hp_uid (hpool_at w p)))
               (fun w' => set_hpool w' p (mkHpool false (hp_uid (hpool_at w p)) (hp_type (hpool_at w p))))
  | WStats d => PCall (OStats (negb (d =? 0))) (fun w' => w')
  | WDestroy =>
    if any_begun w then PSkip else PCall ODestroy set_destroyed
  | WCBuf r a size align tb reqDed prefDed bufUsage usage flags req pref ctb pool minAlign =>
    if negb (res_ok r) || hr_live (hres_at w r) || negb (slot_ok a) || hs_live (hslot_at w a) then PSkip else
    match pool_arg w pool with
    | None => PSkip
    | Some po =>
      if (0 <=? pool) && negb (Z.testbit tb (hp_type (hpool_at w pool))) then PSkip else
      let rq := mkResreq size align tb (negb (reqDed =? 0)) (negb (prefDed =? 0)) in
      let id := m_next_res (v_m v) + 1 in
      let wantded := fl flags F_DEDICATED || (usage =? 1) || (rq_reqded rq && (11 <=? c_api c)) in
      PCall (OCreateBuf a size rq bufUsage minAlign usage flags req pref ctb po)
            (fun w' => note_alloc_full (set_hres w' r (mkHres true id false 1 rq a (negb (fl flags F_DONTBIND)) a))
                                       a (if align <? minAlign then minAlign else align) wantded r)
    end
  | WCImg r a tiling size align tb reqDed prefDed imgUsage usage flags req pref ctb pool =>
    if negb (res_ok r) || hr_live (hres_at w r) || negb (slot_ok a) || hs_live (hslot_at w a) then PSkip else
    match pool_arg w pool with
    | None => PSkip
    | Some po =>
      if (0 <=? pool) && negb (Z.testbit tb (hp_type (hpool_at w pool))) then PSkip else
      let rq := mkResreq size align tb (negb (reqDed =? 0)) (negb (prefDed =? 0)) in
      let id := m_next_res (v_m v) + 1 in
      let wantded := fl flags F_DEDICATED || (usage =? 1) || (rq_reqded rq && (11 <=? c_api c)) in
      PCall (OCreateImg a tiling size rq imgUsage usage flags req pref ctb po)
            (fun w' => note_alloc_full (set_hres w' r (mkHres true id true (if tiling =? 0 then 3 else 2) rq a
                                                              (negb (fl flags F_DONTBIND)) a))
                                       a align wantded r)
    end
  | WDRes image r a =>
    let h := hres_at w r in
    let s := hslot_at w a in
    if negb (res_ok r) || negb (hr_live h) || negb (slot_ok a) || negb (hs_live s) || negb (hs_res s =? r)
       || in_pending_move w a || (0 <? hs_maps s) then PSkip
    else if negb (Bool.eqb (hr_image h) image) then PSkip
    else
      let dead (w' : world) := set_hres w' r (mkHres false (hr_id h) (hr_image h) (hr_kind h) (hr_req h) (hr_owner h)
                                                     (hr_bound h) (hr_at h)) in
      PCall2 (ODestroyRes a image (hr_id h))
             (fun w' => mark_dead (dead w') a)
             (fun w' => let s' := hslot_at w' a in
                        set_hslot (dead w') a (mkHslot (hs_live s') (hs_ever s') (hs_maps s') (-1) (hs_align s') (hs_wantded s')))
  | WRRes image r tiling size align tb reqDed prefDed =>
    if negb (res_ok r) || hr_live (hres_at w r) then PSkip else
    let rq := mkResreq size align tb (negb (reqDed =? 0)) (negb (prefDed =? 0)) in
    let kind := if image then (if tiling =? 0 then 3 else 2) else 1 in
    let id := m_next_res (v_m v) + 1 in
    PCall (ORawCreate image kind rq) (fun w' => set_hres w' r (mkHres true id image kind rq (-1) false (-1)))
  | WRdRes r =>
    let h := hres_at w r in
    if negb (res_ok r) || negb (hr_live h) || (0 <=? hr_owner h) then PSkip
    else PCall (ORawDestroy (hr_image h) (hr_id h))
               (fun w' => set_hres w' r (mkHres false (hr_id h) (hr_image h) (hr_kind h) (hr_req h) (hr_owner h)
                                                (hr_bound h) (hr_at h)))
  | WARes image a r usage flags req pref ctb pool =>
    let h := hres_at w r in
    if negb (slot_ok a) || hs_live (hslot_at w a) || negb (res_ok r) || negb (hr_live h)
       || negb (Bool.eqb (hr_image h) image) then PSkip else
    match pool_arg w pool with
    | None => PSkip
    | Some po =>
      let rq := hr_req h in
      let wantded := fl flags F_DEDICATED || (usage =? 1) || (rq_reqded rq && (11 <=? c_api c)) in
      PCall (OAllocFor a image (hr_id h) usage flags req pref ctb po)
            (fun w' => note_alloc_full w' a (rq_align rq) wantded (-1))
    end
  | WBRes image a r off =>
    let h := hres_at w r in
    let s := hslot_at w a in
    if negb (slot_ok a) || negb (hs_live s) || negb (res_ok r) || negb (hr_live h) || hr_bound h
       || negb (Bool.eqb (hr_image h) image) then PSkip else
    let rq := hr_req h in
    let al := get_alloc v a in
    let o := if off <? 0 then 0 else off in
    if negb (Z.testbit (rq_tb rq) (a_type al)) || (a_size al <? o + rq_size rq)
       || ((0 <? rq_align rq) && (negb (Z.rem o (rq_align rq) =? 0) || negb (Z.rem (hs_align s) (rq_align rq) =? 0)))
    then PSkip
    else if rq_reqded rq && (11 <=? c_api c) && negb (hs_wantded s && (o =? 0)) then PSkip
    else PCall (OBind a image (hr_id h) o)
               (fun w' => set_hres w' r (mkHres (hr_live h) (hr_id h) (hr_image h) (hr_kind h) (hr_req h) (hr_owner h) true a))
  | _ => PSkip
  end.

Inductive ltag := LA | LT | LDEV | LRES | LHEAP | LSTATT | LSTATH | LSTATA | LPOOLL | LLIST | LBLK | LOBSPANIC
                | LMOVES | LMV | LDEND | LDSTATS.
Definition line := (ltag * list Z)%type.

Record stepout := mkStepout {
  so_res : wres;
  so_extra : list line;      (* MOVES / MV / DEND / DSTATS *)
  so_faults : option Z;      (* Some n: a fault was armed for this step, n fired *)
  so_calls : list call }.

Definition wres_of (r : result) : wres :=
  match r with ROk => WOk | RErr code => WErr code | RPanic => WPanic | RStuck => WStuck end.

Definition poison_if (r : result) (w : world) : world :=
  match r with RPanic | RStuck => set_poisoned w | _ => w end.

(* the MV line of move i: i srcSlot srcMem srcOff dstMem dstOff size *)
Definition mv_line (v : vam) (i : Z) (mv : Defrag.move) : line :=
  let s := Z.of_nat (Defrag.m_src mv) in
  let t := Z.of_nat (Defrag.m_tmp mv) in
  let a := get_alloc v s in
  let b := get_alloc v t in
  let loc (x : alloc) := if a_allocated x then (a_mem x, match find_offset v x with Some o => o | None => 0 end)
                         else (-1, 0) in
  (LMV, [i; (if s <? MAX_SLOTS then s else -1); fst (loc a); snd (loc a); fst (loc b); snd (loc b); Defrag.m_size mv]).

Fixpoint mv_lines (v : vam) (i : Z) (mvs : list Defrag.move) : list line :=
  match mvs with
  | [] => []
  | mv :: tl => mv_line v i mv :: mv_lines v (i + 1) tl
  end.

(* execDefrag (called with a live, not destroyed allocator) *)
Definition wdefrag (w0 : world) (v : vam) (o : wop) (f : fault) (faulted : bool) : world * stepout :=
  let skip := (w0, mkStepout WSkip [] (if faulted then Some 0 else None) []) in
  let fo (v1 : vam) := if faulted then Some (m_fired (v_m v1)) else None in
  match o with
  | WDBegin d flags pool maxBytes maxAllocs =>
    if negb (defrag_ok d) || any_begun w0 then skip else
    match pool_arg w0 pool with
    | None => skip
    | Some po =>
      let '(v1, run1, r, calls, _) := dstep c v None (DBegin flags po maxBytes maxAllocs) f in
      let w1 := poison_if r (set_wv w0 v1) in
      match r with
      | ROk => (set_run (set_hdefrag w1 d (mkHdefrag true false pool [])) run1, mkStepout WOk [] (fo v1) calls)
      | _ => (w1, mkStepout (wres_of r) [] (fo v1) calls)
      end
    end
  | WDPass d =>
    let h := hdefrag_at w0 d in
    if negb (defrag_ok d) || negb (hd_begun h) || hd_inpass h then skip
    else if existsb (fun s => hs_live s && (0 <? hs_maps s)) (w_slots w0) then skip
    else
      let '(v1, run1, r, calls, dr) := dstep c v (w_run w0) DPass f in
      let w1 := poison_if r (set_run (set_wv w0 v1) run1) in
      match r, dr with
      | ROk, DRMoves mvs =>
        let hms := map (fun mv => mkHmove (let s := Z.of_nat (Defrag.m_src mv) in if s <? MAX_SLOTS then s else -1) 0
                                          (Z.of_nat (Defrag.m_tmp mv))) mvs in
        (set_hdefrag w1 d (mkHdefrag true true (hd_pool h) hms),
         mkStepout WOk ((LMOVES, [zlen mvs]) :: mv_lines v1 0 mvs) (fo v1) calls)
      | _, _ => (w1, mkStepout (wres_of r) [] (fo v1) calls)
      end
  | WDMove d i dec =>
    let h := hdefrag_at w0 d in
    if negb (defrag_ok d) || negb (hd_inpass h) || (i <? 0) || (zlen (hd_moves h) <=? i) || (dec <? 0) || (2 <? dec)
    then skip
    else
      let hms := match nth_z (hd_moves h) i with
                 | Some m => set_nth_z (hd_moves h) i (mkHmove (hm_src m) dec (hm_tmp m))
                 | None => hd_moves h
                 end in
      (set_hdefrag w0 d (mkHdefrag (hd_begun h) (hd_inpass h) (hd_pool h) hms),
       mkStepout WOk [] (if faulted then Some 0 else None) [])
  | WDEnd d =>
    let h := hdefrag_at w0 d in
    if negb (defrag_ok d) || negb (hd_inpass h) then skip
    else
      let '(v1, run1, r, calls, dr) := dstep c v (w_run w0) (DEnd (map hm_dec (hd_moves h))) f in
      let w1 := poison_if r (set_run (set_wv w0 v1) run1) in
      let w2 := set_hdefrag w1 d (mkHdefrag (hd_begun h) false (hd_pool h) (hd_moves h)) in
      let w3 := fold_left (fun w' m =>
                             if (hm_dec m =? 2) && (0 <=? hm_src m) then
                               let rs := hs_res (hslot_at w' (hm_src m)) in
                               let w'' := if 0 <=? rs then
                                            let hr := hres_at w' rs in
                                            set_hres w' rs (mkHres (hr_live hr) (hr_id hr) (hr_image hr) (hr_kind hr)
                                                                   (hr_req hr) (-1) (hr_bound hr) (hr_at hr))
                                          else w' in
                               mark_dead w'' (hm_src m)
                             else w') (hd_moves h) w2 in
      let done := match dr with DRDone true => 1 | _ => 0 end in
      (w3, mkStepout (match r with RErr _ => WErr 0 | other => wres_of other end) [(LDEND, [done])] (fo v1) calls)
  | WDFin d =>
    let h := hdefrag_at w0 d in
    if negb (defrag_ok d) || negb (hd_begun h) || hd_inpass h then skip
    else
      let '(v1, run1, r, calls, dr) := dstep c v (w_run w0) DFin f in
      let w1 := poison_if r (set_run (set_wv w0 v1) None) in
      let w2 := set_hdefrag w1 d (mkHdefrag false false (hd_pool h) (hd_moves h)) in
      let st := match dr with DRStats s => s | _ => Pass.ps_zero end in
      (w2, mkStepout (wres_of r)
                     [(LDSTATS, [Pass.ps_bytes_moved st; Pass.ps_bytes_freed st; Pass.ps_allocs_moved st;
                                 Pass.ps_allocs_freed st])] (fo v1) calls)
  | _ => skip
  end.

Definition is_defrag_op (o : wop) : bool :=
  match o with WDBegin _ _ _ _ _ | WDPass _ | WDMove _ _ _ | WDEnd _ | WDFin _ => true | _ => false end.

(* World.Step *)
Definition wstep (w : world) (o : wop) : world * stepout :=
  if w_poisoned w then (w, mkStepout WSkip [] None [])
  else
    match o with
    | WFault kind k result sticky =>
      (set_pending w (Some (mkFault true kind k result (negb (sticky =? 0)))), mkStepout WOk [] None [])
    | _ =>
      let f := match w_pending w with Some f => f | None => no_fault end in
      let faulted := match w_pending w with Some _ => true | None => false end in
      let w0 := set_pending w None in
      let no_call (r : wres) := (w0, mkStepout r [] (if faulted then Some 0 else None) []) in
      match o, w_v w0 with
      | WNew, Some _ => no_call WSkip
      | WNew, None =>
        match vam_new c (Z.to_nat MAX_SLOTS) with
        | OK v => (set_wv w0 v, mkStepout WOk [] (if faulted then Some 0 else None) [])
        | _ => no_call (WErr 0)
        end
      | _, None => no_call WSkip
      | _, Some v =>
        if w_destroyed w0 then no_call WSkip
        else if is_defrag_op o then wdefrag w0 v o f faulted
        else
          match plan_of w0 v o with
          | PSkip => no_call WSkip
          | PCall lo post =>
            let '(v1, r, calls) := step c v lo f in
            let w1 := poison_if r (set_wv w0 v1) in
            let fo := if faulted then Some (m_fired (v_m v1)) else None in
            (match r with ROk => post w1 | _ => w1 end, mkStepout (wres_of r) [] fo calls)
          | PCall2 lo post_ok post_err =>
            let '(v1, r, calls) := step c v lo f in
            let w1 := poison_if r (set_wv w0 v1) in
            let fo := if faulted then Some (m_fired (v_m v1)) else None in
            (match r with ROk => post_ok w1 | RErr _ => post_err w1 | _ => w1 end, mkStepout (wres_of r) [] fo calls)
          end
      end
    end.

(* ---------------------------------------------------------------- observe() *)

Definition b2z (b : bool) : Z := if b then 1 else 0.

(* poolSlotOf *)
Fixpoint pool_slot_of (hps : list hpool) (i : Z) (uid : Z) : Z :=
  match hps with
  | [] => -2
  | h :: tl => if hp_uid h =? uid then i else pool_slot_of tl (i + 1) uid
  end.

Definition alloc_line (w : world) (v : vam) (s : Z) : list line :=
  let hs := hslot_at w s in
  let a := get_alloc v s in
  if hs_live hs && a_allocated a then
    match find_offset v a with
    | None => [(LOBSPANIC, [])]
    | Some off =>
      let pool := match a_lref a with LDef _ => -1 | LPool uid => pool_slot_of (w_pools w) 0 uid end in
      [(LA, [s; a_mem a; off; a_size a; a_align a; a_type a; a_sub a; hs_maps hs; b2z (a_persist a);
             b2z (a_kind a =? 2); pool])]
    end
  else [].

Definition dev_lines (m : mach) : list line :=
  map (fun d => (LDEV, [dm_id d; dm_type d; dm_size d; b2z (dm_mapped d)])) (m_mems m).

Fixpoint heap_lines (m : mach) (n : nat) (h : Z) : mach * list line :=
  match n with
  | O => (m, [])
  | S k =>
    let '(m1, fields) := heap_budget_full c m h in
    let '(m2, rest) := heap_lines m1 k (h + 1) in
    (m2, (LHEAP, h :: fields) :: rest)
  end.

(* statLine *)
Definition stat_fields (d : dst) : list Z :=
  let zero_a := ds_allocs d =? 0 in
  let zero_u := ds_unused d =? 0 in
  [ds_blocks d; ds_allocs d; ds_block_bytes d; ds_alloc_bytes d; ds_unused d;
   (if zero_a then 0 else ds_amin d); (if zero_a then 0 else ds_amax d);
   (if zero_u then 0 else ds_umin d); (if zero_u then 0 else ds_umax d)].

Fixpoint indexed_lines (tag : ltag) (ds : list dst) (i : Z) : list line :=
  match ds with
  | [] => []
  | d :: tl => (tag, i :: stat_fields d) :: indexed_lines tag tl (i + 1)
  end.

Definition stat_lines (v : vam) : list line :=
  match calculate_statistics c v with
  | None => [(LOBSPANIC, [])]
  | Some (pt, ph, total) => indexed_lines LSTATT pt 0 ++ indexed_lines LSTATH ph 0 ++ [(LSTATA, stat_fields total)]
  end.

Fixpoint pool_lines (v : vam) (hps : list hpool) (p : Z) : list line :=
  match hps with
  | [] => []
  | h :: tl =>
    (if hp_live h then
       match find_pool (v_pools v) (hp_uid h) with
       | Some po => [(LPOOLL, [p; p_id po; hp_type h])]
       | None => [(LOBSPANIC, [])]
       end
     else []) ++ pool_lines v tl (p + 1)
  end.

Fixpoint blk_lines (kind idx : Z) (bs : list block) (pos : Z) : list line :=
  match bs with
  | [] => []
  | b :: tl =>
    let s := bk_sm b in
    (LBLK, [kind; idx; pos; bk_id b; bk_mem b; meta_size (bk_meta b); b2z (meta_is_empty (bk_meta b));
            meta_alloc_count (bk_meta b); meta_sum_free (bk_meta b); SyncMem.mapRefs s; b2z (SyncMem.extra s);
            b2z (SyncMem.mapped s)]) :: blk_lines kind idx tl (pos + 1)
  end.

Definition list_lines (kind idx : Z) (l : blist) (ded : list Z) : list line :=
  (LLIST, [kind; idx; zlen (bl_blocks l); zlen ded]) :: blk_lines kind idx (bl_blocks l) 0.

Fixpoint default_list_lines (v : vam) (n : nat) (t : Z) : list line :=
  match n with
  | O => []
  | S k =>
    (match get_blist v (LDef t) with
     | Some l => list_lines 0 t l (get_dedlist v (LDef t))
     | None => []
     end) ++ default_list_lines v k (t + 1)
  end.

Fixpoint pool_list_lines (v : vam) (hps : list hpool) (p : Z) : list line :=
  match hps with
  | [] => []
  | h :: tl =>
    (if hp_live h then
       match find_pool (v_pools v) (hp_uid h) with
       | Some po => list_lines 1 p (p_list po) (p_ded po)
       | None => [(LOBSPANIC, [])]
       end
     else []) ++ pool_list_lines v tl (p + 1)
  end.

Fixpoint a_lines (w : world) (v : vam) (n : nat) (s : Z) : list line :=
  match n with
  | O => []
  | S k => alloc_line w v s ++ a_lines w v k (s + 1)
  end.

Fixpoint res_lines (m : mach) (hs : list hres) (r : Z) : list line :=
  match hs with
  | [] => []
  | h :: tl =>
    (if hr_live h then
       let '(bm, bo) := match find_res (m_res m) (hr_id h) with
                        | Some d => if rs_bound d then (rs_bmem d, rs_boff d) else (0, 0)
                        | None => (0, 0)
                        end in
       [(LRES, [r; hr_id h; hr_kind h; bm; bo])]
     else []) ++ res_lines m tl (r + 1)
  end.

(* T lines: the temporaries of a pass in progress *)
Fixpoint t_lines_of (v : vam) (d i : Z) (ms : list hmove) : list line :=
  match ms with
  | [] => []
  | m :: tl =>
    let a := get_alloc v (hm_tmp m) in
    (if a_allocated a then
       [(LT, [d; i; a_mem a; match find_offset v a with Some o => o | None => 0 end; a_size a; a_type a])]
     else []) ++ t_lines_of v d (i + 1) tl
  end.

Fixpoint t_lines (v : vam) (hs : list hdefrag) (d : Z) : list line :=
  match hs with
  | [] => []
  | h :: tl => (if hd_inpass h then t_lines_of v d 0 (hd_moves h) else []) ++ t_lines v tl (d + 1)
  end.

(* observe(): the state dump after a step.  The HEAP lines query HeapBudget, which may refetch the budget
   (VK_EXT_memory_budget), so observing changes the state. *)
Definition observe (w : world) : world * list line :=
  match w_v w with
  | None => (w, [])
  | Some v =>
    if w_poisoned w then (w, dev_lines (v_m v) ++ res_lines (v_m v) (w_res w) 0)
    else
      let la := a_lines w v (Z.to_nat MAX_SLOTS) 0 ++ t_lines v (w_defrag w) 0 in
      let ld := dev_lines (v_m v) ++ res_lines (v_m v) (w_res w) 0 in
      let '(m1, lh) := heap_lines (v_m v) (length (c_heaps c)) 0 in
      let v1 := set_m v m1 in
      let ls := stat_lines v1 in
      let lp := pool_lines v1 (w_pools w) 0 in
      let ll := if w_destroyed w then []
                else default_list_lines v1 (length (c_types c)) 0 ++ pool_list_lines v1 (w_pools w) 0 in
      (set_wv w v1, la ++ ld ++ lh ++ ls ++ lp ++ ll)
  end.

End WithCfg.
