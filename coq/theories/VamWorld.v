(* VamWorld.v — the harness side of the correspondence run of Vam.v: the bookkeeping and applicability
   rules of harness/cmd/vamh/world.go (World.Step / World.exec: which op lines are executed and which are
   skipped, the fault pseudo-op, slot liveness) and the observable state dump of observe.go, as data the
   OCaml driver only has to print.  Nothing here models library code. *)
From Coq Require Import ZArith NArith List Bool Lia.
From Arsenal Require SyncMem Budget.
From Arsenal Require Import VamDev VamBlockList Vam.
Import ListNotations.
Open Scope Z_scope.

Definition MAX_SLOTS : Z := 160.
Definition MAX_POOLS : Z := 8.

(* slotInfo (the fields that decide applicability) / poolInfo *)
Record hslot := mkHslot { hs_live : bool; hs_ever : bool; hs_maps : Z }.
Record hpool := mkHpool { hp_live : bool; hp_uid : Z; hp_type : Z }.

Record world := mkWorld {
  w_v : option vam;          (* w.alloc *)
  w_destroyed : bool;
  w_poisoned : bool;
  w_slots : list hslot;
  w_pools : list hpool;
  w_pending : option fault   (* pendingFault *) }.

Definition world_init : world :=
  mkWorld None false false (repeat (mkHslot false false 0) (Z.to_nat MAX_SLOTS))
          (repeat (mkHpool false 0 0) (Z.to_nat MAX_POOLS)) None.

(* op lines *)
Inductive wop :=
| WNew
| WAlloc (a size align tb usage flags req pref ctb pool : Z)
| WAllocN (a0 n size align tb usage flags req pref ctb pool : Z)
| WFree (a : Z)
| WFreeN (a0 n : Z)
| WMap (a : Z)
| WUnmap (a : Z)
| WRw (a : Z)
| WFlush (inval : bool) (a off size : Z)
| WMkPool (p ty flags bs minB maxB minAlign : Z)
| WRmPool (p : Z)
| WStats (detailed : Z)
| WDestroy
| WFault (kind k result sticky : Z)
| WUnsupported.

Inductive wres := WOk | WErr (code : Z) | WPanic | WSkip | WStuck.

Definition slot_ok (a : Z) : bool := (0 <=? a) && (a <? MAX_SLOTS).
Definition pool_ok (p : Z) : bool := (0 <=? p) && (p <? MAX_POOLS).

Definition hslot_at (w : world) (a : Z) : hslot :=
  match nth_z (w_slots w) a with Some s => s | None => mkHslot false false 0 end.
Definition hpool_at (w : world) (p : Z) : hpool :=
  match nth_z (w_pools w) p with Some s => s | None => mkHpool false 0 0 end.

Definition set_hslot (w : world) (a : Z) (s : hslot) : world :=
  mkWorld (w_v w) (w_destroyed w) (w_poisoned w) (set_nth_z (w_slots w) a s) (w_pools w) (w_pending w).
Definition set_hpool (w : world) (p : Z) (s : hpool) : world :=
  mkWorld (w_v w) (w_destroyed w) (w_poisoned w) (w_slots w) (set_nth_z (w_pools w) p s) (w_pending w).
Definition set_wv (w : world) (v : vam) : world :=
  mkWorld (Some v) (w_destroyed w) (w_poisoned w) (w_slots w) (w_pools w) (w_pending w).

(* noteAlloc / markDead *)
Definition note_alloc (w : world) (a : Z) : world := set_hslot w a (mkHslot true true 0).
Definition mark_dead (w : world) (a : Z) : world :=
  set_hslot w a (mkHslot false (hs_ever (hslot_at w a)) 0).

(* createInfo: the pool argument; None = not applicable *)
Definition pool_arg (w : world) (pool : Z) : option (option Z) :=
  if pool <? 0 then Some None
  else if (MAX_POOLS <=? pool) || negb (hp_live (hpool_at w pool)) then None
  else Some (Some (hp_uid (hpool_at w pool))).

Section WithCfg.
Variable c : vcfg.

(* what to do with an op line: skip it, or call the library and then update the bookkeeping *)
Inductive plan :=
| PSkip
| PCall (o : op) (post : world -> world)   (* post is applied when the call returned no error *).

Definition all_slots (w : world) (a0 : Z) (n : nat) (p : hslot -> bool) : bool :=
  forallb (fun s => p (hslot_at w s)) (slot_range a0 n).

Definition fold_slots (f : world -> Z -> world) (a0 : Z) (n : nat) (w : world) : world :=
  fold_left f (slot_range a0 n) w.

(* World.exec after `new` *)
Definition plan_of (w : world) (v : vam) (o : wop) : plan :=
  match o with
  | WAlloc a size align tb usage flags req pref ctb pool =>
    if negb (slot_ok a) then PSkip else
    match pool_arg w pool with
    | None => PSkip
    | Some po =>
      let wasLive := hs_live (hslot_at w a) in
      PCall (OAlloc a size align tb usage flags req pref ctb po)
            (fun w' => if wasLive then w' else note_alloc w' a)
    end
  | WAllocN a0 n size align tb usage flags req pref ctb pool =>
    if negb (slot_ok a0) || (n <? 0) || (negb (slot_ok (a0 + n - 1)) && (0 <? n)) then PSkip else
    match pool_arg w pool with
    | None => PSkip
    | Some po =>
      let anyLive := negb (all_slots w a0 (Z.to_nat n) (fun s => negb (hs_live s))) in
      PCall (OAllocN a0 n size align tb usage flags req pref ctb po)
            (fun w' => if anyLive then w' else fold_slots note_alloc a0 (Z.to_nat n) w')
    end
  | WFree a =>
    let s := hslot_at w a in
    if negb (slot_ok a) || negb (hs_ever s) then PSkip
    else if hs_live s && (0 <? hs_maps s) then PSkip
    else PCall (OFree a) (fun w' => mark_dead w' a)
  | WFreeN a0 n =>
    if negb (slot_ok a0) || (n <=? 0) || negb (slot_ok (a0 + n - 1)) then PSkip
    else if negb (all_slots w a0 (Z.to_nat n) (fun s => hs_live s && (hs_maps s =? 0))) then PSkip
    else PCall (OFreeN a0 n) (fun w' => fold_slots mark_dead a0 (Z.to_nat n) w')
  | WMap a =>
    let s := hslot_at w a in
    if negb (slot_ok a) || negb (hs_live s) then PSkip
    else if negb (host_visible c (a_type (get_alloc v a))) then PSkip
    else PCall (OMap a) (fun w' => set_hslot w' a (mkHslot (hs_live s) (hs_ever s) (hs_maps s + 1)))
  | WUnmap a =>
    let s := hslot_at w a in
    if negb (slot_ok a) || negb (hs_live s) || (hs_maps s =? 0) then PSkip
    else PCall (OUnmap a) (fun w' => set_hslot w' a (mkHslot (hs_live s) (hs_ever s) (hs_maps s - 1)))
  | WRw a =>
    let s := hslot_at w a in
    if negb (slot_ok a) || negb (hs_live s) then PSkip
    else if negb (host_visible c (a_type (get_alloc v a))) then PSkip
    else PCall (ORw a) (fun w' => w')
  | WFlush inval a off size =>
    let s := hslot_at w a in
    if negb (slot_ok a) || negb (hs_live s) then PSkip
    else if (hs_maps s =? 0) && negb (a_persist (get_alloc v a)) then PSkip
    else PCall (OFlush inval a off size) (fun w' => w')
  | WMkPool p ty flags bs minB maxB minAlign =>
    if negb (pool_ok p) || hp_live (hpool_at w p) then PSkip
    else PCall (OMkPool ty flags bs minB maxB minAlign) (fun w' => set_hpool w' p (mkHpool true (v_next_uid v) ty))
  | WRmPool p =>
    if negb (pool_ok p) || negb (hp_live (hpool_at w p)) then PSkip
    else PCall (ORmPool (hp_uid (hpool_at w p)))
               (fun w' => set_hpool w' p (mkHpool false (hp_uid (hpool_at w p)) (hp_type (hpool_at w p))))
  | WStats d => PCall (OStats (negb (d =? 0))) (fun w' => w')
  | WDestroy =>
    PCall ODestroy (fun w' => mkWorld (w_v w') true (w_poisoned w') (w_slots w') (w_pools w') (w_pending w'))
  | _ => PSkip
  end.

Record stepout := mkStepout {
  so_res : wres;
  so_faults : option Z;      (* Some n: a fault was armed for this step, n fired *)
  so_calls : list call }.

(* World.Step *)
Definition wstep (w : world) (o : wop) : world * stepout :=
  if w_poisoned w then (w, mkStepout WSkip None [])
  else
    match o with
    | WFault kind k result sticky =>
      (mkWorld (w_v w) (w_destroyed w) (w_poisoned w) (w_slots w) (w_pools w)
               (Some (mkFault true kind k result (negb (sticky =? 0)))),
       mkStepout WOk None [])
    | _ =>
      let f := match w_pending w with Some f => f | None => no_fault end in
      let faulted := match w_pending w with Some _ => true | None => false end in
      let w0 := mkWorld (w_v w) (w_destroyed w) (w_poisoned w) (w_slots w) (w_pools w) None in
      let no_call (r : wres) := (w0, mkStepout r (if faulted then Some 0 else None) []) in
      match o, w_v w0 with
      | WNew, Some _ => no_call WSkip
      | WNew, None =>
        match vam_new c (Z.to_nat MAX_SLOTS) with
        | OK v => (set_wv w0 v, mkStepout WOk (if faulted then Some 0 else None) [])
        | _ => no_call (WErr 0)
        end
      | _, None => no_call WSkip
      | _, Some v =>
        if w_destroyed w0 then no_call WSkip
        else
          match plan_of w0 v o with
          | PSkip => no_call WSkip
          | PCall lo post =>
            let '(v1, r, calls) := step c v lo f in
            let w1 := set_wv w0 v1 in
            let fo := if faulted then Some (m_fired (v_m v1)) else None in
            match r with
            | ROk => (post w1, mkStepout WOk fo calls)
            | RErr code => (w1, mkStepout (WErr code) fo calls)
            | RPanic =>
              (mkWorld (w_v w1) (w_destroyed w1) true (w_slots w1) (w_pools w1) (w_pending w1),
               mkStepout WPanic fo calls)
            | RStuck =>
              (mkWorld (w_v w1) (w_destroyed w1) true (w_slots w1) (w_pools w1) (w_pending w1),
               mkStepout WStuck fo calls)
            end
          end
      end
    end.

(* ---------------------------------------------------------------- observe() *)

Inductive ltag := LA | LDEV | LHEAP | LSTATT | LSTATH | LSTATA | LPOOLL | LLIST | LBLK | LOBSPANIC.
Definition line := (ltag * list Z)%type.

Definition b2z (b : bool) : Z := if b then 1 else 0.

(* poolSlotOf *)
Fixpoint pool_slot_of (hps : list hpool) (i : Z) (uid : Z) : Z :=
  match hps with
  | [] => -2
  | h :: tl => if hp_uid h =? uid then i else pool_slot_of tl (i + 1) uid
  end.

Definition alloc_line (w : world) (v : vam) (s : Z) : list line :=
  let hs := hslot_at w s in
  let a := get_alloc v s in
  if hs_live hs && a_allocated a then
    match find_offset v a with
    | None => [(LOBSPANIC, [])]
    | Some off =>
      let pool := match a_lref a with LDef _ => -1 | LPool uid => pool_slot_of (w_pools w) 0 uid end in
      [(LA, [s; a_mem a; off; a_size a; a_align a; a_type a; a_sub a; hs_maps hs; b2z (a_persist a);
             b2z (a_kind a =? 2); pool])]
    end
  else [].

Definition dev_lines (m : mach) : list line :=
  map (fun d => (LDEV, [dm_id d; dm_type d; dm_size d; b2z (dm_mapped d)])) (m_mems m).

Fixpoint heap_lines (m : mach) (n : nat) (h : Z) : mach * list line :=
  match n with
  | O => (m, [])
  | S k =>
    let '(m1, fields) := heap_budget_full c m h in
    let '(m2, rest) := heap_lines m1 k (h + 1) in
    (m2, (LHEAP, h :: fields) :: rest)
  end.

(* statLine *)
Definition stat_fields (d : dst) : list Z :=
  let zero_a := ds_allocs d =? 0 in
  let zero_u := ds_unused d =? 0 in
  [ds_blocks d; ds_allocs d; ds_block_bytes d; ds_alloc_bytes d; ds_unused d;
   (if zero_a then 0 else ds_amin d); (if zero_a then 0 else ds_amax d);
   (if zero_u then 0 else ds_umin d); (if zero_u then 0 else ds_umax d)].

Fixpoint indexed_lines (tag : ltag) (ds : list dst) (i : Z) : list line :=
  match ds with
  | [] => []
  | d :: tl => (tag, i :: stat_fields d) :: indexed_lines tag tl (i + 1)
  end.

Definition stat_lines (v : vam) : list line :=
  match calculate_statistics c v with
  | None => [(LOBSPANIC, [])]
  | Some (pt, ph, total) => indexed_lines LSTATT pt 0 ++ indexed_lines LSTATH ph 0 ++ [(LSTATA, stat_fields total)]
  end.

Fixpoint pool_lines (v : vam) (hps : list hpool) (p : Z) : list line :=
  match hps with
  | [] => []
  | h :: tl =>
    (if hp_live h then
       match find_pool (v_pools v) (hp_uid h) with
       | Some po => [(LPOOLL, [p; p_id po; hp_type h])]
       | None => [(LOBSPANIC, [])]
       end
     else []) ++ pool_lines v tl (p + 1)
  end.

Fixpoint blk_lines (kind idx : Z) (bs : list block) (pos : Z) : list line :=
  match bs with
  | [] => []
  | b :: tl =>
    let s := bk_sm b in
    (LBLK, [kind; idx; pos; bk_id b; bk_mem b; meta_size (bk_meta b); b2z (meta_is_empty (bk_meta b));
            meta_alloc_count (bk_meta b); meta_sum_free (bk_meta b); SyncMem.mapRefs s; b2z (SyncMem.extra s);
            b2z (SyncMem.mapped s)]) :: blk_lines kind idx tl (pos + 1)
  end.

Definition list_lines (kind idx : Z) (l : blist) (ded : list Z) : list line :=
  (LLIST, [kind; idx; zlen (bl_blocks l); zlen ded]) :: blk_lines kind idx (bl_blocks l) 0.

Fixpoint default_list_lines (v : vam) (n : nat) (t : Z) : list line :=
  match n with
  | O => []
  | S k =>
    (match get_blist v (LDef t) with
     | Some l => list_lines 0 t l (get_dedlist v (LDef t))
     | None => []
     end) ++ default_list_lines v k (t + 1)
  end.

Fixpoint pool_list_lines (v : vam) (hps : list hpool) (p : Z) : list line :=
  match hps with
  | [] => []
  | h :: tl =>
    (if hp_live h then
       match find_pool (v_pools v) (hp_uid h) with
       | Some po => list_lines 1 p (p_list po) (p_ded po)
       | None => [(LOBSPANIC, [])]
       end
     else []) ++ pool_list_lines v tl (p + 1)
  end.

Fixpoint a_lines (w : world) (v : vam) (n : nat) (s : Z) : list line :=
  match n with
  | O => []
  | S k => alloc_line w v s ++ a_lines w v k (s + 1)
  end.

(* observe(): the state dump after a step.  The HEAP lines query HeapBudget, which may refetch the budget
   (VK_EXT_memory_budget), so observing changes the state. *)
Definition observe (w : world) : world * list line :=
  match w_v w with
  | None => (w, [])
  | Some v =>
    if w_poisoned w then (w, dev_lines (v_m v))
    else
      let la := a_lines w v (Z.to_nat MAX_SLOTS) 0 in
      let ld := dev_lines (v_m v) in
      let '(m1, lh) := heap_lines (v_m v) (length (c_heaps c)) 0 in
      let v1 := set_m v m1 in
      let ls := stat_lines v1 in
      let lp := pool_lines v1 (w_pools w) 0 in
      let ll := if w_destroyed w then []
                else default_list_lines v1 (length (c_types c)) 0 ++ pool_list_lines v1 (w_pools w) 0 in
      (set_wv w v1, la ++ ld ++ lh ++ ls ++ lp ++ ll)
  end.

End WithCfg.
