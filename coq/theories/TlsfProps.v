(* TlsfProps.v — statements about every reachable state of the TLSF model, derived from the
   one-step theorems (TlsfStep.step_preserves).  These are the TLSF halves of C01, C06, C17, C18. *)
From Coq Require Import ZArith List Bool Lia.
From Arsenal Require Import Util Bits Gran Tlsf TlsfGeom TlsfInv1 TlsfFree TlsfAlloc TlsfStep.
Import ListNotations.
Open Scope Z_scope.

Definition run (t : tlsf) (ops : list op) : tlsf := fold_left (fun s o => fst (step s o)) ops t.

Definition cfg_ok (gr size : Z) : Prop := 0 <= size /\ pow2 gr.

Lemma init_TInv h gr size : cfg_ok gr size -> TInv (tlsf_init h gr size).
Proof.
  intros [Hs Hg]. split; [apply init_inv1; auto|].
  unfold tlsf_init, gran_init; cbn. destruct (enabled _); cbn; auto.
Qed.

Lemma run_TInv t ops : TInv t -> Forall op_ok ops -> TInv (run t ops) /\ t_size (run t ops) = t_size t.
Proof.
  revert t; induction ops as [|o ops IH]; intros t Ht Hok; cbn; [auto|].
  inversion Hok as [|? ? Ho Hops]; subst.
  destruct (step_preserves t o Ht Ho) as (Ht' & _ & Hs).
  destruct (IH _ Ht' Hops) as (H1 & H2). split; auto. unfold run in *. cbn. congruence.
Qed.

Theorem reach_TInv h gr size ops :
  cfg_ok gr size -> Forall op_ok ops ->
  TInv (run (tlsf_init h gr size) ops) /\ t_size (run (tlsf_init h gr size) ops) = size.
Proof. intros Hc Hok. apply run_TInv; auto. apply init_TInv; auto. Qed.

(* ------------------------------------------------------------------ C01: exclusive, in bounds, aligned *)

Lemma live_in_chain t a : In a (live t) -> In a (t_chain t) /\ b_free a = false.
Proof.
  unfold live. rewrite filter_In. intros [H1 H2]. split; auto. destruct (b_free a); auto; discriminate.
Qed.

Lemma chain_in_distinct o c a b :
  chain_from o c -> In a c -> In b c -> a <> b ->
  b_off a + b_size a <= b_off b \/ b_off b + b_size b <= b_off a.
Proof.
  intros Hc Ha Hb Hne.
  destruct (In_nth_error _ _ Ha) as (i & Hi). destruct (In_nth_error _ _ Hb) as (j & Hj).
  destruct (Nat.lt_trichotomy i j) as [Hlt|[Heq|Hgt]].
  - left. eapply chain_disjoint; eauto.
  - subst. congruence.
  - right. eapply chain_disjoint; eauto.
Qed.

Theorem inv1_live_sound t :
  Inv1 t -> forall a, In a (live t) ->
    0 <= b_off a /\ b_off a + b_size a <= t_size t /\
    0 < b_reqalign a /\ b_off a mod b_reqalign a = 0 /\ b_reqsize a <= b_size a /\
    forall b, In b (live t) -> a <> b ->
      b_off a + b_size a <= b_off b \/ b_off b + b_size b <= b_off a.
Proof.
  intros [[Hch Hnoff Hnsz Htot Hnfree] Hgh _ _] a Ha.
  destruct (live_in_chain _ _ Ha) as (Hin & Hf).
  pose proof (chain_in_bounds _ _ _ Hch Hin) as (Hlo & Hpos & Hhi).
  rewrite Forall_forall in Hgh. destruct (Hgh _ Hin) as (G1 & G2 & G3 & _).
  repeat split; auto; try lia.
  intros b Hb Hne. destruct (live_in_chain _ _ Hb) as (Hinb & _).
  eapply chain_in_distinct; eauto.
Qed.

Theorem tlsf_alloc_sound h gr size ops :
  cfg_ok gr size -> Forall op_ok ops ->
  let t := run (tlsf_init h gr size) ops in
  forall a, In a (live t) ->
    0 <= b_off a /\ b_off a + b_size a <= size /\
    0 < b_reqalign a /\ b_off a mod b_reqalign a = 0 /\ b_reqsize a <= b_size a /\
    forall b, In b (live t) -> a <> b ->
      b_off a + b_size a <= b_off b \/ b_off b + b_size b <= b_off a.
Proof.
  intros Hc Hok t a Ha. destruct (reach_TInv h gr size ops Hc Hok) as ((Hinv & _) & Hs).
  fold t in Hinv, Hs. rewrite <- Hs. apply inv1_live_sound; auto.
Qed.

(* ------------------------------------------------------------------ C06 / C17: exactness of every step *)

Theorem tlsf_step_exact h gr size ops o :
  cfg_ok gr size -> Forall op_ok ops -> op_ok o ->
  let t := run (tlsf_init h gr size) ops in
  live_effect t o (fst (step t o)) (snd (step t o)).
Proof.
  intros Hc Hok Ho t. destruct (reach_TInv h gr size ops Hc Hok) as (Hinv & _).
  destruct (step_preserves _ o Hinv Ho) as (_ & H & _). exact H.
Qed.

Lemma find_blk_unique o c a : chain_from o c -> In a c -> find_blk (b_off a) c = Some a.
Proof.
  intros Hc Hin. destruct (in_split _ _ Hin) as (pre & post & ->).
  apply find_blk_app; auto. eapply below_of_chain; eauto.
Qed.

(* C17: a live handle resolves to its own block: own offset, own user data *)
Theorem tlsf_lookup_own h gr size ops :
  cfg_ok gr size -> Forall op_ok ops ->
  let t := run (tlsf_init h gr size) ops in
  forall a, In a (live t) ->
    find_blk (b_off a) (t_chain t) = Some a /\ get_user_data t (b_off a) = Some (b_tag a).
Proof.
  intros Hc Hok t a Ha. destruct (reach_TInv h gr size ops Hc Hok) as (([Hgeo _ _ _] & _) & _).
  fold t in Hgeo. destruct (live_in_chain _ _ Ha) as (Hin & Hf).
  pose proof (find_blk_unique _ _ _ (g_chain _ Hgeo) Hin) as Hfb.
  split; auto. unfold get_user_data. rewrite Hfb, Hf. reflexivity.
Qed.

(* C17: iteration visits exactly the live blocks, each once (highest offset first) *)
Lemma filter_rev {A} (f : A -> bool) l : filter f (rev l) = rev (filter f l).
Proof.
  induction l as [|x l IH]; cbn; auto.
  rewrite filter_app, IH. cbn. destruct (f x); cbn; auto. rewrite app_nil_r. reflexivity.
Qed.

Theorem tlsf_iteration_exact t : iterate t = rev (map b_off (live t)).
Proof. unfold iterate, live. rewrite filter_rev, map_rev. reflexivity. Qed.

Lemma chain_offsets_nodup o c : chain_from o c -> NoDup (map b_off c).
Proof.
  revert o; induction c as [|x c IH]; intros o H; cbn; [constructor|].
  cbn in H. destruct H as (Ho & Hs & Hc). constructor; eauto.
  rewrite in_map_iff. intros (y & Hy & Hin). pose proof (chain_in_bounds _ _ _ Hc Hin). lia.
Qed.

Lemma nodup_map_filter {A B} (g : A -> B) (f : A -> bool) l : NoDup (map g l) -> NoDup (map g (filter f l)).
Proof.
  induction l as [|x l IH]; cbn; intros H; [constructor|].
  inversion H as [|? ? Hn Hd]; subst. destruct (f x); cbn; auto.
  constructor; auto. rewrite in_map_iff in *. intros (y & Hy & Hin). apply Hn. exists y. split; auto.
  apply filter_In in Hin. tauto.
Qed.

Theorem tlsf_iteration_nodup h gr size ops :
  cfg_ok gr size -> Forall op_ok ops ->
  let t := run (tlsf_init h gr size) ops in NoDup (iterate t).
Proof.
  intros Hc Hok t. destruct (reach_TInv h gr size ops Hc Hok) as (([Hgeo _ _ _] & _) & _).
  fold t in Hgeo. rewrite tlsf_iteration_exact. apply NoDup_rev.
  unfold live. apply nodup_map_filter. eapply chain_offsets_nodup. apply (g_chain _ Hgeo).
Qed.

(* ------------------------------------------------------------------ C18 (first part): coalescing *)

Lemma naf_adjacent pf c i a b :
  naf pf c -> nth_error c i = Some a -> nth_error c (S i) = Some b ->
  b_free a = true -> b_free b = false.
Proof.
  revert pf i; induction c as [|x c IH]; intros pf i Hn Ha Hb Hf; [destruct i; discriminate|].
  cbn in Hn. destruct Hn as (_ & Hn). destruct i as [|i]; cbn in *.
  - injection Ha as <-. destruct c as [|y c]; [discriminate|]. injection Hb as <-.
    cbn in Hn. destruct Hn as (H & _). auto.
  - eapply IH; eauto.
Qed.

Theorem tlsf_no_adjacent_free h gr size ops :
  cfg_ok gr size -> Forall op_ok ops ->
  let t := run (tlsf_init h gr size) ops in
  forall i a b, nth_error (regions t) i = Some a -> nth_error (regions t) (S i) = Some b ->
                b_free a = true -> b_free b = false.
Proof.
  intros Hc Hok t i a b Ha Hb Hf.
  destruct (reach_TInv h gr size ops Hc Hok) as (([Hgeo _ Hnaf Hlast] & _) & _). fold t in Hgeo, Hnaf, Hlast.
  assert (Hall : naf false (regions t)).
  { unfold regions. apply naf_app. split; auto. cbn. split; auto.
    unfold last_taken in Hlast. rewrite Hlast. discriminate. }
  exact (naf_adjacent _ _ _ _ _ Hall Ha Hb Hf).
Qed.

(* ------------------------------------------------------------------ non-vacuity: a concrete reachable state *)

Definition ex_ops : list op :=
  [ OAlloc 100 16 2 0 false 4611686018427387904 (Some 1);
    OAlloc 50 1 5 1 false 4611686018427387904 (Some 2);
    OAlloc 300 64 2 2 false 4611686018427387904 None;
    OFree 0;
    OAlloc 40 8 2 4 false 4611686018427387904 (Some 4);
    OSetUD 128 (Some 9) ].

Lemma ex_ops_ok : Forall op_ok ex_ops.
Proof.
  repeat constructor; cbn.
  - exists 4; split; [lia|reflexivity].
  - exists 0; split; [lia|reflexivity].
  - exists 6; split; [lia|reflexivity].
  - exists 3; split; [lia|reflexivity].
Qed.

Lemma ex_cfg_ok : cfg_ok 1024 4096.
Proof. split; [lia|exists 10; split; [lia|reflexivity]]. Qed.

Example ex_live_three : length (live (run (tlsf_init HVam 1024 4096) ex_ops)) = 3%nat.
Proof. vm_compute. reflexivity. Qed.
