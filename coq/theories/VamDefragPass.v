(* VamDefragPass.v — BeginDefragPass keeps the representation invariant (block lists of any granularity).

   The move collection is not modelled again in VamDefrag.v: the block list is projected to the state of the
   validated planner model Defrag.v, Defrag.collect_moves runs there, and the result is written back.  This file
   is the bridge in both directions:
     project_wf       VamInv + VamGran.GV of the allocator give DefragGranProofs.WFp (bl_gran l) of the projection of list l;
     collect_list_inv what DefragProofs proves about collect_moves (CInv: WF of the result, the table grows by
                      exactly the temporaries, every live region is an old one or the temporary of a new move)
                      gives VamInv of the state after the write-back and validity of the pending moves. *)
From Coq Require Import ZArith NArith List Bool Lia Permutation.
From Arsenal Require Util Bits Gran GranInv GranTlsf Tlsf TlsfStep TlsfInv2 SyncMem Budget Select Pass PassProofs Defrag DefragGranProofs VamDefragBridge.
From Arsenal Require Import VamDev VamBlockList VamDefrag Vam VamInvMeta VamInv VamInvUpd VamInvDev VamInvStep VamInvStep2 VamInvThm
  VamDefragInv VamDefragStep VamGran.
Import ListNotations.

Module G := DefragGranProofs.
Notation WFp := G.WFp.
Notation CInvp := VamDefragBridge.CInvp.

Open Scope Z_scope.

(* ---------------------------------------------------------------- lists *)

Lemma nth_z_nat {A} (l : list A) (n : nat) : nth_z l (Z.of_nat n) = nth_error l n.
Proof. unfold nth_z. destruct (Z.of_nat n <? 0) eqn:E; [lia|]. rewrite Nat2Z.id. reflexivity. Qed.

Lemma nth_z_to_nat {A} (l : list A) s : 0 <= s -> nth_z l s = nth_error l (Z.to_nat s).
Proof. intros H. unfold nth_z. destruct (s <? 0) eqn:E; [lia|reflexivity]. Qed.

Lemma Forall2_len {A B} (R : A -> B -> Prop) l1 l2 : Forall2 R l1 l2 -> length l1 = length l2.
Proof. induction 1; cbn; congruence. Qed.

Lemma nth_z_app_old {A} (l1 l2 : list A) s : s < zlen l1 -> nth_z (l1 ++ l2) s = nth_z l1 s.
Proof.
  intros H. unfold nth_z. destruct (s <? 0) eqn:E; [reflexivity|]. apply nth_error_app1. unfold zlen in H. lia.
Qed.

Lemma Forall2_nth {A B} (R : A -> B -> Prop) l1 l2 : Forall2 R l1 l2 ->
  forall i x, nth_error l1 i = Some x -> exists y, nth_error l2 i = Some y /\ R x y.
Proof.
  induction 1 as [|a b l1 l2 Hab H IH]; intros i x Hn; [destruct i; discriminate|].
  destruct i as [|i]; cbn in *; [injection Hn as <-; eauto|eauto].
Qed.

Lemma nth_z_app_new {A} (l1 l2 : list A) (i : nat) : nth_z (l1 ++ l2) (zlen l1 + Z.of_nat i) = nth_error l2 i.
Proof.
  unfold nth_z, zlen. destruct (_ <? 0) eqn:E; [lia|]. rewrite nth_error_app2 by lia. f_equal. lia.
Qed.

Lemma nth_z_beyond {A} (l : list A) s : zlen l <= s -> nth_z l s = None.
Proof. intros H. unfold nth_z. destruct (s <? 0); [reflexivity|]. apply nth_error_None. unfold zlen in H. lia. Qed.

Lemma nth_z_neg {A} (l : list A) s : s < 0 -> nth_z l s = None.
Proof. intros H. unfold nth_z. destruct (s <? 0) eqn:E; [reflexivity|lia]. Qed.

Lemma nth_error_seq_lt a n : forall i, (i < n)%nat -> nth_error (seq a n) i = Some (a + i)%nat.
Proof.
  revert a. induction n as [|n IH]; intros a [|i] H; cbn; try lia; [f_equal; lia|]. rewrite IH by lia. f_equal. lia.
Qed.

(* the slots base, base+1, ... hold the images of ms *)
Lemma appended_slots {A M} (R : M -> A -> Prop) (f : M -> Z) (tab tmps : list A) (ms : list M) :
  Forall2 R ms tmps -> map f ms = map (fun i => zlen tab + Z.of_nat i) (seq 0 (length ms)) ->
  (forall m, In m ms -> exists a, R m a /\ nth_z (tab ++ tmps) (f m) = Some a) /\
  (forall s, ~ In s (map f ms) -> nth_z (tab ++ tmps) s = nth_z tab s) /\
  (forall m, In m ms -> zlen tab <= f m).
Proof.
  intros HF Hmap.
  assert (Hidx : forall i m, nth_error ms i = Some m -> f m = zlen tab + Z.of_nat i).
  { intros i m Hn. assert (H1 : nth_error (map f ms) i = Some (f m)) by (rewrite nth_error_map, Hn; reflexivity).
    rewrite Hmap, nth_error_map in H1. assert (Hlt : (i < length ms)%nat) by (apply nth_error_Some; congruence).
    rewrite (nth_error_seq_lt 0 (length ms) i Hlt) in H1. cbn in H1. congruence. }
  split; [|split].
  - intros m Hm. destruct (In_nth_error _ _ Hm) as (i & Hn). destruct (Forall2_nth _ _ _ HF i m Hn) as (a & Ha & HR).
    exists a. split; [exact HR|]. rewrite (Hidx _ _ Hn), nth_z_app_new. exact Ha.
  - intros s Hs. destruct (Z_lt_dec s (zlen tab)) as [Hlt|Hge]; [apply nth_z_app_old; exact Hlt|].
    rewrite (nth_z_beyond tab) by lia.
    destruct (Z_lt_dec s (zlen tab + zlen tmps)) as [Hlt2|Hge2].
    + exfalso. apply Hs. rewrite Hmap. apply in_map_iff. exists (Z.to_nat (s - zlen tab)). split; [lia|].
      apply in_seq. rewrite (Forall2_len _ _ _ HF). unfold zlen in *. lia.
    + apply nth_z_beyond. unfold zlen in *. rewrite app_length. lia.
  - intros m Hm. destruct (In_nth_error _ _ Hm) as (i & Hn). rewrite (Hidx _ _ Hn). lia.
Qed.

(* ---------------------------------------------------------------- project_blocks *)

Lemma project_blocks_spec bs : forall bl, project_blocks bs = Some bl ->
  map fst bl = map bk_id bs /\
  (forall id t, In (id, t) bl <-> exists b, In b bs /\ bk_id b = id /\ bk_meta b = MTlsf t).
Proof.
  induction bs as [|b tl IH]; intros bl H; cbn [project_blocks] in H.
  - injection H as <-. split; [reflexivity|]. intros id t. split; [intros []|intros (b & [] & _)].
  - destruct (bk_meta b) as [t0|l0] eqn:Em; [|discriminate]. destruct (project_blocks tl) as [r|]; [|discriminate].
    injection H as <-. destruct (IH r eq_refl) as (I1 & I2). split; [cbn; rewrite I1; reflexivity|].
    intros id t. cbn [In]. rewrite I2. split.
    + intros [E|(b1 & H1 & H2)]; [injection E as <- <-; exists b; auto|exists b1; split; [right; tauto|tauto]].
    + intros (b1 & [<-|H1] & H2 & H3); [left; rewrite Em in H3; injection H3 as <-; congruence|right; exists b1; auto].
Qed.

Lemma project_find bs bl id t :
  project_blocks bs = Some bl -> NoDup (map bk_id bs) ->
  (Defrag.find_id id bl = Some t <-> exists b, In b bs /\ bk_id b = id /\ bk_meta b = MTlsf t).
Proof.
  intros H Hnd. destruct (project_blocks_spec bs bl H) as (I1 & I2). rewrite <- I2.
  apply G.find_id_in_iff. rewrite I1. exact Hnd.
Qed.

Lemma project_all_tlsf bs bl b : project_blocks bs = Some bl -> In b bs -> exists t, bk_meta b = MTlsf t.
Proof.
  revert bl. induction bs as [|x tl IH]; intros bl H Hin; [destruct Hin|]. cbn [project_blocks] in H.
  destruct (bk_meta x) as [t0|l0] eqn:Em; [|discriminate]. destruct (project_blocks tl) as [r|]; [|discriminate].
  destruct Hin as [<-|Hin]; [eauto|eapply IH; eauto].
Qed.

(* ---------------------------------------------------------------- the table *)

Lemma project_entry_some lr a e :
  project_entry lr a = Some e ->
  a_allocated a = true /\ a_kind a = 1 /\ a_lref a = lr /\
  e = Defrag.mkU (a_blk a) (a_handle a) (a_size a) (a_align a) (a_sub a) (if a_temp a then -1 else 0) (a_temp a).
Proof.
  unfold project_entry. destruct (a_allocated a); cbn [andb]; [|discriminate].
  destruct (a_kind a =? 1) eqn:Ek; cbn [andb]; [|discriminate]. destruct (lref_eqb (a_lref a) lr) eqn:El; [|discriminate].
  intros H. injection H as <-. apply Z.eqb_eq in Ek. apply lref_eqb_eq in El. auto.
Qed.

Lemma project_entry_of lr a :
  a_allocated a = true -> a_kind a = 1 -> a_lref a = lr ->
  project_entry lr a = Some (Defrag.mkU (a_blk a) (a_handle a) (a_size a) (a_align a) (a_sub a) (if a_temp a then -1 else 0) (a_temp a)).
Proof.
  intros H1 H2 H3. unfold project_entry. rewrite H1, H2, H3. cbn. rewrite (proj2 (lref_eqb_eq lr lr) eq_refl). reflexivity.
Qed.

(* ---------------------------------------------------------------- the temporaries of a collected pass (planner level) *)

(* every new move has its temporary's region record in the destination block, tagged with the temporary *)
Lemma tmp_region_exists gg st ms0 p ix cs new m :
  WFp gg st -> Defrag.d_sentinel st = false -> CInvp gg st ms0 p ix cs new -> In m new ->
  exists t t' es,
    Defrag.find_id (Defrag.m_dstblk m) (Defrag.d_blocks st) = Some t /\
    Defrag.find_id (Defrag.m_dstblk m) (Defrag.d_blocks (Defrag.cs_st cs)) = Some t' /\
    Defrag.entry st (Defrag.m_src m) = Some es /\ Defrag.u_temp es = false /\ Defrag.u_size es = Defrag.m_size m /\
    Defrag.u_blk es = Defrag.m_srcblk m /\ Defrag.u_off es = Defrag.m_srcoff m /\
    (length (Defrag.d_table st) <= Defrag.m_tmp m)%nat /\
    In (TlsfStep.new_blk (Defrag.m_dstoff m) (Defrag.m_size m) (Some (Z.of_nat (Defrag.m_tmp m))) (Defrag.u_kind es)
                         (Defrag.m_size m) (Defrag.u_align es)) (Tlsf.live t').
Proof.
  intros HW Hsn HC Hm.
  pose proof (G.ci_wf Gran.HVam gg (GranTlsf.GInv gg) GranInv.kind_ok _ _ _ _ _ _ HC) as HW'. pose proof (G.ci_ext Gran.HVam gg (GranTlsf.GInv gg) GranInv.kind_ok _ _ _ _ _ _ HC) as He.
  pose proof (G.ci_ok Gran.HVam gg (GranTlsf.GInv gg) GranInv.kind_ok _ _ _ _ _ _ HC) as Hok. rewrite Forall_forall in Hok.
  destruct (G.ci_reg Gran.HVam gg (GranTlsf.GInv gg) GranInv.kind_ok _ _ _ _ _ _ HC) as [_ _ Hlive]. destruct (G.ci_tmps Gran.HVam gg (GranTlsf.GInv gg) GranInv.kind_ok _ _ _ _ _ _ HC) as (Hndt & _).
  destruct (Hok m Hm) as [_ _ _ (es & E1 & E2 & E3 & E4 & E5) (et & T1 & T2 & T3 & T4 & T5) Hnew].
  destruct (G.wf_own Gran.HVam gg (GranTlsf.GInv gg) GranInv.kind_ok _ HW' _ _ T1) as ((b & (t' & F' & Hb & Ho) & _) & _).
  rewrite T3 in F'. rewrite T4 in Ho.
  assert (Hids : In (Defrag.m_dstblk m) (map fst (Defrag.d_blocks st))).
  { destruct He as (Hi & _). rewrite <- Hi. eapply G.find_id_some_in; eauto. }
  destruct (G.in_ids_find _ _ Hids) as (t & F).
  exists t, t', es. split; [exact F|]. split; [exact F'|]. split; [exact E1|]. split; [exact E2|]. split; [exact E5|].
  split; [exact E3|]. split; [exact E4|]. split; [exact Hnew|].
  destruct (Hlive _ _ _ F F') as (_ & Hcase). destruct (Hcase b Hb) as [Hold|(m' & Hm' & Hd' & (es' & Es' & Eb))].
  - exfalso. assert (Hh : G.holds st (Defrag.m_dstblk m) (Defrag.m_dstoff m) b) by (exists t; auto).
    destruct (G.wf_owned Gran.HVam gg (GranTlsf.GInv gg) GranInv.kind_ok _ HW _ _ _ Hh) as (s0 & e0 & En0 & Eb0 & Eo0).
    pose proof (G.entry_lt _ _ _ En0) as Hlt. pose proof (G.ext_entry _ _ _ _ He En0) as En0'.
    assert (s0 = Defrag.m_tmp m) by (eapply (G.wf_inj Gran.HVam gg (GranTlsf.GInv gg) GranInv.kind_ok _ HW'); eauto; congruence). lia.
  - destruct (Hok m' Hm') as [_ _ _ _ (et' & T1' & T2' & T3' & T4' & T5') _].
    assert (Hoff : Defrag.m_dstoff m' = Defrag.m_dstoff m) by (rewrite <- Ho, Eb; reflexivity).
    assert (Defrag.m_tmp m' = Defrag.m_tmp m) by (eapply (G.wf_inj Gran.HVam gg (GranTlsf.GInv gg) GranInv.kind_ok _ HW'); eauto; congruence).
    assert (m' = m) by (eapply (nodup_map_in_eq Defrag.m_tmp new); eauto). subst m'.
    rewrite E1 in Es'. injection Es' as <-. unfold G.tmp_tag_of in Eb. rewrite Hsn in Eb. rewrite <- Eb. exact Hb.
Qed.

Section WithCfg.
Variable c : vcfg.
Hypothesis Hc : cfg_ok c.

(* the entries of the projected table are the allocated block allocations of the list *)
Lemma entry_project v lr bl sn s e :
  Defrag.entry (Defrag.mkD bl (map (project_entry lr) (v_tab v)) sn) s = Some e ->
  exists a, slot_is v (Z.of_nat s) a /\ a_kind a = 1 /\ a_lref a = lr /\
    e = Defrag.mkU (a_blk a) (a_handle a) (a_size a) (a_align a) (a_sub a) (if a_temp a then -1 else 0) (a_temp a).
Proof.
  unfold Defrag.entry. cbn [Defrag.d_table]. rewrite nth_error_map.
  destruct (nth_error (v_tab v) s) as [a|] eqn:En; cbn [option_map]; [|discriminate].
  destruct (project_entry lr a) as [e0|] eqn:Ep; [|discriminate]. intros H. injection H as <-.
  destruct (project_entry_some _ _ _ Ep) as (H1 & H2 & H3 & H4). exists a. split; [|auto].
  split; [rewrite nth_z_nat; exact En|exact H1].
Qed.

Lemma project_entry_slot v lr bl sn s a :
  slot_is v s a -> a_kind a = 1 -> a_lref a = lr ->
  Defrag.entry (Defrag.mkD bl (map (project_entry lr) (v_tab v)) sn) (Z.to_nat s) =
  Some (Defrag.mkU (a_blk a) (a_handle a) (a_size a) (a_align a) (a_sub a) (if a_temp a then -1 else 0) (a_temp a)).
Proof.
  intros (Hn & Ha) Hk Hl. pose proof (nth_z_some_range _ _ _ Hn) as Hr.
  unfold Defrag.entry. cbn [Defrag.d_table]. rewrite nth_error_map. rewrite nth_z_to_nat in Hn by lia. rewrite Hn. cbn [option_map].
  rewrite (project_entry_of lr a Ha Hk Hl). reflexivity.
Qed.

(* ---------------------------------------------------------------- VamInv gives WF of the projection *)

Lemma project_wf v lr l st :
  VamInv c v -> GV c v -> get_blist v lr = Some l -> project v lr = Some st -> WFp (bl_gran l) st.
Proof.
  intros HI HV Hg Hp. unfold project in Hp. rewrite Hg in Hp.
  destruct (project_blocks (bl_blocks l)) as [bl|] eqn:Epb; [|discriminate]. injection Hp as <-.
  pose proof (vi_lists _ _ _ _ HI _ _ Hg) as Hwf. pose proof (bw_nodup _ _ Hwf) as Hnd.
  pose proof (bw_meta _ _ Hwf) as Hmeta. rewrite Forall_forall in Hmeta.
  pose proof (bw_g _ _ Hwf) as Hgg. rewrite Forall_forall in Hgg.
  pose proof (project_find (bl_blocks l) bl) as Hfind.
  (* an entry owns a region *)
  assert (Hown : forall s e, Defrag.entry (Defrag.mkD bl (map (project_entry lr) (v_tab v)) false) s = Some e ->
            exists a b t blk, slot_is v (Z.of_nat s) a /\ a_kind a = 1 /\ a_lref a = lr /\
              e = Defrag.mkU (a_blk a) (a_handle a) (a_size a) (a_align a) (a_sub a) (if a_temp a then -1 else 0) (a_temp a) /\
              In b (bl_blocks l) /\ bk_id b = a_blk a /\ bk_meta b = MTlsf t /\ In blk (Tlsf.live t) /\
              Tlsf.b_off blk = a_handle a /\ Tlsf.b_tag blk = Some (Z.of_nat s) /\ Tlsf.b_size blk = a_size a).
  { intros s e He. destruct (entry_project _ _ _ _ _ _ He) as (a & Sa & Ka & La & Ee).
    destruct (vi_slots _ _ _ _ HI _ _ Sa (fun H => H)) as [(_ & l' & b & rg & G & B & Hid & Hrg & Hh & Htag & Hsz & _)|(K & _)]; [|congruence].
    rewrite La in G. assert (l' = l) by congruence. subst l'.
    destruct (project_all_tlsf _ _ _ Epb B) as (t & Et). rewrite Et in Hrg. cbn [meta_live] in Hrg.
    apply in_map_iff in Hrg. destruct Hrg as (blk & <- & Hblk). cbn in Hh, Htag, Hsz.
    exists a, b, t, blk. split; [exact Sa|]. repeat split; auto. }
  constructor.
  - constructor.
    + destruct (project_blocks_spec _ _ Epb) as (I1 & _). cbn [Defrag.d_blocks]. rewrite I1. exact Hnd.
    + cbn [Defrag.d_blocks]. intros id t Hf. apply (Hfind id t Epb Hnd) in Hf. destruct Hf as (b & B & Hid & Et).
      pose proof (Hmeta _ B) as Hmi. rewrite Et in Hmi. cbn in Hmi. destruct Hmi as (HT & H2).
      destruct (gv_blocks _ _ HV _ _ _ Hg B) as (_ & HGi). specialize (HGi t Et). pose proof HGi as [_ Hh Hgg' _ _ _ _ _].
      split; [exact HT|]. split; [|exact H2]. split; [exact Hgg'|]. split; [intros _; exact Hh|exact HGi].
  - intros s e He. destruct (Hown s e He) as (a & b & t & blk & Sa & Ka & La & -> & B & Hid & Et & Hblk & Ho & Htg & Hsz).
    cbn [Defrag.u_blk Defrag.u_off Defrag.u_size Defrag.u_align]. split; [|split].
    + exists blk. split; [|split; [exact Hsz|left; exact Htg]].
      exists t. split; [|split; [exact Hblk|exact Ho]]. cbn [Defrag.d_blocks]. apply (Hfind _ _ Epb Hnd). exists b. auto.
    + eapply vi_align; eauto.
    + pose proof (Hmeta _ B) as Hmi. destruct (meta_live_sound _ Hmi) as (Hs & _).
      assert (Hin : In (tlsf_region blk) (meta_live (bk_meta b))) by (rewrite Et; cbn; apply in_map; exact Hblk).
      destruct (Hs _ Hin) as (_ & Hp & _). cbn in Hp. lia.
  - intros id off blk (t & Hf & Hblk & Ho). cbn [Defrag.d_blocks] in Hf. apply (Hfind id t Epb Hnd) in Hf. destruct Hf as (b & B & Hid & Et).
    assert (Hin : In (tlsf_region blk) (meta_live (bk_meta b))) by (rewrite Et; cbn; apply in_map; exact Hblk).
    destruct (vi_tags _ _ _ _ HI _ _ _ _ Hg B Hin) as (s & a & Htag & Sa & Ka & La & Hb & Hh).
    exists (Z.to_nat s). eexists. split; [apply (project_entry_slot v lr bl false s a Sa Ka La)|].
    cbn [Defrag.u_blk Defrag.u_off]. cbn in Hh. split; congruence.
  - intros s1 s2 e1 e2 H1 H2 Eb Eo.
    destruct (Hown s1 e1 H1) as (a1 & b1 & t1 & k1 & Sa1 & Ka1 & La1 & -> & B1 & Hid1 & Et1 & Hk1 & Ho1 & Htg1 & _).
    destruct (Hown s2 e2 H2) as (a2 & b2 & t2 & k2 & Sa2 & Ka2 & La2 & -> & B2 & Hid2 & Et2 & Hk2 & Ho2 & Htg2 & _).
    cbn [Defrag.u_blk Defrag.u_off] in Eb, Eo.
    assert (b2 = b1).
    { pose proof (in_find_block _ _ Hnd B1) as F1. pose proof (in_find_block _ _ Hnd B2) as F2. rewrite Hid1 in F1. rewrite Hid2, <- Eb in F2. congruence. }
    subst b2. assert (t2 = t1) by congruence. subst t2.
    pose proof (Hmeta _ B1) as Hmi. rewrite Et1 in Hmi. destruct Hmi as ((Hinv & _) & _).
    assert (k1 = k2) by (eapply G.live_off_inj; eauto; congruence). subst k2.
    rewrite Htg1 in Htg2. injection Htg2 as E. lia.
  - (* the stored size is the rounded size; the suballocation type is one of the five *)
    intros s e He. destruct (Hown s e He) as (a & b & t & blk & Sa & Ka & La & -> & B & Hid & Et & _).
    cbn [Defrag.u_kind Defrag.u_size]. destruct (gv_allocs _ _ HV _ _ Sa Ka) as (X1 & X2). split; [|exact X1].
    apply X2; [rewrite La; exact Hg|]. destruct (gv_blocks _ _ HV _ _ _ Hg B) as (Hk & _). rewrite Et in Hk. cbn in Hk.
    symmetry in Hk. apply Z.eqb_eq in Hk. exact Hk.
Qed.

(* ---------------------------------------------------------------- the write-back: commit_moves *)

(* the Allocation object created for the temporary of a move (mem: the destination block's memory) *)
Definition mk_tmp (v1 : vam) (ty : Z) (lr : lref) (mv : Defrag.move) (mem : Z) : alloc :=
  let src := get_alloc v1 (src_of mv) in
  mkAlloc true 1 (Defrag.m_size mv) (a_align src) ty (a_sub src) (a_persist src) (a_mapallowed src) lr
          (Defrag.m_dstblk mv) (Defrag.m_dstoff mv) mem SyncMem.sm_init true.

Definition bsame (b b' : block) : Prop := bk_id b' = bk_id b /\ bk_mem b' = bk_mem b /\ bk_meta b' = bk_meta b.

(* everything but the block lists, the table and the machine *)
Definition rest_eq (w w' : vam) : Prop :=
  (forall lr1, get_dedlist w' lr1 = get_dedlist w lr1) /\
  length (v_lists w') = length (v_lists w) /\ length (v_ded w') = length (v_ded w) /\
  map p_uid (v_pools w') = map p_uid (v_pools w) /\ map p_id (v_pools w') = map p_id (v_pools w) /\
  v_next_uid w' = v_next_uid w /\ v_next_pool_id w' = v_next_pool_id w /\ v_global w' = v_global w.

Lemma rest_eq_refl w : rest_eq w w.
Proof. unfold rest_eq. auto 10. Qed.

Lemma rest_eq_trans a b d : rest_eq a b -> rest_eq b d -> rest_eq a d.
Proof.
  intros (A1 & A3 & A4 & A5 & A6 & A7 & A8 & A9) (B1 & B3 & B4 & B5 & B6 & B7 & B8 & B9). unfold rest_eq.
  split; [intros; rewrite B1; apply A1|]. repeat split; congruence.
Qed.

Lemma rest_eq_set_m w m : rest_eq w (set_m w m).
Proof. unfold rest_eq. cbn. split; [intros; apply get_dedlist_set_m|]. auto 10. Qed.

Lemma rest_eq_set_tab w t : rest_eq w (set_tab w t).
Proof. unfold rest_eq. cbn. split; [intros; apply get_dedlist_set_tab|]. auto 10. Qed.

Lemma rest_eq_set_blist w lr l : rest_eq w (set_blist w lr l).
Proof.
  unfold rest_eq. split; [intros; apply set_blist_dedlist|]. split; [apply set_blist_lists_len|].
  split; [rewrite set_blist_ded; reflexivity|]. split; [apply set_blist_uids|]. split; [apply set_blist_pids|].
  split; [apply set_blist_next_uid|]. split; [apply set_blist_next_pid|apply set_blist_global].
Qed.

Lemma rest_eq_put_block w lr b : rest_eq w (put_block w lr b).
Proof. unfold put_block. destruct (get_blist w lr); [apply rest_eq_set_blist|apply rest_eq_refl]. Qed.

Lemma set_blocks_twice l x y : set_blocks (set_blocks l x) y = set_blocks l y.
Proof. destruct l; reflexivity. Qed.

(* the state while the moves of a pass are committed: v1 = after the TLSF write-back, w = now *)
Record cm_rel (v1 w : vam) (lr : lref) (l1 : blist) (done : list Defrag.move) : Prop := mkCmRel {
  cm_list : exists lw, get_blist w lr = Some lw /\ set_blocks lw (bl_blocks l1) = l1 /\
              map bk_id (bl_blocks lw) = map bk_id (bl_blocks l1) /\
              (forall b', In b' (bl_blocks lw) -> exists b, In b (bl_blocks l1) /\ bsame b b');
  cm_other : forall lr1, lr1 <> lr -> get_blist w lr1 = get_blist v1 lr1;
  cm_rest : rest_eq v1 w;
  cm_mach : mach_same (v_m v1) (v_m w);
  cm_tab : exists tmps, v_tab w = v_tab v1 ++ tmps /\
             Forall2 (fun mv a => exists b, In b (bl_blocks l1) /\ bk_id b = Defrag.m_dstblk mv /\
                                            a = mk_tmp v1 (bl_type l1) lr mv (bk_mem b)) done tmps
}.

Lemma cm_rel_init v1 lr l1 : get_blist v1 lr = Some l1 -> cm_rel v1 v1 lr l1 [].
Proof.
  intros Hg. constructor.
  - exists l1. split; [exact Hg|]. split; [destruct l1; reflexivity|]. split; [reflexivity|].
    intros b' Hb. exists b'. unfold bsame. auto.
  - reflexivity.
  - apply rest_eq_refl.
  - apply mach_same_refl.
  - exists []. rewrite app_nil_r. split; [reflexivity|constructor].
Qed.

Lemma commit_move_rel v1 w lr l1 done mv :
  cm_rel v1 w lr l1 done -> NoDup (map bk_id (bl_blocks l1)) -> src_of mv < zlen (v_tab v1) ->
  let '(w', r) := commit_move c w lr mv in
  match r with
  | OK _ => cm_rel v1 w' lr l1 (done ++ [mv]) /\ tmp_of mv = zlen (v_tab v1) + zlen done
  | ER _ => False
  | _ => True
  end.
Proof.
  intros [(lw & Hgw & Hcfg & Hids & Hbl) Hoth Hrest Hmach (tmps & Htab & Htmps)] Hnd Hsrc. unfold commit_move.
  rewrite Hgw. destruct (get_block w lr (Defrag.m_dstblk mv)) as [b|] eqn:Hgb; [|exact I].
  destruct (get_block_in _ _ _ _ Hgb) as (l' & Hg' & Hb & Hbid). assert (l' = lw) by congruence. subst l'. clear Hg'.
  destruct (negb (Z.of_nat (Defrag.m_tmp mv) =? zlen (v_tab w))) eqn:Etmp; [exact I|].
  apply negb_false_iff in Etmp. apply Z.eqb_eq in Etmp.
  pose proof (sm_sub_same (v_m w) (bk_mem b) (bk_sm b)) as Hsub.
  destruct (sm_sub (v_m w) (bk_mem b) (bk_sm b)) as (m1 & s1). cbn [fst] in Hsub.
  assert (Hmap : forall m2 s2 (mr : out unit),
            (if a_persist (get_alloc w (Z.of_nat (Defrag.m_src mv))) then sm_map c m1 (bk_mem b) s1 else (m1, s1, OK tt)) = (m2, s2, mr) -> mach_same m1 m2).
  { intros m2 s2 mr E. destruct (a_persist _).
    - pose proof (sm_map_same c m1 (bk_mem b) s1) as H. rewrite E in H. exact H.
    - injection E as <- _ _. apply mach_same_refl. }
  destruct (if a_persist (get_alloc w (Z.of_nat (Defrag.m_src mv))) then sm_map c m1 (bk_mem b) s1 else (m1, s1, OK tt)) as ((m2 & s2) & mr) eqn:Emap.
  specialize (Hmap _ _ _ eq_refl).
  destruct mr as [[]|code| |]; try exact I.
  destruct (a_persist (get_alloc w (Z.of_nat (Defrag.m_src mv))) && negb (a_mapallowed (get_alloc w (Z.of_nat (Defrag.m_src mv))))); [exact I|].
  set (nb := mkBlock (bk_id b) (bk_mem b) s2 (bk_meta b)).
  assert (Hndw : NoDup (map bk_id (bl_blocks lw))) by (rewrite Hids; exact Hnd).
  assert (Hgm : get_blist (set_m w m2) lr = Some lw) by (rewrite get_blist_set_m; exact Hgw).
  destruct (put_block_lookup (set_m w m2) lr lw b nb Hgm Hndw Hb eq_refl) as (Hg2 & Hnb & _).
  set (v2 := put_block (set_m w m2) lr nb) in *.
  set (src := get_alloc w (Z.of_nat (Defrag.m_src mv))).
  assert (Esrc : src = get_alloc v1 (src_of mv)).
  { unfold src, get_alloc. fold (src_of mv). rewrite Htab, nth_z_app_old by exact Hsrc. reflexivity. }
  assert (Ety : bl_type lw = bl_type l1) by (rewrite <- Hcfg; reflexivity).
  destruct (Hbl _ Hb) as (b0 & Hb0 & Hi0 & Hm0 & Hmt0).
  assert (Htabv2 : v_tab v2 = v_tab w) by (unfold v2; rewrite put_block_tab''; reflexivity).
  split.
  - constructor.
    + exists (set_blocks lw (replace_block (bl_blocks lw) nb)).
      split; [rewrite get_blist_set_m, get_blist_set_tab; exact Hg2|].
      split; [rewrite set_blocks_twice; exact Hcfg|]. split; [cbn; rewrite replace_block_ids; exact Hids|].
      intros b' Hb'. cbn in Hb'. destruct (in_replace_block _ _ _ Hndw Hb') as [(-> & _)|(Hin & _)]; [|auto].
      exists b0. split; [exact Hb0|]. unfold bsame, nb. cbn. auto.
    + intros lr1 Hne. rewrite get_blist_set_m, get_blist_set_tab. unfold v2. rewrite put_block_other by exact Hne.
      rewrite get_blist_set_m. apply Hoth. exact Hne.
    + eapply rest_eq_trans; [exact Hrest|]. eapply rest_eq_trans; [apply (rest_eq_set_m w m2)|].
      eapply rest_eq_trans; [apply (rest_eq_put_block (set_m w m2) lr nb)|]. fold v2.
      eapply rest_eq_trans; [apply rest_eq_set_tab|apply rest_eq_set_m].
    + cbn [v_m set_m]. eapply mach_same_trans; [exact Hmach|]. eapply mach_same_trans; [exact Hsub|]. eapply mach_same_trans; [exact Hmap|].
      assert (E : v_m v2 = m2) by (unfold v2, put_block; rewrite Hgm, set_blist_m; reflexivity).
      cbn [v_m set_tab]. rewrite E. apply add_allocation_same.
    + exists (tmps ++ [mk_tmp v1 (bl_type l1) lr mv (bk_mem b0)]). cbn [v_tab set_m set_tab]. rewrite Htabv2, Htab, <- app_assoc.
      split.
      * f_equal. f_equal. unfold mk_tmp. rewrite <- Esrc, Ety. fold src. rewrite Hm0. reflexivity.
      * apply Forall2_app; [exact Htmps|]. constructor; [|constructor]. exists b0. split; [exact Hb0|]. split; [congruence|reflexivity].
  - unfold tmp_of. rewrite Etmp, Htab. unfold zlen. rewrite app_length. rewrite (Forall2_len _ _ _ Htmps). lia.
Qed.

Lemma commit_moves_rel mvs : forall v1 w lr l1 done,
  cm_rel v1 w lr l1 done -> NoDup (map bk_id (bl_blocks l1)) -> Forall (fun mv => src_of mv < zlen (v_tab v1)) mvs ->
  let '(w', r) := commit_moves c w lr mvs in
  match r with
  | OK _ => cm_rel v1 w' lr l1 (done ++ mvs) /\
            map tmp_of mvs = map (fun i => zlen (v_tab v1) + zlen done + Z.of_nat i) (seq 0 (length mvs))
  | ER _ => False
  | _ => True
  end.
Proof.
  induction mvs as [|mv tl IH]; intros v1 w lr l1 done R Hnd Hsrc; cbn [commit_moves].
  - rewrite app_nil_r. split; [exact R|reflexivity].
  - inversion Hsrc as [|? ? Hs1 Hs2]; subst.
    pose proof (commit_move_rel v1 w lr l1 done mv R Hnd Hs1) as P. destruct (commit_move c w lr mv) as (w1 & r).
    destruct r as [[]|code| |]; auto. destruct P as (R1 & Et).
    pose proof (IH v1 w1 lr l1 (done ++ [mv]) R1 Hnd Hs2) as Q. destruct (commit_moves c w1 lr tl) as (w2 & r2).
    destruct r2 as [[]|code| |]; auto. destruct Q as (R2 & Em). rewrite <- app_assoc in R2. split; [exact R2|].
    cbn [map length seq]. f_equal; [rewrite Et; lia|]. rewrite Em, <- seq_shift, map_map. apply map_ext. intros i.
    unfold zlen. rewrite app_length. cbn [length]. lia.
Qed.

(* a commit attempt alone (RecordSuballocSubfree + Map on the destination block) changes only the device state and the
   block's SynchronizedMemory *)
Lemma commit_attempt_rel v1 w lr l1 done slot dst :
  cm_rel v1 w lr l1 done -> NoDup (map bk_id (bl_blocks l1)) -> cm_rel v1 (fst (commit_attempt c w lr slot dst)) lr l1 done.
Proof.
  intros [(lw & Hgw & Hcfg & Hids & Hbl) Hoth Hrest Hmach (tmps & Htab & Htmps)] Hnd. unfold commit_attempt.
  destruct (get_block w lr dst) as [b|] eqn:Hgb; [|constructor; eauto 10].
  destruct (get_block_in _ _ _ _ Hgb) as (l' & Hg' & Hb & Hbid). assert (l' = lw) by congruence. subst l'. clear Hg'.
  pose proof (sm_sub_same (v_m w) (bk_mem b) (bk_sm b)) as Hsub.
  destruct (sm_sub (v_m w) (bk_mem b) (bk_sm b)) as (m1 & s1). cbn [fst] in Hsub.
  assert (Hmap : mach_same m1 (fst (fst (if a_persist (get_alloc w (Z.of_nat slot)) then sm_map c m1 (bk_mem b) s1 else (m1, s1, OK tt))))).
  { destruct (a_persist _); [apply sm_map_same|apply mach_same_refl]. }
  destruct (if a_persist (get_alloc w (Z.of_nat slot)) then sm_map c m1 (bk_mem b) s1 else (m1, s1, OK tt)) as ((m2 & s2) & mr). cbn [fst] in *.
  set (nb := mkBlock (bk_id b) (bk_mem b) s2 (bk_meta b)).
  assert (Hndw : NoDup (map bk_id (bl_blocks lw))) by (rewrite Hids; exact Hnd).
  assert (Hgm : get_blist (set_m w m2) lr = Some lw) by (rewrite get_blist_set_m; exact Hgw).
  destruct (put_block_lookup (set_m w m2) lr lw b nb Hgm Hndw Hb eq_refl) as (Hg2 & Hnb & _).
  destruct (Hbl _ Hb) as (b0 & Hb0 & Hi0 & Hm0 & Hmt0).
  constructor.
  - exists (set_blocks lw (replace_block (bl_blocks lw) nb)). split; [exact Hg2|].
    split; [rewrite set_blocks_twice; exact Hcfg|]. split; [cbn; rewrite replace_block_ids; exact Hids|].
    intros b' Hb'. cbn in Hb'. destruct (in_replace_block _ _ _ Hndw Hb') as [(-> & _)|(Hin & _)]; [|auto].
    exists b0. split; [exact Hb0|]. unfold bsame, nb. cbn. auto.
  - intros lr1 Hne. rewrite put_block_other by exact Hne. rewrite get_blist_set_m. apply Hoth. exact Hne.
  - eapply rest_eq_trans; [exact Hrest|]. eapply rest_eq_trans; [apply (rest_eq_set_m w m2)|apply rest_eq_put_block].
  - assert (E : v_m (put_block (set_m w m2) lr nb) = m2) by (unfold put_block; rewrite Hgm, set_blist_m; reflexivity).
    rewrite E. eapply mach_same_trans; [exact Hmach|]. eapply mach_same_trans; [exact Hsub|exact Hmap].
  - exists tmps. rewrite put_block_tab''. cbn [v_tab set_m]. auto.
Qed.

Lemma log_moves_app a b : Defrag.log_moves (a ++ b) = Defrag.log_moves a ++ Defrag.log_moves b.
Proof. induction a as [|[s d|m] a IH]; cbn; [reflexivity|exact IH|rewrite IH; reflexivity]. Qed.

Lemma replay_rel log : forall v1 w lr l1 done,
  cm_rel v1 w lr l1 done -> NoDup (map bk_id (bl_blocks l1)) -> Forall (fun mv => src_of mv < zlen (v_tab v1)) (Defrag.log_moves log) ->
  let '(w', r) := replay_log c w lr log in
  match r with
  | OK _ => cm_rel v1 w' lr l1 (done ++ Defrag.log_moves log) /\
            map tmp_of (Defrag.log_moves log) = map (fun i => zlen (v_tab v1) + zlen done + Z.of_nat i) (seq 0 (length (Defrag.log_moves log)))
  | ER _ => False
  | _ => True
  end.
Proof.
  induction log as [|[slot dst|mv] tl IH]; intros v1 w lr l1 done R Hnd Hsrc; cbn [replay_log Defrag.log_moves].
  - rewrite app_nil_r. split; [exact R|reflexivity].
  - pose proof (commit_attempt_rel v1 w lr l1 done slot dst R Hnd) as R1. destruct (commit_attempt c w lr slot dst) as (w1 & r). cbn [fst] in R1.
    destruct r as [[]|code| |]; try exact I; apply (IH v1 w1 lr l1 done R1 Hnd Hsrc).
  - inversion Hsrc as [|? ? Hs1 Hs2]; subst.
    pose proof (commit_move_rel v1 w lr l1 done mv R Hnd Hs1) as P. destruct (commit_move c w lr mv) as (w1 & r).
    destruct r as [[]|code| |]; auto. destruct P as (R1 & Et).
    pose proof (IH v1 w1 lr l1 (done ++ [mv]) R1 Hnd Hs2) as Q. destruct (replay_log c w1 lr tl) as (w2 & r2).
    destruct r2 as [[]|code| |]; auto. destruct Q as (R2 & Em). rewrite <- app_assoc in R2. split; [exact R2|].
    cbn [map length seq]. f_equal; [rewrite Et; lia|]. rewrite Em, <- seq_shift, map_map. apply map_ext. intros i.
    unfold zlen. rewrite app_length. cbn [length]. lia.
Qed.

(* ---------------------------------------------------------------- the write-back keeps the invariant *)

Lemma unproject_ids bs bl' : map bk_id (unproject_blocks bs bl') = map bk_id bs.
Proof. unfold unproject_blocks. rewrite map_map. apply map_ext. intros b. destruct (Defrag.find_id _ _); reflexivity. Qed.

Lemma unproject_in bs bl' b1 :
  map fst bl' = map bk_id bs -> In b1 (unproject_blocks bs bl') ->
  exists b t', In b bs /\ Defrag.find_id (bk_id b) bl' = Some t' /\ b1 = mkBlock (bk_id b) (bk_mem b) (bk_sm b) (MTlsf t').
Proof.
  intros Hids Hin. apply in_map_iff in Hin. destruct Hin as (b & <- & Hb).
  destruct (G.in_ids_find (bk_id b) bl') as (t' & F); [rewrite Hids; apply in_map; exact Hb|].
  exists b, t'. rewrite F. auto.
Qed.

(* the table only grows *)
Definition grown (v v' : vam) : Prop :=
  zlen (v_tab v) <= zlen (v_tab v') /\ forall s, s < zlen (v_tab v) -> nth_z (v_tab v') s = nth_z (v_tab v) s.

Lemma grown_refl v : grown v v.
Proof. split; [lia|auto]. Qed.

Lemma grown_trans a b d : grown a b -> grown b d -> grown a d.
Proof. intros (A1 & A2) (B1 & B2). split; [lia|]. intros s Hs. rewrite B2 by lia. apply A2. exact Hs. Qed.

Lemma Forall2_nth_r {A B} (R : A -> B -> Prop) l1 l2 i b : Forall2 R l1 l2 -> nth_error l2 i = Some b -> exists a, In a l1 /\ R a b.
Proof.
  intros H. revert i. induction H as [|x y l1 l2 Hxy _ IH]; intros [|i] E; cbn in E; try discriminate.
  - injection E as <-. exists x. split; [left; reflexivity|exact Hxy].
  - destruct (IH i E) as (a & Ha & Hr). exists a. split; [right; exact Ha|exact Hr].
Qed.

Lemma writeback_inv gg v lr l bl ms0 p0 ix cs new log :
  VamInv c v -> GV c v -> bl_gran l = gg -> get_blist v lr = Some l -> project_blocks (bl_blocks l) = Some bl ->
  WFp gg (Defrag.mkD bl (map (project_entry lr) (v_tab v)) false) ->
  CInvp gg (Defrag.mkD bl (map (project_entry lr) (v_tab v)) false) ms0 p0 ix cs new ->
  ix = Defrag.indexed (Defrag.mkD bl (map (project_entry lr) (v_tab v)) false) -> new = Defrag.log_moves log ->
  let v1 := set_blist v lr (set_blocks l (unproject_blocks (bl_blocks l) (Defrag.d_blocks (Defrag.cs_st cs)))) in
  let '(v2, r) := replay_log c v1 lr log in
  match r with
  | OK _ => VamInv c v2 /\ lists_frame v v2 /\ grown v v2 /\ moves_ok v2 lr new /\ GV c v2
  | ER _ => False
  | _ => True
  end.
Proof.
  intros HI HV Egg Hg Epb HW HC Hix Hlog. cbn zeta.
  set (st := Defrag.mkD bl (map (project_entry lr) (v_tab v)) false) in *.
  pose proof (G.ci_wf Gran.HVam gg (GranTlsf.GInv gg) GranInv.kind_ok _ _ _ _ _ _ HC) as HW'. pose proof (G.ci_ext Gran.HVam gg (GranTlsf.GInv gg) GranInv.kind_ok _ _ _ _ _ _ HC) as He.
  pose proof (G.ci_ok Gran.HVam gg (GranTlsf.GInv gg) GranInv.kind_ok _ _ _ _ _ _ HC) as Hok. rewrite Forall_forall in Hok.
  destruct (G.ci_reg Gran.HVam gg (GranTlsf.GInv gg) GranInv.kind_ok _ _ _ _ _ _ HC) as [_ _ Hlive].
  set (st' := Defrag.cs_st cs) in *. set (bl' := Defrag.d_blocks st') in *.
  pose proof (vi_lists _ _ _ _ HI _ _ Hg) as Hwf. pose proof (bw_nodup _ _ Hwf) as Hnd.
  destruct (project_blocks_spec _ _ Epb) as (Hids & _).
  assert (Hids' : map fst bl' = map bk_id (bl_blocks l)) by (destruct He as (E & _); unfold bl'; rewrite E; exact Hids).
  pose proof (project_find (bl_blocks l) bl) as Hfind.
  set (l1 := set_blocks l (unproject_blocks (bl_blocks l) bl')). set (v1 := set_blist v lr l1).
  assert (Hg1 : get_blist v1 lr = Some l1) by (eapply get_set_blist_same; eauto).
  assert (Hnd1 : NoDup (map bk_id (bl_blocks l1))) by (unfold l1; cbn; rewrite unproject_ids; exact Hnd).
  assert (Htab1 : v_tab v1 = v_tab v) by apply set_blist_tab.
  (* what is known about every new move *)
  assert (Hmv : forall m, In m new -> exists t t' a,
            Defrag.find_id (Defrag.m_dstblk m) bl = Some t /\ Defrag.find_id (Defrag.m_dstblk m) bl' = Some t' /\
            slot_is v (src_of m) a /\ a_kind a = 1 /\ a_lref a = lr /\ a_size a = Defrag.m_size m /\
            a_blk a = Defrag.m_srcblk m /\ a_handle a = Defrag.m_srcoff m /\ zlen (v_tab v) <= tmp_of m /\
            In (TlsfStep.new_blk (Defrag.m_dstoff m) (Defrag.m_size m) (Some (tmp_of m)) (a_sub a) (Defrag.m_size m) (a_align a)) (Tlsf.live t')).
  { intros m Hm. destruct (tmp_region_exists gg st ms0 p0 ix cs new m HW eq_refl HC Hm) as (t & t' & es & F & F' & E1 & E2 & E3 & E4 & E5 & Hlen & Hin).
    destruct (entry_project _ _ _ _ _ _ E1) as (a & Sa & Ka & La & ->).
    cbn [Defrag.u_size Defrag.u_blk Defrag.u_off Defrag.u_kind Defrag.u_align] in *.
    exists t, t', a. split; [exact F|]. split; [exact F'|]. split; [exact Sa|]. split; [exact Ka|]. split; [exact La|].
    split; [exact E3|]. split; [exact E4|]. split; [exact E5|]. split; [|exact Hin].
    unfold st in Hlen. cbn [Defrag.d_table] in Hlen. rewrite map_length in Hlen. unfold tmp_of, zlen. lia. }
  assert (Hsrcs : Forall (fun mv => src_of mv < zlen (v_tab v1)) new).
  { apply Forall_forall. intros m Hm. destruct (Hmv m Hm) as (_ & _ & a & _ & _ & Sa & _). rewrite Htab1. apply (slot_is_range _ _ _ Sa). }
  pose proof (replay_rel log v1 v1 lr l1 [] (cm_rel_init v1 lr l1 Hg1) Hnd1 ltac:(rewrite <- Hlog; exact Hsrcs)) as P.
  destruct (replay_log c v1 lr log) as (v2 & r). destruct r as [[]|code| |]; auto. rewrite <- Hlog in P.
  destruct P as ([(l2 & Hg2 & Hcfg & Hids2 & Hbl2) Hoth Hrest Hmach (tmps & Htab & Htmps)] & Hidx).
  cbn [app] in Htmps. rewrite Htab1 in Htab, Hidx. cbn [zlen length] in Hidx.
  assert (Hidx' : map tmp_of new = map (fun i => zlen (v_tab v) + Z.of_nat i) (seq 0 (length new))).
  { rewrite Hidx. apply map_ext. intros i. unfold zlen. cbn. lia. }
  destruct (appended_slots _ tmp_of (v_tab v) tmps new Htmps Hidx') as (Hslot & Hothers & Hge).
  (* the list after the write-back *)
  assert (Hcfg2 : l2 = set_blocks l (bl_blocks l2)).
  { clear - Hcfg. unfold l1 in Hcfg. destruct l2, l; cbn in *. injection Hcfg; intros; subst; reflexivity. }
  assert (Hl2 : forall b2, In b2 (bl_blocks l2) -> exists b t t', In b (bl_blocks l) /\ bk_id b2 = bk_id b /\ bk_mem b2 = bk_mem b /\
            bk_meta b = MTlsf t /\ bk_meta b2 = MTlsf t' /\ Defrag.find_id (bk_id b) bl = Some t /\ Defrag.find_id (bk_id b) bl' = Some t').
  { intros b2 Hb2. destruct (Hbl2 _ Hb2) as (b1 & Hb1 & Hi & Hm & Hmt). unfold l1 in Hb1. cbn in Hb1.
    destruct (unproject_in _ _ _ Hids' Hb1) as (b & t' & Hb & F' & ->). cbn in Hi, Hm, Hmt.
    destruct (project_all_tlsf _ _ _ Epb Hb) as (t & Et). exists b, t, t'. repeat split; auto.
    apply (Hfind _ _ Epb Hnd). exists b. auto. }
  assert (Hl2' : forall b, In b (bl_blocks l) -> exists b2, In b2 (bl_blocks l2) /\ bk_id b2 = bk_id b).
  { intros b Hb. assert (Hin : In (bk_id b) (map bk_id (bl_blocks l2))).
    { rewrite Hids2. unfold l1. cbn. rewrite unproject_ids. apply in_map. exact Hb. }
    apply in_map_iff in Hin. destruct Hin as (b2 & E & Hb2). eauto. }
  assert (Hsameid : forall b b', In b (bl_blocks l) -> In b' (bl_blocks l) -> bk_id b = bk_id b' -> b = b').
  { intros b b' Hb Hb' E. pose proof (in_find_block _ _ Hnd Hb) as F1. pose proof (in_find_block _ _ Hnd Hb') as F2. rewrite E in F1. congruence. }
  assert (Hnd2 : NoDup (map bk_id (bl_blocks l2))) by (rewrite Hids2; exact Hnd1).
  assert (Hwf2 : blist_wf c l2).
  { rewrite Hcfg2. destruct Hwf as [W1 W2 W3 W4 W5 W6 W7 W8]. constructor; cbn; auto.
    - apply Forall_forall. intros b2 Hb2. destruct (Hl2 _ Hb2) as (b & _ & _ & Hb & Hi & _). rewrite Hi. rewrite Forall_forall in W2. auto.
    - apply Forall_forall. intros b2 Hb2. destruct (Hl2 _ Hb2) as (b & t & t' & Hb & Hi & _ & _ & Emt & _ & F').
      rewrite Emt. cbn. destruct (G.wb_tinv Gran.HVam gg (GranTlsf.GInv gg) _ (G.wf_b Gran.HVam gg (GranTlsf.GInv gg) GranInv.kind_ok _ HW') _ _ F') as (HT & _ & H2). split; auto.
    - apply Forall_forall. intros b2 Hb2. destruct (Hl2 _ Hb2) as (b & t & t' & Hb & Hi & _ & Emt0 & Emt & F & F').
      rewrite Emt. cbn. destruct (G.wb_tinv Gran.HVam gg (GranTlsf.GInv gg) _ (G.wf_b Gran.HVam gg (GranTlsf.GInv gg) GranInv.kind_ok _ HW') _ _ F') as (_ & (G1 & _) & _).
      rewrite G1. symmetry. exact Egg. }
  assert (Hsizes : forall id t t', Defrag.find_id id bl = Some t -> Defrag.find_id id bl' = Some t' -> Tlsf.t_size t' = Tlsf.t_size t).
  { intros id t t' F F'. eapply G.ext_sizes; eauto. }
  (* the state before, with the machine of the state after *)
  set (v0 := set_m v (v_m v2)).
  assert (Hm01 : mach_same (v_m v) (v_m v2)) by (unfold v1 in Hmach; rewrite set_blist_m in Hmach; exact Hmach).
  assert (I0 : VamInvU c v0 [] []) by (apply VamInvU_mach_same; [exact HI|exact Hm01]).
  assert (Hg0 : get_blist v0 lr = Some l) by (unfold v0; rewrite get_blist_set_m; exact Hg).
  destruct Hrest as (R1 & R2 & R3 & R4 & R5 & R6 & R7 & R8).
  destruct (rest_eq_set_blist v lr l1) as (Q1 & Q2 & Q3 & Q4 & Q5 & Q6 & Q7 & Q8). fold v1 in Q1, Q2, Q3, Q4, Q5, Q6, Q7, Q8.
  assert (Htabs : forall s, ~ In s (map tmp_of new) -> nth_z (v_tab v2) s = nth_z (v_tab v0) s).
  { intros s Hs. rewrite Htab. unfold v0. cbn [v_tab set_m]. apply Hothers. exact Hs. }
  (* the temporaries *)
  assert (Htmp : forall m, In m new -> exists b1 a, In b1 (bl_blocks l1) /\ bk_id b1 = Defrag.m_dstblk m /\
            a = mk_tmp v1 (bl_type l1) lr m (bk_mem b1) /\ slot_is v2 (tmp_of m) a).
  { intros m Hm. destruct (Hslot m Hm) as (a & (b1 & Hb1 & Hi1 & Ea) & Hn). exists b1, a. split; [exact Hb1|]. split; [exact Hi1|].
    split; [exact Ea|]. split; [rewrite Htab; exact Hn|subst a; reflexivity]. }
  assert (Hsrc1 : forall m a, In m new -> slot_is v (src_of m) a -> get_alloc v1 (src_of m) = a).
  { intros m a Hm Sa. unfold get_alloc. rewrite Htab1. destruct Sa as (E & _). rewrite E. reflexivity. }
  assert (I2 : VamInvU c v2 [] []).
  { apply (VamInvU_updateS c v0 v2 [] [] lr l l2 (map tmp_of new) I0 Hg0).
    - intros lr1. destruct (lref_eq_dec lr1 lr) as [->|Hne].
      + rewrite Hg2. symmetry. eapply get_set_blist_same; eauto.
      + rewrite (Hoth _ Hne). unfold v1, v0. rewrite !get_set_blist_other by congruence. rewrite get_blist_set_m. reflexivity.
    - intros lr1. rewrite R1, Q1. unfold v0. rewrite get_dedlist_set_m. reflexivity.
    - reflexivity.
    - unfold v0. cbn [v_lists set_m]. congruence.
    - unfold v0. cbn [v_ded set_m]. congruence.
    - unfold v0. cbn [v_pools set_m]. congruence.
    - unfold v0. cbn [v_pools set_m]. congruence.
    - unfold v0. cbn [v_next_uid set_m]. congruence.
    - unfold v0. cbn [v_next_pool_id set_m]. congruence.
    - exact Hwf2.
    - rewrite Hcfg2. reflexivity.
    - intros b Hb. destruct (Hl2' _ Hb) as (b2 & Hb2 & Hi). exists b2. split; [exact Hb2|].
      destruct (Hl2 _ Hb2) as (b' & t & t' & Hb' & Hi' & Hm' & Emt0 & Emt & F & F').
      assert (b' = b) by (apply Hsameid; auto; congruence). subst b'.
      unfold shape_same. rewrite Emt0, Emt. cbn. split; [congruence|]. split; [congruence|]. symmetry. eapply Hsizes; eauto.
    - intros b2 Hb2. destruct (Hl2 _ Hb2) as (b & t & t' & Hb & Hi & Hm & Emt0 & Emt & F & F'). exists b. split; [exact Hb|].
      unfold shape_same. rewrite Emt0, Emt. cbn. split; [congruence|]. split; [congruence|]. symmetry. eapply Hsizes; eauto.
    - exact Htabs.
    - intros s _ [].
    - intros s a Hin Sa. exfalso. apply in_map_iff in Hin. destruct Hin as (m & <- & Hm). pose proof (Hge m Hm) as G.
      pose proof (slot_is_range _ _ _ Sa) as Rg. unfold v0 in Rg. cbn [v_tab set_m] in Rg. lia.
    - (* a temporary is a block allocation of the list *)
      intros s a' Hin Sa'. apply in_map_iff in Hin. destruct Hin as (m & <- & Hm).
      destruct (Htmp m Hm) as (b1 & a & Hb1 & Hi1 & Ea & Sa). assert (a' = a) by (destruct Sa', Sa; congruence). subst a'.
      destruct (Hmv m Hm) as (t & t' & asrc & F & F' & Ssrc & Ksrc & Lsrc & Zsrc & _ & _ & _ & Hnew).
      rewrite Ea. unfold mk_tmp. rewrite (Hsrc1 m asrc Hm Ssrc). split; [reflexivity|].
      assert (Hin2 : In (Defrag.m_dstblk m) (map bk_id (bl_blocks l2))) by (rewrite Hids2, <- Hi1; apply in_map; exact Hb1).
      apply in_map_iff in Hin2. destruct Hin2 as (b2 & Hi2 & Hb2).
      destruct (Hl2 _ Hb2) as (b & t0 & t0' & Hb & Hi & Hmem & Emt0 & Emt & F0 & F0').
      assert (t0' = t') by (rewrite <- Hi, Hi2 in F0'; congruence). subst t0'.
      destruct (Hbl2 _ Hb2) as (b1' & Hb1' & Hj & Hjm & _).
      assert (b1' = b1).
      { pose proof (in_find_block _ _ Hnd1 Hb1) as G1. pose proof (in_find_block _ _ Hnd1 Hb1') as G2. rewrite <- Hj, Hi2, <- Hi1 in G2. congruence. }
      subst b1'.
      exists l2, b2, (tlsf_region (TlsfStep.new_blk (Defrag.m_dstoff m) (Defrag.m_size m) (Some (tmp_of m)) (a_sub asrc) (Defrag.m_size m) (a_align asrc))).
      cbn [a_lref a_blk a_handle a_size a_align a_mem a_type]. split; [exact Hg2|]. split; [exact Hb2|]. split; [exact Hi2|].
      split; [rewrite Emt; cbn [meta_live]; apply in_map; exact Hnew|].
      cbn. repeat split; auto. rewrite Hcfg2. reflexivity.
    - (* old regions are kept *)
      intros b0 b2 rg Hb0 Hb2 Eid Hrg _. destruct (Hl2 _ Hb2) as (b & t & t' & Hb & Hi & _ & Emt0 & Emt & F & F').
      assert (b = b0) by (apply Hsameid; auto; congruence). subst b.
      rewrite Emt0 in Hrg. rewrite Emt. cbn [meta_live] in *. apply in_map_iff in Hrg. destruct Hrg as (k & <- & Hk).
      apply in_map. destruct (Hlive _ _ _ F F') as (Hkeep & _). apply Hkeep. exact Hk.
    - (* every region is an old one or a temporary *)
      intros b2 rg Hb2 Hrg. destruct (Hl2 _ Hb2) as (b & t & t' & Hb & Hi & _ & Emt0 & Emt & F & F').
      rewrite Emt in Hrg. cbn [meta_live] in Hrg. apply in_map_iff in Hrg. destruct Hrg as (k & <- & Hk).
      destruct (Hlive _ _ _ F F') as (_ & Hcase). destruct (Hcase k Hk) as [Hold|(m & Hm & Hd & (es & Es & Ek))].
      + left. exists b. split; [exact Hb|]. split; [congruence|]. assert (Hin : In (tlsf_region k) (meta_live (bk_meta b))) by (rewrite Emt0; cbn; apply in_map; exact Hold).
        split; [exact Hin|]. intros s Htag Hs. destruct (vi_tags _ _ _ _ HI _ _ _ _ Hg Hb Hin) as (s1 & a1 & T1 & T2 & _).
        rewrite Htag in T1. injection T1 as <-. apply in_map_iff in Hs. destruct Hs as (m & E & Hm). pose proof (Hge m Hm) as G.
        pose proof (slot_is_range _ _ _ T2). lia.
      + right. destruct (Htmp m Hm) as (b1 & a & Hb1 & Hi1 & Ea & Sa). exists (tmp_of m), a.
        subst k. unfold G.tmp_tag_of. cbn [Defrag.d_sentinel st]. cbn [tlsf_region rg_tag rg_handle TlsfStep.new_blk Tlsf.b_tag Tlsf.b_off].
        split; [reflexivity|]. split; [apply in_map; exact Hm|]. split; [exact Sa|]. rewrite Ea. unfold mk_tmp. cbn [a_kind a_lref a_blk a_handle].
        split; [reflexivity|]. split; [reflexivity|]. split; [congruence|reflexivity].
    - (* alignment *)
      intros s a' Hin Sa'. apply in_map_iff in Hin. destruct Hin as (m & <- & Hm).
      destruct (Htmp m Hm) as (b1 & a & Hb1 & Hi1 & Ea & Sa). assert (a' = a) by (destruct Sa', Sa; congruence). subst a'.
      destruct (Hmv m Hm) as (_ & _ & asrc & _ & _ & Ssrc & Ksrc & _). rewrite Ea. unfold mk_tmp. rewrite (Hsrc1 m asrc Hm Ssrc). cbn [a_align].
      eapply vi_align; eauto.
    - rewrite Hcfg2. reflexivity.
    - (* minimum alignment *)
      intros s a' lx Hin Sa' Gx. apply in_map_iff in Hin. destruct Hin as (m & <- & Hm).
      destruct (Htmp m Hm) as (b1 & a & Hb1 & Hi1 & Ea & Sa). assert (a' = a) by (destruct Sa', Sa; congruence). subst a'.
      destruct (Hmv m Hm) as (_ & _ & asrc & _ & _ & Ssrc & Ksrc & Lsrc & _). rewrite Ea in Gx |- *. unfold mk_tmp in Gx |- *.
      rewrite (Hsrc1 m asrc Hm Ssrc). cbn [a_align a_lref] in Gx |- *. rewrite Hg2 in Gx. injection Gx as <-. rewrite Hcfg2. cbn.
      apply (vi_minalign _ _ _ _ HI (src_of m) asrc l Ssrc ltac:(intros []) Ksrc). rewrite Lsrc. exact Hg. }
  split; [exact I2|].
  assert (Hgo : forall lr1, lr1 <> lr -> get_blist v2 lr1 = get_blist v lr1).
  { intros lr1 Hne. rewrite (Hoth _ Hne). unfold v1. apply get_set_blist_other. congruence. }
  split; [|split; [|split]].
  - constructor.
    + intros lr0 l0 G0. destruct (lref_eq_dec lr0 lr) as [->|Hne].
      * exists l2. split; [exact Hg2|]. assert (l0 = l) by congruence. subst l0. rewrite Hcfg2. apply blist_cfg_same_set_blocks.
      * exists l0. split; [rewrite Hgo by exact Hne; exact G0|apply blist_cfg_same_refl].
    + intros lr0 G0. destruct (lref_eq_dec lr0 lr) as [->|Hne]; [congruence|]. rewrite Hgo by exact Hne. exact G0.
    + intros lr0. rewrite R1, Q1. reflexivity.
    + congruence.
    + congruence.
    + congruence.
    + split; congruence.
  - split; [rewrite Htab; unfold zlen; rewrite app_length; lia|]. intros s Hs. rewrite Htab. apply nth_z_app_old. exact Hs.
  - split.
    + (* no object takes part in two moves *)
      unfold mv_slots. apply NoDup_app_intro_z.
      * pose proof (G.ci_keys Gran.HVam gg (GranTlsf.GInv gg) GranInv.kind_ok _ _ _ _ _ _ HC) as Hkeys.
        apply (G.NoDup_map_coarser (fun m => (Defrag.m_srcidx m, Defrag.m_srcoff m)) src_of new Hkeys).
        intros m1 m2 H1 H2 E.
        destruct (Hmv m1 H1) as (_ & _ & a1 & _ & _ & S1 & _ & _ & _ & B1 & O1 & _).
        destruct (Hmv m2 H2) as (_ & _ & a2 & _ & _ & S2 & _ & _ & _ & B2 & O2 & _).
        rewrite E in S1. assert (a1 = a2) by (destruct S1, S2; congruence). subst a2.
        destruct (Hok m1 H1) as [X1 _ _ _ _ _]. destruct (Hok m2 H2) as [X2 _ _ _ _ _].
        rewrite Hix in X1, X2. unfold Defrag.indexed in X1, X2. rewrite <- B1 in X1. rewrite <- B2 in X2.
        f_equal; [|congruence]. eapply G.indexed_from_id_fun; [|exact X1|exact X2].
        apply (G.wb_ids Gran.HVam gg (GranTlsf.GInv gg) _ (G.wf_b Gran.HVam gg (GranTlsf.GInv gg) GranInv.kind_ok _ HW)).
      * rewrite Hidx'. apply FinFun.Injective_map_NoDup; [intros i j E; lia|apply seq_NoDup].
      * intros s H1 H2. apply in_map_iff in H1. destruct H1 as (m1 & <- & Hm1). apply in_map_iff in H2. destruct H2 as (m2 & E2 & Hm2).
        destruct (Hmv m1 Hm1) as (_ & _ & a1 & _ & _ & S1 & _). pose proof (slot_is_range _ _ _ S1). pose proof (Hge m2 Hm2). lia.
    + apply Forall_forall. intros m Hm. destruct (Hmv m Hm) as (_ & _ & asrc & _ & _ & Ssrc & Ksrc & Lsrc & Zsrc & Bsrc & Osrc & _).
      assert (Tsrc : a_temp asrc = false).
      { destruct (tmp_region_exists gg st ms0 p0 ix cs new m HW eq_refl HC Hm) as (_ & _ & es & _ & _ & E1 & E2 & _).
        destruct (entry_project _ _ _ _ _ _ E1) as (a' & Sa' & _ & _ & ->). cbn [Defrag.u_temp] in E2.
        assert (a' = asrc) by (unfold src_of in Ssrc; destruct Sa', Ssrc; congruence). subst a'. exact E2. }
      destruct (Htmp m Hm) as (b1 & a & Hb1 & Hi1 & Ea & Sa). exists asrc, a.
      split.
      { split; [|apply Ssrc]. rewrite Htab, nth_z_app_old by (apply (slot_is_range _ _ _ Ssrc)). apply Ssrc. }
      split; [exact Sa|]. rewrite Ea. unfold mk_tmp. rewrite (Hsrc1 m asrc Hm Ssrc). cbn [a_kind a_lref a_size a_align a_blk a_handle a_temp]. auto 15.
  - (* the granularity bookkeeping *)
    assert (Ecfg2 : bl_gran l2 = bl_gran l /\ bl_algo l2 = bl_algo l /\ bl_minalign l2 = bl_minalign l /\ bl_type l2 = bl_type l) by (rewrite Hcfg2; repeat split).
    destruct Ecfg2 as (Eg2 & Ea2 & Em2 & Ety2).
    constructor.
    + intros lr0 l0 G0. destruct (lref_eq_dec lr0 lr) as [->|Hne].
      * assert (l0 = l2) by congruence. subst l0. rewrite Eg2, Em2, Ety2. apply (gv_cfg _ _ HV _ _ Hg).
      * rewrite Hgo in G0 by exact Hne. apply (gv_cfg _ _ HV _ _ G0).
    + intros lr0 l0 b2 G0 Hb2. destruct (lref_eq_dec lr0 lr) as [->|Hne]; [|rewrite Hgo in G0 by exact Hne; apply (gv_blocks _ _ HV _ _ _ G0 Hb2)].
      assert (l0 = l2) by congruence. subst l0. destruct (Hl2 _ Hb2) as (b & t & t' & Hb & Hi & _ & Emt0 & Emt & F & F').
      destruct (gv_blocks _ _ HV _ _ _ Hg Hb) as (Hk & _). rewrite Emt0 in Hk. split; [rewrite Emt, Ea2; exact Hk|].
      intros t2 Et2. rewrite Emt in Et2. injection Et2 as <-. rewrite Eg2, Egg.
      destruct (G.wb_tinv Gran.HVam gg (GranTlsf.GInv gg) _ (G.wf_b Gran.HVam gg (GranTlsf.GInv gg) GranInv.kind_ok _ HW') _ _ F') as (_ & (_ & _ & HGi) & _). exact HGi.
    + assert (Hold : forall a, (GranInv.kind_ok (a_sub a) /\ forall l0, get_blist v (a_lref a) = Some l0 -> bl_algo l0 = 0 -> rnd_ok (bl_gran l0) (a_sub a) (a_size a)) ->
                       GranInv.kind_ok (a_sub a) /\ forall l0, get_blist v2 (a_lref a) = Some l0 -> bl_algo l0 = 0 -> rnd_ok (bl_gran l0) (a_sub a) (a_size a)).
      { intros a (X1 & X2). split; [exact X1|]. intros l0 G0 A0. destruct (lref_eq_dec (a_lref a) lr) as [E|Hne].
        - rewrite E in *. assert (l0 = l2) by congruence. subst l0. rewrite Eg2. apply X2; [exact Hg|congruence].
        - rewrite Hgo in G0 by exact Hne. auto. }
      intros s a (Sn & Sal) Ka. rewrite Htab in Sn. destruct (Z_lt_dec s (zlen (v_tab v))) as [Hlt|Hge0].
      * rewrite nth_z_app_old in Sn by exact Hlt. apply Hold. apply (gv_allocs _ _ HV s a (conj Sn Sal) Ka).
      * assert (Hr : 0 <= s) by (apply nth_z_some_range in Sn; lia).
        replace s with (zlen (v_tab v) + Z.of_nat (Z.to_nat (s - zlen (v_tab v)))) in Sn by lia. rewrite nth_z_app_new in Sn.
        destruct (Forall2_nth_r _ _ _ _ _ Htmps Sn) as (m & Hm & (b1 & Hb1 & Hi1 & Ea)).
        destruct (Hmv m Hm) as (_ & _ & asrc & _ & _ & Ssrc & Ksrc & Lsrc & Zsrc & _).
        assert (Emk : a_sub a = a_sub asrc /\ a_size a = a_size asrc /\ a_lref a = a_lref asrc).
        { rewrite Ea. unfold mk_tmp. rewrite (Hsrc1 m asrc Hm Ssrc). cbn [a_sub a_size a_lref]. auto. }
        destruct Emk as (E1 & E2 & E3). destruct (Hold asrc (gv_allocs _ _ HV _ _ Ssrc Ksrc)) as (X1 & X2). rewrite E1, E2, E3. split; [exact X1|exact X2].
Qed.

(* ---------------------------------------------------------------- BlockListCollectMoves of one context *)

Lemma collect_list_inv_gv v dc p :
  VamInv c v -> GV c v -> Defrag.c_moves (dc_ctx dc) = [] -> PassProofs.pass_running p ->
  let '(v', r) := collect_list c v dc p in
  match r with
  | OK (dc', p') =>
      (VamInv c v' /\ lists_frame v v' /\ grown v v' /\ dc_lr dc' = dc_lr dc /\
       moves_ok v' (dc_lr dc) (Defrag.c_moves (dc_ctx dc')) /\ PassProofs.pass_running p') /\ GV c v'
  | ER _ => False
  | _ => True
  end.
Proof.
  intros HI HV Hidle Hrun. unfold collect_list.
  destruct (project v (dc_lr dc)) as [st|] eqn:Ep; [|exact I].
  destruct (get_blist v (dc_lr dc)) as [l|] eqn:Hg; [|exact I].
  pose proof (project_wf v (dc_lr dc) l st HI HV Hg Ep) as HW. set (gg := bl_gran l) in *.
  assert (Est : exists bl, project_blocks (bl_blocks l) = Some bl /\ st = Defrag.mkD bl (map (project_entry (dc_lr dc)) (v_tab v)) false).
  { unfold project in Ep. rewrite Hg in Ep. destruct (project_blocks (bl_blocks l)) as [bl|]; [|discriminate]. injection Ep as <-. eauto. }
  destruct Est as (bl & Epb & ->).
  destruct (VamDefragBridge.collect_moves_f_inv_p gg vam (att_commit c (dc_lr dc)) _ (dc_ctx dc) p v HW Hrun) as (new & HC & _).
  destruct (VamDefragBridge.collect_moves_f_log_p vam (att_commit c (dc_lr dc)) (Defrag.mkD bl (map (project_entry (dc_lr dc)) (v_tab v)) false) (dc_ctx dc) p v) as (Hlg & _).
  destruct (Defrag.collect_moves_f vam (att_commit c (dc_lr dc)) _ (dc_ctx dc) p v) as (((cs & env) & log) & wr).
  unfold Defrag.res_f, Defrag.log_f in *. cbn [fst snd] in HC, Hlg.
  pose proof (G.ci_moves Gran.HVam gg (GranTlsf.GInv gg) GranInv.kind_ok _ _ _ _ _ _ HC) as Hms. rewrite Hidle in Hms, Hlg. cbn [app] in Hms, Hlg.
  assert (Hnew : new = Defrag.log_moves log) by congruence.
  pose proof (writeback_inv gg v (dc_lr dc) l bl _ _ _ cs new log HI HV eq_refl Hg Epb HW HC eq_refl Hnew) as P. cbn zeta in P.
  assert (Hw : PassProofs.pass_running (Defrag.cs_pass cs)) by (apply (G.ci_within Gran.HVam gg (GranTlsf.GInv gg) GranInv.kind_ok _ _ _ _ _ _ HC)).
  destruct wr as [| |why]; [| |exact I];
    (destruct (replay_log c _ (dc_lr dc) log) as (v2 & r); destruct r as [[]|code| |]; auto;
     destruct P as (I2 & L2 & G2 & M2 & V2); cbn [dc_lr dc_ctx Defrag.c_moves]; rewrite Hms; auto 10).
Qed.

Lemma collect_list_inv v dc p :
  VamInv c v -> GV c v -> Defrag.c_moves (dc_ctx dc) = [] -> PassProofs.pass_running p ->
  let '(v', r) := collect_list c v dc p in
  match r with
  | OK (dc', p') =>
      VamInv c v' /\ lists_frame v v' /\ grown v v' /\ dc_lr dc' = dc_lr dc /\
      moves_ok v' (dc_lr dc) (Defrag.c_moves (dc_ctx dc')) /\ PassProofs.pass_running p'
  | ER _ => False
  | _ => True
  end.
Proof.
  intros HI HV Hidle Hrun. pose proof (collect_list_inv_gv v dc p HI HV Hidle Hrun) as P.
  destruct (collect_list c v dc p) as (v' & r). destruct r as [(dc' & p')|code| |]; auto. apply P.
Qed.

(* BeginDefragPass's collecting step keeps the granularity bookkeeping sound *)
Lemma collect_list_G v dc p v' dc' p' :
  VamInv c v -> GV c v -> Defrag.c_moves (dc_ctx dc) = [] -> PassProofs.pass_running p ->
  collect_list c v dc p = (v', OK (dc', p')) -> GV c v'.
Proof.
  intros HI HV Hidle Hrun E. pose proof (collect_list_inv_gv v dc p HI HV Hidle Hrun) as P. rewrite E in P. apply P.
Qed.

(* ---------------------------------------------------------------- BeginDefragPass *)

Lemma pass_loop_inv_gv fuel : forall v run p,
  VamInv c v -> run_idle run -> 0 <= dr_max_bytes run -> 0 <= dr_max_allocs run -> PassProofs.pass_running p -> GV c v ->
  let '(v', run', r) := pass_loop c fuel v run p in
  match r with
  | OK _ => (VamInv c v' /\ lists_frame v v' /\ grown v v' /\ run_ok v' run' /\ map dc_lr (dr_ctxs run') = map dc_lr (dr_ctxs run)) /\ GV c v'
  | ER _ => False
  | _ => True
  end.
Proof.
  induction fuel as [|f IH]; intros v run p HI Hidle Hb Ha Hrun HV; cbn [pass_loop]; [exact I|].
  destruct (nth_z (dr_ctxs run) (dr_progress run)) as [dc|] eqn:En.
  - assert (Hdc : Defrag.c_moves (dc_ctx dc) = []) by (eapply Hidle; eauto).
    pose proof (collect_list_inv_gv v dc p HI HV Hdc Hrun) as P.
    destruct (collect_list c v dc p) as (v1 & r). destruct r as [(dc' & p')|code| |]; auto.
    destruct P as ((I1 & L1 & G1 & Elr & M1 & Hrun') & V1).
    pose proof (nth_z_some_range _ _ _ En) as Hrg.
    assert (Hlrs : map dc_lr (set_nth_ctx (dr_ctxs run) (dr_progress run) dc') = map dc_lr (dr_ctxs run)).
    { unfold set_nth_ctx. clear - En Elr. unfold set_nth_z, nth_z in *. destruct (dr_progress run <? 0); [reflexivity|].
      revert En. generalize (Z.to_nat (dr_progress run)). generalize (dr_ctxs run). induction l as [|x l IH]; intros [|n] E; cbn in *; try discriminate; try reflexivity.
      - injection E as ->. rewrite Elr. reflexivity.
      - rewrite IH; auto. }
    destruct (Defrag.c_moves (dc_ctx dc')) as [|m0 ms0] eqn:Em.
    + (* nothing to move in this list: next list *)
      match goal with |- context [pass_loop c f v1 ?rr p'] => set (run1 := rr) end.
      assert (Hidle1 : run_idle run1).
      { intros i dc1 Hn1. unfold run1 in Hn1. cbn [dr_ctxs] in Hn1. unfold set_nth_ctx in Hn1.
        destruct (Z.eq_dec i (dr_progress run)) as [->|Hne].
        - rewrite nth_z_set_same in Hn1 by exact Hrg. injection Hn1 as <-. exact Em.
        - rewrite nth_z_set_other in Hn1 by congruence. eapply Hidle; eauto. }
      pose proof (IH v1 run1 p' I1 Hidle1 Hb Ha Hrun' V1) as Q.
      destruct (pass_loop c f v1 run1 p') as ((v2 & run2) & r2). destruct r2 as [mvs|code| |]; auto.
      destruct Q as ((I2 & L2 & G2 & R2 & E2) & V2). split; [|exact V2]. split; [exact I2|]. split; [eapply lists_frame_trans; eauto|].
      split; [eapply grown_trans; eauto|]. split; [exact R2|]. rewrite E2. unfold run1. cbn [dr_ctxs]. exact Hlrs.
    + split; [|exact V1]. split; [exact I1|]. split; [exact L1|]. split; [exact G1|]. split; [|cbn [dr_ctxs]; exact Hlrs].
      split; [exact Hb|]. split; [exact Ha|]. intros i dc1 Hn1. cbn [dr_ctxs dr_progress] in *. unfold set_nth_ctx in Hn1.
      destruct (Z.eq_dec i (dr_progress run)) as [->|Hne].
      * rewrite nth_z_set_same in Hn1 by exact Hrg. injection Hn1 as <-. split; [intros _; rewrite Elr, Em; exact M1|congruence].
      * rewrite nth_z_set_other in Hn1 by congruence. split; [congruence|intros _; eapply Hidle; eauto].
  - split; [|exact HV]. split; [exact HI|]. split; [apply lists_frame_refl|]. split; [apply grown_refl|]. split; [|reflexivity].
    apply run_idle_ok; auto.
Qed.

Lemma pass_loop_inv fuel v run p :
  VamInv c v -> run_idle run -> 0 <= dr_max_bytes run -> 0 <= dr_max_allocs run -> PassProofs.pass_running p -> GV c v ->
  let '(v', run', r) := pass_loop c fuel v run p in
  match r with
  | OK _ => VamInv c v' /\ lists_frame v v' /\ grown v v' /\ run_ok v' run' /\ map dc_lr (dr_ctxs run') = map dc_lr (dr_ctxs run)
  | ER _ => False
  | _ => True
  end.
Proof.
  intros HI Hidle Hb Ha Hrun HV. pose proof (pass_loop_inv_gv fuel v run p HI Hidle Hb Ha Hrun HV) as P.
  destruct (pass_loop c fuel v run p) as ((v' & run') & r). destruct r; auto. apply P.
Qed.

(* BeginDefragPass, no pass open, block lists of any granularity *)
Lemma defrag_pass_inv v run :
  VamInv c v -> run_ok v run -> run_idle run -> GV c v ->
  let '(v', run', r) := defrag_pass c v run in
  match r with
  | OK _ => VamInv c v' /\ lists_frame v v' /\ grown v v' /\ run_ok v' run' /\ map dc_lr (dr_ctxs run') = map dc_lr (dr_ctxs run)
  | ER _ => False
  | _ => True
  end.
Proof.
  intros HI (Hb & Ha & _) Hidle HG. unfold defrag_pass.
  apply pass_loop_inv; auto. apply PassProofs.pass_init_running; auto.
Qed.

Lemma defrag_pass_G v run v' run' mvs :
  VamInv c v -> run_ok v run -> run_idle run -> GV c v -> defrag_pass c v run = (v', run', OK mvs) -> GV c v'.
Proof.
  intros HI (Hb & Ha & _) Hidle HG E. unfold defrag_pass in E.
  pose proof (pass_loop_inv_gv (S (length (dr_ctxs run))) v run _ HI Hidle Hb Ha (PassProofs.pass_init_running _ _ Hb Ha) HG) as P. rewrite E in P. apply P.
Qed.

End WithCfg.
