(* LinearSpec.v — reference semantics of a linear block: a stack, a double stack or a ring buffer of
   LIVE items.  No lazy deletion, no null counters, no compaction, no vector swap, no binary search.

   State: the lower stack `lo` (ascending offsets; in ring mode the older half of the ring), and `sec`:
   in double-stack mode the upper stack, listed bottom of the list = top of the stack (highest offset
   first, the lowest = most recent item last); in ring mode the newer, wrapped-around half of the ring
   (ascending offsets, all below the first item of `lo`).  mode = MEmpty iff sec = [].

   Pages: byte x lies on page x / gran.  Two allocation types conflict when the granularity handler
   says so (Gran.allocations_conflict; symmetric; the free type 0 conflicts with nothing).

   Operations and outcomes are the op / outcome types of Linear.v, so that histories can be run on
   both models. *)
From Coq Require Import ZArith List Bool Lia ZifyBool.
From Arsenal Require Import Util Bits Gran Linear.
Import ListNotations.
Open Scope Z_scope.

Record spec := mkSpec {
  sp_size : Z;
  sp_gran : Z;
  sp_h : gran;                (* only its conflict relation is used *)
  sp_lo : list sub;
  sp_sec : list sub;
  sp_mode : mode
}.

Definition spec_init (h : handler) (gr size : Z) : spec :=
  mkSpec size gr (gran_init h gr size) [] [] MEmpty.

(* ---------------------------------------------------------------- plain helpers *)

Definition send (s : sub) : Z := s_off s + s_size s.

Fixpoint olast (v : list sub) : option sub :=
  match v with
  | [] => None
  | [s] => Some s
  | _ :: r => olast r
  end.

(* end of the last item, 0 for an empty list *)
Definition last_end (v : list sub) : Z :=
  match olast v with Some s => send s | None => 0 end.

Definition same_page (g a b : Z) : bool := a / g =? b / g.

Definition conflicts (h : gran) (a b : Z) : bool := allocations_conflict h a b.

(* some item of v (all of them end at or before cand) has its last byte on cand's page and a
   conflicting type *)
Definition prev_conflict (h : gran) (g : Z) (v : list sub) (cand atype : Z) : bool :=
  existsb (fun s => same_page g (send s - 1) cand && conflicts h (s_type s) atype) v.

(* some item of v (all of them start at or after cand + size) starts on the page of the last byte of
   [cand, cand + size) and has a conflicting type *)
Definition next_conflict (h : gran) (g : Z) (v : list sub) (cand size atype : Z) : bool :=
  existsb (fun s => same_page g (cand + size - 1) (s_off s) && conflicts h (s_type s) atype) v.

(* move the candidate to the next page boundary when it would share its page with a conflicting
   earlier item *)
Definition bump (h : gran) (g : Z) (v : list sub) (cand atype : Z) : Z :=
  if prev_conflict h g v cand atype then align_up cand g else cand.

Definition has_off (off : Z) (v : list sub) : bool := existsb (fun s => s_off s =? off) v.
Definition remove_off (off : Z) (v : list sub) : list sub := filter (fun s => negb (s_off s =? off)) v.
Definition retag_off (off : Z) (tag : option Z) (v : list sub) : list sub :=
  map (fun s => if s_off s =? off then set_tag tag s else s) v.

Definition used_bytes (sp : spec) : Z :=
  fold_right (fun s a => s_size s + a) 0 (sp_lo sp ++ sp_sec sp).
Definition free_bytes (sp : spec) : Z := sp_size sp - used_bytes sp.
Definition spec_items (sp : spec) : list sub := sp_lo sp ++ sp_sec sp.

(* ---------------------------------------------------------------- requests *)

Inductive place := PLower | PWrap | PUpper.
Inductive sres := SGrant (off : Z) (p : place) | SRefused | SError.

(* start of the top item of the upper stack, or the end of the block *)
Definition top_start (sp : spec) : Z :=
  match olast (sp_sec sp) with Some s => s_off s | None => sp_size sp end.

(* wrap-around: behind the last ring item (or at 0), in front of the first lower item *)
Definition spec_wrap (sp : spec) (size align atype : Z) : sres :=
  match sp_lo sp with
  | [] => SRefused
  | first_lo :: _ =>
    let cand := bump (sp_h sp) (sp_gran sp) (sp_sec sp) (align_up (last_end (sp_sec sp)) align) atype in
    if (cand + size <=? s_off first_lo) && negb (next_conflict (sp_h sp) (sp_gran sp) (sp_lo sp) cand size atype)
    then SGrant cand PWrap else SRefused
  end.

Definition spec_lower (sp : spec) (size align atype : Z) : sres :=
  match sp_mode sp with
  | MRing => spec_wrap sp size align atype
  | _ =>
    let cand := bump (sp_h sp) (sp_gran sp) (sp_lo sp) (align_up (last_end (sp_lo sp)) align) atype in
    if cand + size <=? top_start sp then
      if next_conflict (sp_h sp) (sp_gran sp) (sp_sec sp) cand size atype then SRefused
      else SGrant cand PLower
    else
      match sp_sec sp with
      | [] => spec_wrap sp size align atype      (* no upper stack: try to wrap around *)
      | _ => SRefused
      end
  end.

Definition spec_upper (sp : spec) (size align atype : Z) : sres :=
  match sp_mode sp with
  | MRing => SError
  | _ =>
    if (size >? sp_size sp) || (size >? top_start sp) then SRefused else
    let g := sp_gran sp in
    let cand0 := align_down (top_start sp - size) align in
    let cand :=
      if next_conflict (sp_h sp) g (sp_sec sp) cand0 size atype
      then align_down (align_down (align_down (cand0 + size - 1) g - size) g) align
      else cand0 in
    if last_end (sp_lo sp) >? cand then SRefused else
    if prev_conflict (sp_h sp) g (sp_lo sp) cand atype then SRefused else
    SGrant cand PUpper
  end.

Definition spec_request (sp : spec) (size align : Z) (upper : bool) (atype : Z) : sres :=
  if size <=? 0 then SError else
  if atype =? 0 then SError else
  if upper then spec_upper sp size align atype else spec_lower sp size align atype.

Definition mk_item (off size : Z) (tag : option Z) (atype align : Z) : sub :=
  mkSub off size tag atype size align.

Definition spec_place (sp : spec) (p : place) (x : sub) : spec :=
  match p with
  | PLower => mkSpec (sp_size sp) (sp_gran sp) (sp_h sp) (sp_lo sp ++ [x]) (sp_sec sp) (sp_mode sp)
  | PWrap => mkSpec (sp_size sp) (sp_gran sp) (sp_h sp) (sp_lo sp) (sp_sec sp ++ [x]) MRing
  | PUpper => mkSpec (sp_size sp) (sp_gran sp) (sp_h sp) (sp_lo sp) (sp_sec sp ++ [x]) MDouble
  end.

(* ---------------------------------------------------------------- free, clear, user data *)

(* mode Empty whenever sec is empty; a ring whose older half is gone continues as a plain stack *)
Definition spec_norm (sp : spec) : spec :=
  let m := match sp_sec sp with [] => MEmpty | _ => sp_mode sp end in
  match sp_lo sp, m with
  | [], MRing => mkSpec (sp_size sp) (sp_gran sp) (sp_h sp) (sp_sec sp) [] MEmpty
  | _, _ => mkSpec (sp_size sp) (sp_gran sp) (sp_h sp) (sp_lo sp) (sp_sec sp) m
  end.

Definition spec_free (sp : spec) (off : Z) : option spec :=
  if has_off off (sp_lo sp) then
    Some (spec_norm (mkSpec (sp_size sp) (sp_gran sp) (sp_h sp) (remove_off off (sp_lo sp)) (sp_sec sp) (sp_mode sp)))
  else if has_off off (sp_sec sp) then
    Some (spec_norm (mkSpec (sp_size sp) (sp_gran sp) (sp_h sp) (sp_lo sp) (remove_off off (sp_sec sp)) (sp_mode sp)))
  else None.

Definition spec_set_tag (sp : spec) (off : Z) (tag : option Z) : option spec :=
  if has_off off (sp_lo sp) then
    Some (mkSpec (sp_size sp) (sp_gran sp) (sp_h sp) (retag_off off tag (sp_lo sp)) (sp_sec sp) (sp_mode sp))
  else if has_off off (sp_sec sp) then
    Some (mkSpec (sp_size sp) (sp_gran sp) (sp_h sp) (sp_lo sp) (retag_off off tag (sp_sec sp)) (sp_mode sp))
  else None.

Definition spec_get_tag (sp : spec) (off : Z) : option (option Z) :=
  match find (fun s => s_off s =? off) (spec_items sp) with
  | Some s => Some (s_tag s)
  | None => None
  end.

Definition spec_clear (sp : spec) : spec :=
  mkSpec (sp_size sp) (sp_gran sp) (sp_h sp) [] [] MEmpty.

(* ---------------------------------------------------------------- one step *)

Definition spec_step (sp : spec) (o : op) : spec * outcome :=
  match o with
  | OAlloc size align atype _ upper _ tag =>
    match spec_request sp size align upper atype with
    | SGrant off p => (spec_place sp p (mk_item off size tag atype align), mkOut ROk off size)
    | SRefused => (sp, out RRefused)
    | SError => (sp, out RError)
    end
  | ORequest size align atype _ upper _ =>
    match spec_request sp size align upper atype with
    | SGrant off p => (sp, mkOut ROk off size)
    | SRefused => (sp, out RRefused)
    | SError => (sp, out RError)
    end
  | OFree h =>
    match spec_free sp (h - 1) with
    | Some sp' => (sp', out ROk)
    | None => (sp, out RError)
    end
  | OSetUD h tag =>
    match spec_set_tag sp (h - 1) tag with
    | Some sp' => (sp', out ROk)
    | None => (sp, out RError)
    end
  | OClear => (spec_clear sp, out ROk)
  | OMayHave _ size => (sp, mkOut ROk (if size <=? free_bytes sp then 1 else 0) 0)
  end.

Fixpoint srun (sp : spec) (ops : list op) : spec :=
  match ops with
  | [] => sp
  | o :: rest => srun (fst (spec_step sp o)) rest
  end.

Fixpoint souts (sp : spec) (ops : list op) : list outcome :=
  match ops with
  | [] => []
  | o :: rest => snd (spec_step sp o) :: souts (fst (spec_step sp o)) rest
  end.

(* ---------------------------------------------------------------- what the definitions say, clause by clause *)

Lemma bump_cases h g v cand atype : bump h g v cand atype = cand \/ bump h g v cand atype = align_up cand g.
Proof. unfold bump. destruct (prev_conflict h g v cand atype); auto. Qed.

Lemma bump_spec h g v cand atype align :
  pow2 g -> pow2 align -> cand mod align = 0 ->
  cand <= bump h g v cand atype /\ (bump h g v cand atype) mod align = 0.
Proof.
  intros Hg Ha Hm. unfold bump. destruct (prev_conflict h g v cand atype); [|split; [lia|exact Hm]].
  pose proof (align_up_bounds cand g Hg) as ((Hlo & _) & Hmod). split; [lia|].
  destruct (Z_le_gt_dec align g).
  - eapply pow2_mod_mono; [exact Ha|exact Hg|lia|exact Hmod].
  - rewrite align_up_id; auto. eapply pow2_mod_mono; [exact Hg|exact Ha|lia|exact Hm].
Qed.

(* "lower allocations are placed at the aligned end of the previous lower allocation" (moved to the
   next page boundary only on a type conflict), and never reach into the upper stack *)
Theorem lower_at_aligned_end sp size align atype off :
  pow2 (sp_gran sp) -> pow2 align ->
  spec_lower sp size align atype = SGrant off PLower ->
  let e := align_up (last_end (sp_lo sp)) align in
  sp_mode sp <> MRing /\
  (off = e \/ (off = align_up e (sp_gran sp) /\ prev_conflict (sp_h sp) (sp_gran sp) (sp_lo sp) e atype = true)) /\
  last_end (sp_lo sp) <= off /\ off mod align = 0 /\ off + size <= top_start sp /\
  next_conflict (sp_h sp) (sp_gran sp) (sp_sec sp) off size atype = false.
Proof.
  intros Hg Ha H. cbn zeta. unfold spec_lower in H. set (e := align_up (last_end (sp_lo sp)) align) in *.
  assert (Hgen : (if bump (sp_h sp) (sp_gran sp) (sp_lo sp) e atype + size <=? top_start sp
                  then if next_conflict (sp_h sp) (sp_gran sp) (sp_sec sp) (bump (sp_h sp) (sp_gran sp) (sp_lo sp) e atype) size atype
                       then SRefused else SGrant (bump (sp_h sp) (sp_gran sp) (sp_lo sp) e atype) PLower
                  else match sp_sec sp with [] => spec_wrap sp size align atype | _ => SRefused end) = SGrant off PLower ->
                 (off = e \/ (off = align_up e (sp_gran sp) /\ prev_conflict (sp_h sp) (sp_gran sp) (sp_lo sp) e atype = true)) /\
                 last_end (sp_lo sp) <= off /\ off mod align = 0 /\ off + size <= top_start sp /\
                 next_conflict (sp_h sp) (sp_gran sp) (sp_sec sp) off size atype = false).
  { pose proof (align_up_bounds (last_end (sp_lo sp)) align Ha) as ((Hlo & _) & Hmod). fold e in Hlo, Hmod.
    pose proof (bump_spec (sp_h sp) (sp_gran sp) (sp_lo sp) e atype align Hg Ha Hmod) as (Hb1 & Hb2).
    destruct (_ <=? top_start sp) eqn:Hfit.
    - destruct (next_conflict _ _ _ _ _ _) eqn:Hnc; [discriminate|]. intros E; injection E as <-.
      split; [|split; [lia|split; [exact Hb2|split; [lia|exact Hnc]]]].
      unfold bump. destruct (prev_conflict (sp_h sp) (sp_gran sp) (sp_lo sp) e atype); auto.
    - destruct (sp_sec sp); [|discriminate]. unfold spec_wrap. destruct (sp_lo sp); [discriminate|].
      destruct (_ && _); discriminate. }
  destruct (sp_mode sp) eqn:Hm.
  - split; [discriminate|auto].
  - unfold spec_wrap in H. destruct (sp_lo sp); [discriminate|]. destruct (_ && _); discriminate.
  - split; [discriminate|auto].
Qed.

(* "wrap-around happens only into space freed at the front", and only when the end placement did
   not fit (or the block already is a ring) *)
Theorem wrap_only_when_end_full sp size align atype off :
  spec_lower sp size align atype = SGrant off PWrap ->
  (sp_mode sp = MRing \/
   (sp_mode sp <> MRing /\ sp_sec sp = [] /\
    top_start sp < bump (sp_h sp) (sp_gran sp) (sp_lo sp) (align_up (last_end (sp_lo sp)) align) atype + size)) /\
  exists first_lo rest, sp_lo sp = first_lo :: rest /\ off + size <= s_off first_lo /\
    next_conflict (sp_h sp) (sp_gran sp) (sp_lo sp) off size atype = false.
Proof.
  intros H. unfold spec_lower in H.
  assert (Hw : spec_wrap sp size align atype = SGrant off PWrap ->
               exists first_lo rest, sp_lo sp = first_lo :: rest /\ off + size <= s_off first_lo /\
                 next_conflict (sp_h sp) (sp_gran sp) (sp_lo sp) off size atype = false).
  { unfold spec_wrap. destruct (sp_lo sp) as [|f r]; [discriminate|].
    destruct (_ && _) eqn:E; [|discriminate]. intros E'; injection E' as <-.
    apply andb_true_iff in E. destruct E as (E1 & E2). exists f, r. split; [reflexivity|].
    split; [lia|]. apply negb_true_iff in E2. exact E2. }
  destruct (sp_mode sp) eqn:Hm.
  - destruct (_ <=? top_start sp) eqn:Hfit.
    + destruct (next_conflict _ _ (sp_sec sp) _ _ _); discriminate.
    + destruct (sp_sec sp) eqn:Hs; [|discriminate]. split; [right; repeat split; auto; try discriminate; lia|auto].
  - split; [left; reflexivity|auto].
  - destruct (_ <=? top_start sp) eqn:Hfit.
    + destruct (next_conflict _ _ (sp_sec sp) _ _ _); discriminate.
    + destruct (sp_sec sp) eqn:Hs; [|discriminate]. split; [right; repeat split; auto; try discriminate; lia|auto].
Qed.

(* "upper allocations at the aligned-down position below the previous upper allocation" *)
Theorem upper_below_previous sp size align atype off :
  pow2 (sp_gran sp) -> pow2 align ->
  spec_upper sp size align atype = SGrant off PUpper ->
  let c0 := align_down (top_start sp - size) align in
  sp_mode sp <> MRing /\
  (off = c0 \/ (next_conflict (sp_h sp) (sp_gran sp) (sp_sec sp) c0 size atype = true /\ off < c0)) /\
  off + size <= top_start sp /\ off mod align = 0 /\ last_end (sp_lo sp) <= off /\
  prev_conflict (sp_h sp) (sp_gran sp) (sp_lo sp) off atype = false.
Proof.
  intros Hg Ha H. cbn zeta. unfold spec_upper in H. set (c0 := align_down (top_start sp - size) align) in *.
  assert (Hgen : (if (size >? sp_size sp) || (size >? top_start sp) then SRefused else
                  let g := sp_gran sp in
                  let cand := if next_conflict (sp_h sp) g (sp_sec sp) c0 size atype
                              then align_down (align_down (align_down (c0 + size - 1) g - size) g) align else c0 in
                  if last_end (sp_lo sp) >? cand then SRefused else
                  if prev_conflict (sp_h sp) g (sp_lo sp) cand atype then SRefused else SGrant cand PUpper) = SGrant off PUpper ->
                 (off = c0 \/ (next_conflict (sp_h sp) (sp_gran sp) (sp_sec sp) c0 size atype = true /\ off < c0)) /\
                 off + size <= top_start sp /\ off mod align = 0 /\ last_end (sp_lo sp) <= off /\
                 prev_conflict (sp_h sp) (sp_gran sp) (sp_lo sp) off atype = false).
  { destruct (_ || _); [discriminate|]. cbn zeta.
    pose proof (align_down_bounds (top_start sp - size) align Ha) as ((_ & Hd1) & Hd2). fold c0 in Hd1, Hd2.
    pose proof (align_down_bounds (c0 + size - 1) (sp_gran sp) Hg) as ((_ & H1) & _).
    pose proof (align_down_bounds (align_down (c0 + size - 1) (sp_gran sp) - size) (sp_gran sp) Hg) as ((_ & H2) & _).
    pose proof (align_down_bounds (align_down (align_down (c0 + size - 1) (sp_gran sp) - size) (sp_gran sp)) align Ha)
      as ((_ & H3) & H4).
    destruct (next_conflict (sp_h sp) (sp_gran sp) (sp_sec sp) c0 size atype) eqn:Hnc.
    - destruct (last_end (sp_lo sp) >? _) eqn:Hle; [discriminate|].
      destruct (prev_conflict _ _ _ _ _) eqn:Hpc; [discriminate|]. intros E; injection E as <-.
      split; [right; split; [reflexivity|lia]|]. repeat split; auto; lia.
    - destruct (last_end (sp_lo sp) >? c0) eqn:Hle; [discriminate|].
      destruct (prev_conflict _ _ _ _ _) eqn:Hpc; [discriminate|]. intros E; injection E as <-.
      split; [left; reflexivity|]. repeat split; auto; lia. }
  destruct (sp_mode sp) eqn:Hm; [split; [discriminate|auto]|discriminate|split; [discriminate|auto]].
Qed.
