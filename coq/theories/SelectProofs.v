(* SelectProofs.v — theorems about the memory type selection model (Select.v), property C19.
   Everything is proved for every memory-type table (list of any length), every mask and every request, by
   induction over the table; nothing is proved by enumeration of tables. *)
From Coq Require Import NArith ZArith List Bool Lia Sorted.
From Coq Require Import ZifyBool ZifyN.
From Arsenal Require Import Select.
Import ListNotations.
Local Open Scope N_scope.

(* ------------------------------------------------------------------ bit-level facts *)

Lemma has_all_bit f req n :
  has_all f req = true -> N.testbit req n = true -> N.testbit f n = true.
Proof.
  unfold has_all. intros Hall Hreq. apply N.eqb_eq in Hall.
  assert (Hb : N.testbit (N.land req f) n = N.testbit req n) by now rewrite Hall.
  rewrite N.land_spec, Hreq in Hb. exact Hb.
Qed.

Lemma has_all_sub f req req' :
  (forall n, N.testbit req n = true -> N.testbit req' n = true) ->
  has_all f req' = true -> has_all f req = true.
Proof.
  intros Hsub Hall. unfold has_all. apply N.eqb_eq. apply N.bits_inj. intros n.
  rewrite N.land_spec. destruct (N.testbit req n) eqn:Hr; [|reflexivity].
  cbn [andb]. apply (has_all_bit _ _ _ Hall). now apply Hsub.
Qed.

Lemma has_all_land f req : has_all f req = true -> N.land req f = req.
Proof. unfold has_all. intros H. now apply N.eqb_eq in H. Qed.

Lemma lor_bit_l a b n : N.testbit a n = true -> N.testbit (N.lor a b) n = true.
Proof. intros H. now rewrite N.lor_spec, H. Qed.

Lemma lor_bit_r a b n : N.testbit b n = true -> N.testbit (N.lor a b) n = true.
Proof. intros H. rewrite N.lor_spec, H. apply orb_true_r. Qed.

Lemma pos_popcount_pos p : (0 < pos_popcount p)%nat.
Proof. induction p as [q IH|q IH|]; cbn [pos_popcount]; lia. Qed.

Lemma popcount_zero n : popcount n = 0%nat <-> n = 0.
Proof.
  destruct n as [|p]; cbn [popcount]; split; intros H; try reflexivity; try discriminate.
  pose proof (pos_popcount_pos p). lia.
Qed.

Lemma land_pow2 k f : N.land (2 ^ k) f = if N.testbit f k then 2 ^ k else 0.
Proof.
  apply N.bits_inj. intros n. rewrite N.land_spec, N.pow2_bits_eqb.
  destruct (N.eqb_spec k n) as [->|Hne].
  - destruct (N.testbit f n) eqn:Hf; cbn [andb].
    + now rewrite N.pow2_bits_true.
    + now rewrite N.bits_0.
  - cbn [andb]. destruct (N.testbit f k).
    + symmetry. now apply N.pow2_bits_false.
    + now rewrite N.bits_0.
Qed.

Lemma ldiff_pow2 k f : N.ldiff (2 ^ k) f = if N.testbit f k then 0 else 2 ^ k.
Proof.
  apply N.bits_inj. intros n. rewrite N.ldiff_spec, N.pow2_bits_eqb.
  destruct (N.eqb_spec k n) as [->|Hne].
  - destruct (N.testbit f n) eqn:Hf; cbn [andb negb].
    + now rewrite N.bits_0.
    + now rewrite N.pow2_bits_true.
  - cbn [andb]. destruct (N.testbit f k).
    + now rewrite N.bits_0.
    + symmetry. now apply N.pow2_bits_false.
Qed.

Definition b2n (b : bool) : nat := if b then 1%nat else 0%nat.

Lemma popcount_land_uncached f : popcount (N.land DEVICE_UNCACHED_AMD f) = b2n (N.testbit f 7).
Proof.
  change DEVICE_UNCACHED_AMD with (2 ^ 7). rewrite land_pow2. now destruct (N.testbit f 7).
Qed.

Lemma popcount_land_local f : popcount (N.land DEVICE_LOCAL f) = b2n (N.testbit f 0).
Proof.
  change DEVICE_LOCAL with (2 ^ 0). rewrite land_pow2. now destruct (N.testbit f 0).
Qed.

Lemma popcount_land_local_uncached f :
  popcount (N.land (N.lor DEVICE_LOCAL DEVICE_UNCACHED_AMD) f)
  = (b2n (N.testbit f 0) + b2n (N.testbit f 7))%nat.
Proof.
  rewrite N.land_lor_distr_l.
  change DEVICE_LOCAL with (2 ^ 0). change DEVICE_UNCACHED_AMD with (2 ^ 7).
  rewrite !land_pow2. now destruct (N.testbit f 0), (N.testbit f 7).
Qed.

Lemma popcount_ldiff_local f : popcount (N.ldiff DEVICE_LOCAL f) = b2n (negb (N.testbit f 0)).
Proof.
  change DEVICE_LOCAL with (2 ^ 0). rewrite ldiff_pow2. now destruct (N.testbit f 0).
Qed.

(* ------------------------------------------------------------------ the selection loop *)

Section Loop.
  Variables mask req pref npref : N.

  Definition elig_at (i : nat) (f : N) : bool := N.testbit mask (N.of_nat i) && has_all f req.
  Definition cst (f : N) : nat := cost pref npref f.

  Lemma find_loop_cons f ts i best :
    find_loop mask req pref npref (f :: ts) i best =
    if negb (elig_at i f) then find_loop mask req pref npref ts (S i) best
    else if Nat.eqb (cst f) 0 then Some i
    else match best with
         | Some (_, mc) =>
             if Nat.ltb (cst f) mc then find_loop mask req pref npref ts (S i) (Some (i, cst f))
             else find_loop mask req pref npref ts (S i) best
         | None => find_loop mask req pref npref ts (S i) (Some (i, cst f))
         end.
  Proof.
    cbn [find_loop]. unfold elig_at, cst.
    destruct (N.testbit mask (N.of_nat i)); cbn [negb andb]; [|reflexivity].
    destruct (has_all f req); cbn [negb]; reflexivity.
  Qed.

  (* None is returned only when nothing was remembered and nothing is eligible *)
  Lemma find_loop_none ts : forall i best,
    find_loop mask req pref npref ts i best = None ->
    best = None /\ forall k f, nth_error ts k = Some f -> elig_at (i + k) f = false.
  Proof.
    induction ts as [|f ts IH]; intros i best Hres.
    - cbn [find_loop] in Hres. destruct best as [[b c]|]; [discriminate|].
      split; [reflexivity|]. intros [|k] g Hk; discriminate.
    - rewrite find_loop_cons in Hres.
      destruct (elig_at i f) eqn:He; cbn [negb] in Hres.
      + destruct (Nat.eqb (cst f) 0); [discriminate|].
        destruct best as [[b mc]|].
        * destruct (Nat.ltb (cst f) mc); apply IH in Hres; destruct Hres as [Hb _]; discriminate.
        * apply IH in Hres. destruct Hres as [Hb _]. discriminate.
      + apply IH in Hres. destruct Hres as [Hb Hno]. split; [exact Hb|].
        intros [|k] g Hk.
        * cbn [nth_error] in Hk. injection Hk as <-. now rewrite Nat.add_0_r.
        * cbn [nth_error] in Hk. replace (i + S k)%nat with (S i + k)%nat by lia. now apply Hno.
  Qed.

  (* The index returned is either the remembered one, not beaten (strictly) by any eligible type of the
     rest of the table, or an eligible type of the rest of the table that strictly beats the remembered one
     (or costs nothing), has minimal cost in the rest and the lowest index among those of minimal cost. *)
  Lemma find_loop_some ts : forall i best j,
    find_loop mask req pref npref ts i best = Some j ->
    (exists c, best = Some (j, c) /\
       forall k f, nth_error ts k = Some f -> elig_at (i + k) f = true -> (c <= cst f)%nat)
    \/
    (exists k f, j = (i + k)%nat /\ nth_error ts k = Some f /\ elig_at (i + k) f = true /\
       (forall b c, best = Some (b, c) -> (cst f < c)%nat \/ cst f = 0%nat) /\
       forall k' f', nth_error ts k' = Some f' -> elig_at (i + k') f' = true ->
         (cst f < cst f')%nat \/ (cst f = cst f' /\ (k <= k')%nat)).
  Proof.
    induction ts as [|f ts IH]; intros i best j Hres.
    - cbn [find_loop] in Hres. destruct best as [[b c]|]; [|discriminate].
      injection Hres as ->. left. exists c. split; [reflexivity|].
      intros [|k] g Hk; discriminate.
    - rewrite find_loop_cons in Hres.
      destruct (elig_at i f) eqn:He; cbn [negb] in Hres.
      + destruct (Nat.eqb (cst f) 0) eqn:Hz.
        * (* early return on zero cost *)
          apply Nat.eqb_eq in Hz. injection Hres as <-.
          right. exists 0%nat, f. rewrite Nat.add_0_r.
          repeat split; try assumption; try reflexivity.
          -- intros b c _. now right.
          -- intros k' f' _ _. lia.
        * apply Nat.eqb_neq in Hz.
          assert (Hstep : forall best',
            (best' = Some (i, cst f) /\ (forall b c, best = Some (b, c) -> (cst f < c)%nat))
            \/ (exists b0 mc, best = Some (b0, mc) /\ best' = best /\ (mc <= cst f)%nat) ->
            find_loop mask req pref npref ts (S i) best' = Some j ->
            (exists c, best = Some (j, c) /\
               forall k g, nth_error (f :: ts) k = Some g -> elig_at (i + k) g = true -> (c <= cst g)%nat)
            \/
            (exists k g, j = (i + k)%nat /\ nth_error (f :: ts) k = Some g /\ elig_at (i + k) g = true /\
               (forall b c, best = Some (b, c) -> (cst g < c)%nat \/ cst g = 0%nat) /\
               forall k' g', nth_error (f :: ts) k' = Some g' -> elig_at (i + k') g' = true ->
                 (cst g < cst g')%nat \/ (cst g = cst g' /\ (k <= k')%nat))).
          { intros best' Hbest' Hrec. apply IH in Hrec.
            destruct Hbest' as [[-> Hlt]|(b0 & mc & Hbest & -> & Hge)].
            - (* the head became the remembered type *)
              destruct Hrec as [(c & Hc & Hrest)|(k & g & -> & Hk & Hek & Hb & Hmin)].
              + injection Hc as <- <-. right. exists 0%nat, f. rewrite Nat.add_0_r.
                repeat split; try assumption; try reflexivity.
                * intros b c Hbc. left. now apply (Hlt b c).
                * intros [|k'] g' Hk' Hek'.
                  -- cbn [nth_error] in Hk'. injection Hk' as <-. lia.
                  -- cbn [nth_error] in Hk'. replace (i + S k')%nat with (S i + k')%nat in Hek' by lia.
                     specialize (Hrest _ _ Hk' Hek'). lia.
              + right. exists (S k), g. replace (i + S k)%nat with (S i + k)%nat by lia.
                repeat split; try assumption; try reflexivity.
                * intros b c Hbc. specialize (Hlt _ _ Hbc).
                  destruct (Hb _ _ eq_refl) as [Hl|Hl]; [left; lia|now right].
                * intros [|k'] g' Hk' Hek'.
                  -- cbn [nth_error] in Hk'. injection Hk' as <-.
                     destruct (Hb _ _ eq_refl) as [Hl|Hl]; left; lia.
                  -- cbn [nth_error] in Hk'. replace (i + S k')%nat with (S i + k')%nat in Hek' by lia.
                     specialize (Hmin _ _ Hk' Hek'). lia.
            - (* the remembered type was kept *)
              destruct Hrec as [(c & Hc & Hrest)|(k & g & -> & Hk & Hek & Hb & Hmin)].
              + left. exists c. split; [exact Hc|].
                intros [|k'] g' Hk' Hek'.
                * cbn [nth_error] in Hk'. injection Hk' as <-. rewrite Hbest in Hc. injection Hc as <- <-. lia.
                * cbn [nth_error] in Hk'. replace (i + S k')%nat with (S i + k')%nat in Hek' by lia.
                  now apply (Hrest _ _ Hk').
              + right. exists (S k), g. replace (i + S k)%nat with (S i + k)%nat by lia.
                repeat split; try assumption; try reflexivity.
                intros [|k'] g' Hk' Hek'.
                * cbn [nth_error] in Hk'. injection Hk' as <-.
                  destruct (Hb _ _ Hbest) as [Hl|Hl]; left; lia.
                * cbn [nth_error] in Hk'. replace (i + S k')%nat with (S i + k')%nat in Hek' by lia.
                  specialize (Hmin _ _ Hk' Hek'). lia. }
          destruct best as [[b mc]|].
          -- destruct (Nat.ltb (cst f) mc) eqn:Hlt.
             ++ apply Nat.ltb_lt in Hlt. apply (Hstep (Some (i, cst f))); [|exact Hres].
                left. split; [reflexivity|]. intros b' c' Hbc. injection Hbc as <- <-. exact Hlt.
             ++ apply Nat.ltb_ge in Hlt. apply (Hstep (Some (b, mc))); [|exact Hres].
                right. exists b, mc. repeat split. exact Hlt.
          -- apply (Hstep (Some (i, cst f))); [|exact Hres].
             left. split; [reflexivity|]. intros b' c' Hbc. discriminate.
      + (* head not eligible *)
        apply IH in Hres.
        destruct Hres as [(c & Hc & Hrest)|(k & g & -> & Hk & Hek & Hb & Hmin)].
        * left. exists c. split; [exact Hc|].
          intros [|k'] g' Hk' Hek'.
          -- cbn [nth_error] in Hk'. injection Hk' as <-. rewrite Nat.add_0_r in Hek'. congruence.
          -- cbn [nth_error] in Hk'. replace (i + S k')%nat with (S i + k')%nat in Hek' by lia.
             now apply (Hrest _ _ Hk').
        * right. exists (S k), g. replace (i + S k)%nat with (S i + k)%nat by lia.
          repeat split; try assumption; try reflexivity.
          intros [|k'] g' Hk' Hek'.
          -- cbn [nth_error] in Hk'. injection Hk' as <-. rewrite Nat.add_0_r in Hek'. congruence.
          -- cbn [nth_error] in Hk'. replace (i + S k')%nat with (S i + k')%nat in Hek' by lia.
             specialize (Hmin _ _ Hk' Hek'). lia.
  Qed.
End Loop.

(* ------------------------------------------------------------------ masks *)

Lemma global_bits_from_spec amd ts : forall i k,
  N.testbit (global_bits_from amd ts i) (N.of_nat k) =
  (i <=? k)%nat && match nth_error ts (k - i) with
                   | Some f => amd || negb (N.testbit f 6)
                   | None => false
                   end.
Proof.
  induction ts as [|f ts IH]; intros i k.
  - cbn [global_bits_from]. rewrite N.bits_0.
    destruct (k - i)%nat; cbn [nth_error]; now rewrite andb_false_r.
  - cbn [global_bits_from].
    assert (Hrest : (i < k)%nat ->
      N.testbit (global_bits_from amd ts (S i)) (N.of_nat k) =
      (i <=? k)%nat && match nth_error (f :: ts) (k - i) with
                       | Some f => amd || negb (N.testbit f 6)
                       | None => false
                       end).
    { intros Hlt. rewrite IH. replace (k - i)%nat with (S (k - S i)) by lia. cbn [nth_error].
      replace (S i <=? k)%nat with true by (symmetry; apply Nat.leb_le; lia).
      replace (i <=? k)%nat with true by (symmetry; apply Nat.leb_le; lia). reflexivity. }
    assert (Hbelow : (k < i)%nat ->
      N.testbit (global_bits_from amd ts (S i)) (N.of_nat k) = false /\ (i <=? k)%nat = false).
    { intros Hlt. rewrite IH. split.
      - replace (S i <=? k)%nat with false by (symmetry; apply Nat.leb_gt; lia). reflexivity.
      - apply Nat.leb_gt. lia. }
    destruct (negb amd && N.testbit f 6) eqn:Hex.
    + destruct (lt_eq_lt_dec k i) as [[Hlt|Heq]|Hgt].
      * destruct (Hbelow Hlt) as [-> ->]. reflexivity.
      * subst k. rewrite IH. replace (S i <=? i)%nat with false by (symmetry; apply Nat.leb_gt; lia).
        rewrite Nat.sub_diag. cbn [nth_error andb]. rewrite Nat.leb_refl. cbn [andb].
        destruct amd, (N.testbit f 6); cbn in Hex |- *; congruence.
      * now apply Hrest.
    + rewrite N.setbit_eqb.
      destruct (lt_eq_lt_dec k i) as [[Hlt|Heq]|Hgt].
      * destruct (Hbelow Hlt) as [-> ->].
        replace (N.of_nat i =? N.of_nat k) with false by (symmetry; apply N.eqb_neq; lia). reflexivity.
      * subst k. rewrite N.eqb_refl. cbn [orb]. rewrite Nat.leb_refl, Nat.sub_diag. cbn [nth_error andb].
        destruct amd, (N.testbit f 6); cbn in Hex |- *; congruence.
      * replace (N.of_nat i =? N.of_nat k) with false by (symmetry; apply N.eqb_neq; lia).
        cbn [orb]. now apply Hrest.
Qed.

Lemma global_bits_spec amd types k :
  N.testbit (global_bits amd types) (N.of_nat k) =
  match nth_error types k with
  | Some f => amd || negb (N.testbit f 6)
  | None => false
  end.
Proof.
  unfold global_bits. rewrite global_bits_from_spec. cbn [Nat.leb andb]. now rewrite Nat.sub_0_r.
Qed.

Lemma eff_mask_spec global typeBits ctb n :
  N.testbit (eff_mask global typeBits ctb) n =
  N.testbit typeBits n && N.testbit global n && ((ctb =? 0) || N.testbit ctb n).
Proof.
  unfold eff_mask. destruct (ctb =? 0); rewrite ?N.land_spec; cbn [orb].
  - now rewrite andb_true_r.
  - reflexivity.
Qed.

(* ------------------------------------------------------------------ specification vocabulary *)

(* the flags of type k (None when k is not an index of the table) *)
Definition type_flags (d : device) (k : nat) : option N := nth_error d.(d_types) k.

(* type k with flags f is allowed by the caller's masks and by the device's (global) mask *)
Definition permitted (d : device) (rq : request) (typeBits : N) (k : nat) (f : N) : Prop :=
  N.testbit typeBits (N.of_nat k) = true /\
  (rq.(r_ctb) <> 0 -> N.testbit rq.(r_ctb) (N.of_nat k) = true) /\
  (N.testbit f 6 = true -> d.(d_amd) = true).

(* the properties a type must have for this request *)
Definition required_of (d : device) (rq : request) (bufimg : option N) : N :=
  fst (fst (prefs_of d rq bufimg)).
Definition preferred_of (d : device) (rq : request) (bufimg : option N) : N :=
  snd (fst (prefs_of d rq bufimg)).
Definition not_preferred_of (d : device) (rq : request) (bufimg : option N) : N :=
  snd (prefs_of d rq bufimg).

Definition eligible_type (d : device) (rq : request) (typeBits : N) (bufimg : option N) (k : nat) : Prop :=
  exists f, type_flags d k = Some f /\ permitted d rq typeBits k f /\
            N.land (required_of d rq bufimg) f = required_of d rq bufimg.

(* the cost the selection minimises *)
Definition cost_of (d : device) (rq : request) (bufimg : option N) (k : nat) : nat :=
  match type_flags d k with
  | Some f => cost (preferred_of d rq bufimg) (not_preferred_of d rq bufimg) f
  | None => 0%nat
  end.

(* (cost, index) lexicographic order: the order in which types are considered *)
Definition better_eq (d : device) (rq : request) (bufimg : option N) (j k : nat) : Prop :=
  (cost_of d rq bufimg j < cost_of d rq bufimg k)%nat \/
  (cost_of d rq bufimg j = cost_of d rq bufimg k /\ (j <= k)%nat).
Definition better (d : device) (rq : request) (bufimg : option N) (j k : nat) : Prop :=
  (cost_of d rq bufimg j < cost_of d rq bufimg k)%nat \/
  (cost_of d rq bufimg j = cost_of d rq bufimg k /\ (j < k)%nat).

Lemma select_unfold d rq typeBits bufimg :
  select d rq typeBits bufimg =
  find_loop (eff_mask (global_bits d.(d_amd) d.(d_types)) typeBits rq.(r_ctb))
            (required_of d rq bufimg) (preferred_of d rq bufimg) (not_preferred_of d rq bufimg)
            d.(d_types) 0 None.
Proof.
  unfold select, required_of, preferred_of, not_preferred_of, find_type.
  destruct (prefs_of d rq bufimg) as [[rq' pf] np]. reflexivity.
Qed.

Lemma elig_at_iff d rq typeBits bufimg k f :
  type_flags d k = Some f ->
  elig_at (eff_mask (global_bits d.(d_amd) d.(d_types)) typeBits rq.(r_ctb)) (required_of d rq bufimg) k f = true
  <-> permitted d rq typeBits k f /\ N.land (required_of d rq bufimg) f = required_of d rq bufimg.
Proof.
  intros Hk. unfold elig_at, permitted, has_all. unfold type_flags in Hk.
  rewrite eff_mask_spec, global_bits_spec, Hk.
  rewrite !andb_true_iff, orb_true_iff, orb_true_iff, negb_true_iff, !N.eqb_eq.
  split.
  - intros [[[Htb Hg] Hc] Hr]. repeat split; try assumption.
    + intros Hne. destruct Hc as [Hc|Hc]; [contradiction|exact Hc].
    + intros H6. destruct Hg as [Hg|Hg]; [exact Hg|congruence].
  - intros [(Htb & Hc & Hg) Hr]. repeat split; try assumption.
    + destruct (d_amd d); [now left|right]. destruct (N.testbit f 6); [|reflexivity].
      now specialize (Hg eq_refl).
    + destruct (N.eq_dec (r_ctb rq) 0) as [Hz|Hnz]; [now left|right; now apply Hc].
Qed.

(* ------------------------------------------------------------------ main characterisation of select *)

Theorem select_some_spec d rq typeBits bufimg j :
  select d rq typeBits bufimg = Some j ->
  eligible_type d rq typeBits bufimg j /\
  forall k, eligible_type d rq typeBits bufimg k -> better_eq d rq bufimg j k.
Proof.
  rewrite select_unfold. intros Hsel. apply find_loop_some in Hsel.
  destruct Hsel as [(c & Hc & _)|(k & f & -> & Hk & He & _ & Hmin)]; [discriminate|].
  cbn [Nat.add] in *. split.
  - exists f. split; [exact Hk|]. now apply (elig_at_iff d rq typeBits bufimg k f Hk).
  - intros k' (f' & Hk' & Hp' & Hr'). unfold better_eq, cost_of, type_flags in *. rewrite Hk, Hk'.
    apply (Hmin k' f' Hk'). apply (elig_at_iff d rq typeBits bufimg k' f' Hk'). now split.
Qed.

Theorem select_none_spec d rq typeBits bufimg :
  select d rq typeBits bufimg = None <-> forall k, ~ eligible_type d rq typeBits bufimg k.
Proof.
  split.
  - rewrite select_unfold. intros Hsel k (f & Hk & Hp & Hr). apply find_loop_none in Hsel.
    destruct Hsel as [_ Hno]. specialize (Hno k f Hk). cbn [Nat.add] in Hno.
    assert (He : elig_at (eff_mask (global_bits (d_amd d) (d_types d)) typeBits (r_ctb rq))
                   (required_of d rq bufimg) k f = true)
      by (apply (elig_at_iff d rq typeBits bufimg k f Hk); now split).
    congruence.
  - intros Hno. destruct (select d rq typeBits bufimg) as [j|] eqn:Hsel; [|reflexivity].
    apply select_some_spec in Hsel. destruct Hsel as [He _]. exfalso. now apply (Hno j).
Qed.

(* ------------------------------------------------------------------ findMemoryPreferences *)

Definition host_access (rq : request) : bool :=
  N.testbit rq.(r_flags) ACF_SEQ_WRITE_BIT || N.testbit rq.(r_flags) ACF_RANDOM_BIT.

(* the "transfer fallback" case: host-visibility is only preferred, not required *)
Definition transfer_fallback (d : device) (rq : request) (bufimg : option N) : bool :=
  negb d.(d_integrated) && device_access bufimg && N.testbit rq.(r_flags) ACF_ALLOW_TRANSFER_BIT
  && negb (rq.(r_usage) =? USAGE_AUTO_HOST).

Definition needs_host_visible (d : device) (rq : request) (bufimg : option N) : bool :=
  is_auto rq.(r_usage) && host_access rq && negb (transfer_fallback d rq bufimg).

(* the caller asked for an AMD device-coherent / device-uncached type *)
Definition asked_amd (rq : request) : bool :=
  negb (N.land (N.lor rq.(r_req) rq.(r_pref)) (N.lor DEVICE_COHERENT_AMD DEVICE_UNCACHED_AMD) =? 0).

Ltac prefs_cases :=
  repeat match goal with
         | |- context [if ?b then _ else _] => destruct b eqn:?
         end.

(* exact description of the required property set *)
Lemma required_of_eq d rq bufimg :
  required_of d rq bufimg =
  N.lor rq.(r_req)
        (if rq.(r_usage) =? USAGE_LAZY then LAZILY_ALLOCATED
         else if needs_host_visible d rq bufimg then HOST_VISIBLE else 0).
Proof.
  unfold required_of, prefs_of, find_prefs, needs_host_visible, host_access, transfer_fallback.
  destruct (r_usage rq =? USAGE_LAZY); [reflexivity|].
  destruct (is_auto (r_usage rq)); [|cbn [fst snd andb]; now rewrite N.lor_0_r].
  destruct (N.testbit (r_flags rq) ACF_RANDOM_BIT), (N.testbit (r_flags rq) ACF_SEQ_WRITE_BIT),
    (d_integrated d), (device_access bufimg), (N.testbit (r_flags rq) ACF_ALLOW_TRANSFER_BIT),
    (r_usage rq =? USAGE_AUTO_HOST), (r_usage rq =? USAGE_AUTO_DEVICE);
    cbn [fst snd andb orb negb]; rewrite ?N.lor_0_r; reflexivity.
Qed.

Lemma required_of_super d rq bufimg n :
  N.testbit rq.(r_req) n = true -> N.testbit (required_of d rq bufimg) n = true.
Proof. intros H. rewrite required_of_eq. now apply lor_bit_l. Qed.

(* preferences when there is no usage mode (or any mode that is neither automatic nor lazily-allocated) *)
Lemma prefs_not_auto d rq bufimg :
  is_auto rq.(r_usage) = false ->
  preferred_of d rq bufimg = rq.(r_pref) /\
  not_preferred_of d rq bufimg = if asked_amd rq then 0 else DEVICE_UNCACHED_AMD.
Proof.
  intros Hauto. unfold preferred_of, not_preferred_of, prefs_of, find_prefs, asked_amd. rewrite Hauto.
  destruct (r_usage rq =? USAGE_LAZY);
    destruct (N.land (N.lor (r_req rq) (r_pref rq)) (N.lor DEVICE_COHERENT_AMD DEVICE_UNCACHED_AMD) =? 0);
    cbn [fst snd negb]; split; reflexivity.
Qed.

(* preferences of the automatic modes without host access *)
Lemma prefs_auto_no_host d rq bufimg :
  is_auto rq.(r_usage) = true -> host_access rq = false ->
  required_of d rq bufimg = rq.(r_req) /\
  preferred_of d rq bufimg =
    (if rq.(r_usage) =? USAGE_AUTO_HOST then rq.(r_pref) else N.lor rq.(r_pref) DEVICE_LOCAL) /\
  not_preferred_of d rq bufimg =
    N.lor (if rq.(r_usage) =? USAGE_AUTO_HOST then DEVICE_LOCAL else 0)
          (if asked_amd rq then 0 else DEVICE_UNCACHED_AMD).
Proof.
  intros Hauto Hhost. unfold host_access in Hhost. apply orb_false_iff in Hhost. destruct Hhost as [Hs Hr].
  assert (Hlazy : r_usage rq =? USAGE_LAZY = false).
  { unfold is_auto in Hauto. apply N.eqb_neq. intros Heq. rewrite Heq in Hauto. discriminate. }
  unfold required_of, preferred_of, not_preferred_of, prefs_of, find_prefs, asked_amd.
  rewrite Hlazy, Hauto, Hs, Hr. cbn [andb].
  destruct (r_usage rq =? USAGE_AUTO_HOST);
    destruct (N.land (N.lor (r_req rq) (r_pref rq)) (N.lor DEVICE_COHERENT_AMD DEVICE_UNCACHED_AMD) =? 0);
    cbn [fst snd negb]; rewrite ?N.lor_0_r, ?N.lor_0_l; repeat split; reflexivity.
Qed.

(* ------------------------------------------------------------------ C19, selection part *)

(* The chosen type is permitted by the caller's masks and the device's mask. *)
Theorem chosen_permitted d rq typeBits bufimg j :
  select d rq typeBits bufimg = Some j ->
  exists f, type_flags d j = Some f /\
    N.testbit typeBits (N.of_nat j) = true /\
    (rq.(r_ctb) <> 0 -> N.testbit rq.(r_ctb) (N.of_nat j) = true) /\
    (N.testbit f 6 = true -> d.(d_amd) = true).
Proof.
  intros Hsel. apply select_some_spec in Hsel. destruct Hsel as [(f & Hk & Hp & _) _].
  exists f. split; [exact Hk|exact Hp].
Qed.

(* The chosen type has every required property: the caller's required flags, lazily-allocated for the
   lazily-allocated usage, and host-visible for an automatic usage mode combined with a host-access flag
   unless the transfer fallback applies (in particular whenever AllowTransferInstead is not given). *)
Theorem chosen_has_required d rq typeBits bufimg j :
  select d rq typeBits bufimg = Some j ->
  exists f, type_flags d j = Some f /\
    N.land (required_of d rq bufimg) f = required_of d rq bufimg /\
    N.land rq.(r_req) f = rq.(r_req) /\
    (rq.(r_usage) = USAGE_LAZY -> N.testbit f 4 = true) /\
    (needs_host_visible d rq bufimg = true -> N.testbit f 1 = true) /\
    (is_auto rq.(r_usage) = true -> host_access rq = true ->
     N.testbit rq.(r_flags) ACF_ALLOW_TRANSFER_BIT = false -> N.testbit f 1 = true).
Proof.
  intros Hsel. apply select_some_spec in Hsel. destruct Hsel as [(f & Hk & _ & Hr) _].
  assert (Hall : has_all f (required_of d rq bufimg) = true) by (unfold has_all; now apply N.eqb_eq).
  assert (Hhv : needs_host_visible d rq bufimg = true -> N.testbit f 1 = true).
  { intros Hn. apply (has_all_bit _ _ _ Hall). rewrite required_of_eq, Hn.
    destruct (r_usage rq =? USAGE_LAZY) eqn:Hl.
    - apply N.eqb_eq in Hl. unfold needs_host_visible in Hn. rewrite Hl in Hn. discriminate.
    - now apply lor_bit_r. }
  exists f. split; [exact Hk|]. split; [exact Hr|]. split; [|split; [|split]].
  - apply has_all_land. apply (has_all_sub f _ (required_of d rq bufimg)); [|exact Hall].
    intros n. apply required_of_super.
  - intros Hl. apply (has_all_bit _ _ _ Hall). rewrite required_of_eq, Hl. now apply lor_bit_r.
  - exact Hhv.
  - intros Hauto Hhost Hx. apply Hhv. unfold needs_host_visible, transfer_fallback.
    rewrite Hauto, Hhost, Hx. cbn [andb negb]. now rewrite andb_false_r.
Qed.

(* "feature not present" exactly when no permitted type has the required properties *)
Theorem none_iff_no_eligible d rq typeBits bufimg :
  select d rq typeBits bufimg = None <->
  forall k f, type_flags d k = Some f -> permitted d rq typeBits k f ->
              N.land (required_of d rq bufimg) f <> required_of d rq bufimg.
Proof.
  rewrite select_none_spec. split.
  - intros Hno k f Hk Hp Hr. apply (Hno k). now exists f.
  - intros Hno k (f & Hk & Hp & Hr). now apply (Hno k f).
Qed.

(* number of preferred properties a type misses; extra miss for device-uncached memory unless asked for *)
Definition misses (rq : request) (f : N) : nat := popcount (N.ldiff rq.(r_pref) f).
Definition uncached_penalty (rq : request) (f : N) : nat :=
  if asked_amd rq then 0%nat else b2n (N.testbit f 7).

Definition total_misses (rq : request) (f : N) : nat := (misses rq f + uncached_penalty rq f)%nat.

Lemma cost_not_auto d rq bufimg f :
  is_auto rq.(r_usage) = false ->
  cost (preferred_of d rq bufimg) (not_preferred_of d rq bufimg) f
  = total_misses rq f.
Proof.
  intros Hauto. destruct (prefs_not_auto d rq bufimg Hauto) as [-> ->].
  unfold total_misses, cost, misses, uncached_penalty. destruct (asked_amd rq).
  - now rewrite N.land_0_l.
  - now rewrite popcount_land_uncached.
Qed.

(* Without an automatic usage mode, among the eligible types none misses fewer preferred properties than
   the chosen one, and the chosen one has the lowest index among those that miss equally many. *)
Theorem not_auto_min_cost_lowest_index d rq typeBits bufimg j fj :
  is_auto rq.(r_usage) = false ->
  select d rq typeBits bufimg = Some j -> type_flags d j = Some fj ->
  forall k fk, type_flags d k = Some fk -> permitted d rq typeBits k fk ->
    N.land (required_of d rq bufimg) fk = required_of d rq bufimg ->
    (total_misses rq fj < total_misses rq fk)%nat \/
    (total_misses rq fj = total_misses rq fk /\ (j <= k)%nat).
Proof.
  intros Hauto Hsel Hj k fk Hk Hp Hr. apply select_some_spec in Hsel. destruct Hsel as [_ Hmin].
  assert (He : eligible_type d rq typeBits bufimg k) by (now exists fk).
  specialize (Hmin k He). unfold better_eq, cost_of in Hmin. rewrite Hj, Hk in Hmin.
  now rewrite !(cost_not_auto d rq bufimg _ Hauto) in Hmin.
Qed.

Theorem unknown_usage_min_cost_lowest_index d rq typeBits bufimg j fj :
  rq.(r_usage) = USAGE_UNKNOWN ->
  select d rq typeBits bufimg = Some j -> type_flags d j = Some fj ->
  forall k fk, type_flags d k = Some fk -> permitted d rq typeBits k fk ->
    N.land rq.(r_req) fk = rq.(r_req) ->
    (total_misses rq fj < total_misses rq fk)%nat \/
    (total_misses rq fj = total_misses rq fk /\ (j <= k)%nat).
Proof.
  intros Hu Hsel Hj k fk Hk Hp Hr.
  assert (Hauto : is_auto (r_usage rq) = false) by (now rewrite Hu).
  apply (not_auto_min_cost_lowest_index d rq typeBits bufimg j fj Hauto Hsel Hj k fk Hk Hp).
  rewrite required_of_eq, Hu. unfold needs_host_visible. rewrite Hu. cbn [N.eqb USAGE_UNKNOWN USAGE_LAZY is_auto andb].
  change (0 =? 1) with false. cbn match. rewrite N.lor_0_r. exact Hr.
Qed.

(* cost in the automatic modes without host access and without explicit preferences *)
Lemma cost_auto_device d rq bufimg f :
  is_auto rq.(r_usage) = true -> (rq.(r_usage) =? USAGE_AUTO_HOST) = false ->
  host_access rq = false -> rq.(r_pref) = 0 ->
  cost (preferred_of d rq bufimg) (not_preferred_of d rq bufimg) f
  = (b2n (negb (N.testbit f 0)) + uncached_penalty rq f)%nat.
Proof.
  intros Hauto Hnh Hhost Hpref.
  destruct (prefs_auto_no_host d rq bufimg Hauto Hhost) as (_ & -> & ->).
  rewrite Hnh, Hpref, !N.lor_0_l. unfold cost, uncached_penalty. rewrite popcount_ldiff_local.
  destruct (asked_amd rq).
  - now rewrite N.land_0_l.
  - now rewrite popcount_land_uncached.
Qed.

Lemma cost_auto_host d rq bufimg f :
  (rq.(r_usage) =? USAGE_AUTO_HOST) = true ->
  host_access rq = false -> rq.(r_pref) = 0 ->
  cost (preferred_of d rq bufimg) (not_preferred_of d rq bufimg) f
  = (b2n (N.testbit f 0) + uncached_penalty rq f)%nat.
Proof.
  intros Hh Hhost Hpref.
  assert (Hauto : is_auto (r_usage rq) = true) by (unfold is_auto; rewrite Hh; now rewrite orb_true_r).
  destruct (prefs_auto_no_host d rq bufimg Hauto Hhost) as (_ & -> & ->).
  rewrite Hh, Hpref. unfold cost, uncached_penalty. rewrite N.ldiff_0_l. cbn [popcount Nat.add].
  destruct (asked_amd rq).
  - rewrite N.lor_0_r. apply (eq_trans (popcount_land_local f)). lia.
  - now rewrite popcount_land_local_uncached.
Qed.

(* With an automatic (not host-preferring) usage mode, no host access and no explicit preferences, a
   device-local type is chosen whenever an eligible device-local type exists that is not device-uncached
   (or device-uncached/-coherent memory was asked for).  The chosen type is then not a penalised
   device-uncached type either. *)
Theorem auto_prefers_device_local d rq typeBits bufimg j fj :
  rq.(r_usage) = USAGE_AUTO \/ rq.(r_usage) = USAGE_AUTO_DEVICE ->
  host_access rq = false -> rq.(r_pref) = 0 ->
  select d rq typeBits bufimg = Some j -> type_flags d j = Some fj ->
  (exists k fk, type_flags d k = Some fk /\ permitted d rq typeBits k fk /\
                N.land rq.(r_req) fk = rq.(r_req) /\
                N.testbit fk 0 = true /\ (N.testbit fk 7 = true -> asked_amd rq = true)) ->
  N.testbit fj 0 = true /\ (N.testbit fj 7 = true -> asked_amd rq = true).
Proof.
  intros Hu Hhost Hpref Hsel Hj (k & fk & Hk & Hp & Hr & Hdl & Hunc).
  assert (Hauto : is_auto (r_usage rq) = true) by (destruct Hu as [-> | ->]; reflexivity).
  assert (Hnh : (r_usage rq =? USAGE_AUTO_HOST) = false) by (destruct Hu as [-> | ->]; reflexivity).
  apply select_some_spec in Hsel. destruct Hsel as [_ Hmin].
  assert (He : eligible_type d rq typeBits bufimg k).
  { exists fk. repeat split; try assumption; try apply Hp.
    destruct (prefs_auto_no_host d rq bufimg Hauto Hhost) as (-> & _ & _). exact Hr. }
  specialize (Hmin k He). unfold better_eq, cost_of in Hmin. rewrite Hj, Hk in Hmin.
  rewrite !(cost_auto_device d rq bufimg _ Hauto Hnh Hhost Hpref) in Hmin.
  rewrite Hdl in Hmin. unfold uncached_penalty in *. cbn [negb b2n] in Hmin.
  destruct (asked_amd rq).
  - destruct (N.testbit fj 0); cbn [negb b2n] in Hmin; [split; [reflexivity|intros _; reflexivity]|lia].
  - destruct (N.testbit fk 7); [now specialize (Hunc eq_refl)|].
    destruct (N.testbit fj 0), (N.testbit fj 7); cbn [negb b2n] in Hmin;
      first [lia | split; [reflexivity|intros Hf; discriminate]].
Qed.

(* Dual for the host-preferring automatic mode: a non-device-local type is chosen whenever an eligible one
   exists that is not device-uncached (or that memory was asked for). *)
Theorem auto_host_prefers_non_device_local d rq typeBits bufimg j fj :
  rq.(r_usage) = USAGE_AUTO_HOST ->
  host_access rq = false -> rq.(r_pref) = 0 ->
  select d rq typeBits bufimg = Some j -> type_flags d j = Some fj ->
  (exists k fk, type_flags d k = Some fk /\ permitted d rq typeBits k fk /\
                N.land rq.(r_req) fk = rq.(r_req) /\
                N.testbit fk 0 = false /\ (N.testbit fk 7 = true -> asked_amd rq = true)) ->
  N.testbit fj 0 = false /\ (N.testbit fj 7 = true -> asked_amd rq = true).
Proof.
  intros Hu Hhost Hpref Hsel Hj (k & fk & Hk & Hp & Hr & Hdl & Hunc).
  assert (Hh : (r_usage rq =? USAGE_AUTO_HOST) = true) by (now rewrite Hu).
  assert (Hauto : is_auto (r_usage rq) = true) by (now rewrite Hu).
  apply select_some_spec in Hsel. destruct Hsel as [_ Hmin].
  assert (He : eligible_type d rq typeBits bufimg k).
  { exists fk. repeat split; try assumption; try apply Hp.
    destruct (prefs_auto_no_host d rq bufimg Hauto Hhost) as (-> & _ & _). exact Hr. }
  specialize (Hmin k He). unfold better_eq, cost_of in Hmin. rewrite Hj, Hk in Hmin.
  rewrite !(cost_auto_host d rq bufimg _ Hh Hhost Hpref) in Hmin.
  rewrite Hdl in Hmin. unfold uncached_penalty in *. cbn [b2n] in Hmin.
  destruct (asked_amd rq).
  - destruct (N.testbit fj 0); cbn [b2n] in Hmin; [lia|split; [reflexivity|intros _; reflexivity]].
  - destruct (N.testbit fk 7); [now specialize (Hunc eq_refl)|].
    destruct (N.testbit fj 0), (N.testbit fj 7); cbn [b2n] in Hmin;
      first [lia | split; [reflexivity|intros Hf; discriminate]].
Qed.

(* ------------------------------------------------------------------ the fallback loop *)

(* an attempt result after which the loop goes on to the next type *)
Definition retryable (z : Z) : Prop := z <> 0%Z /\ z <> VK_UNKNOWN.

(* number of indices below n whose bit is set *)
Definition cnt (bits : N) (n : nat) : nat :=
  length (filter (fun i => N.testbit bits (N.of_nat i)) (seq 0 n)).

Lemma cnt_S bits n :
  cnt bits (S n) = (cnt bits n + b2n (N.testbit bits (N.of_nat n)))%nat.
Proof.
  unfold cnt. rewrite seq_S, filter_app, app_length. cbn [Nat.add filter].
  destruct (N.testbit bits (N.of_nat n)); reflexivity.
Qed.

Lemma clearbit_spec bits idx k :
  N.testbit (N.clearbit bits (N.of_nat idx)) (N.of_nat k)
  = N.testbit bits (N.of_nat k) && negb (Nat.eqb idx k).
Proof.
  rewrite N.clearbit_eqb. f_equal. f_equal.
  destruct (Nat.eqb_spec idx k) as [->|Hne].
  - apply N.eqb_refl.
  - apply N.eqb_neq. lia.
Qed.

Lemma cnt_clearbit_le bits idx n : (cnt (N.clearbit bits (N.of_nat idx)) n <= cnt bits n)%nat.
Proof.
  induction n as [|n IH]; [reflexivity|]. rewrite !cnt_S, clearbit_spec.
  destruct (N.testbit bits (N.of_nat n)), (Nat.eqb idx n); cbn [andb negb b2n]; lia.
Qed.

Lemma cnt_clearbit_lt bits idx n :
  (idx < n)%nat -> N.testbit bits (N.of_nat idx) = true ->
  (cnt (N.clearbit bits (N.of_nat idx)) n < cnt bits n)%nat.
Proof.
  induction n as [|n IH]; intros Hlt Hbit; [lia|]. rewrite !cnt_S, clearbit_spec.
  destruct (Nat.eqb_spec idx n) as [->|Hne].
  - rewrite Hbit. cbn [andb negb b2n]. pose proof (cnt_clearbit_le bits n n). lia.
  - assert (Hlt' : (idx < n)%nat) by lia. specialize (IH Hlt' Hbit).
    rewrite andb_true_r. lia.
Qed.

Section Fallback.
  Variable n : nat.                    (* number of memory types *)
  Variable sel : N -> option nat.      (* findMemoryTypeIndex as a function of the requirement's type bits *)
  Variable E : N -> nat -> Prop.       (* eligibility under given type bits *)
  Variable c : nat -> nat.             (* cost of a type *)
  Variable attempt : nat -> Z.

  Let beq (j k : nat) : Prop := (c j < c k)%nat \/ (c j = c k /\ (j <= k)%nat).
  Let blt (j k : nat) : Prop := (c j < c k)%nat \/ (c j = c k /\ (j < k)%nat).

  Hypothesis sel_some : forall bits j, sel bits = Some j -> E bits j /\ forall k, E bits k -> beq j k.
  Hypothesis sel_none : forall bits, sel bits = None -> forall k, ~ E bits k.
  Hypothesis E_clear : forall bits idx k, E (N.clearbit bits (N.of_nat idx)) k <-> E bits k /\ k <> idx.
  Hypothesis E_dom : forall bits k, E bits k -> (k < n)%nat /\ N.testbit bits (N.of_nat k) = true.

  Lemma fallback_loop_spec : forall fuel bits idx t r,
    E bits idx -> (forall k, E bits k -> beq idx k) -> (cnt bits n < fuel)%nat ->
    fallback_loop fuel sel attempt bits idx = (t, r) ->
    r <> RFuel /\
    (forall k, In k t -> E bits k) /\
    StronglySorted blt t /\
    (forall j, r = ROk j ->
       exists pre, t = pre ++ [j] /\ attempt j = 0%Z /\ forall k, In k pre -> retryable (attempt k)) /\
    (forall code, r = RErr code ->
       exists pre l, t = pre ++ [l] /\ attempt l = code /\ code <> 0%Z /\
         (forall k, In k pre -> retryable (attempt k)) /\
         (code <> VK_UNKNOWN -> forall k, E bits k -> In k t)).
  Proof.
    induction fuel as [|fuel IH]; intros bits idx t r He Hmin Hfuel Hrun; [lia|].
    cbn [fallback_loop] in Hrun.
    assert (Hsingle : forall k, In k [idx] -> E bits k).
    { intros k0 [<-|[]]. exact He. }
    assert (Hsorted1 : StronglySorted blt [idx]) by (constructor; constructor).
    destruct (Z.eqb_spec (attempt idx) 0) as [Hz|Hnz].
    { injection Hrun as <- <-. split; [discriminate|]. split; [exact Hsingle|]. split; [exact Hsorted1|].
      split.
      - intros j Hj. injection Hj as <-. exists []. split; [reflexivity|]. split; [exact Hz|]. intros k0 [].
      - intros code Hc. discriminate. }
    destruct (Z.eqb_spec (attempt idx) VK_UNKNOWN) as [Hu|Hnu].
    { injection Hrun as <- <-. split; [discriminate|]. split; [exact Hsingle|]. split; [exact Hsorted1|].
      split.
      - intros j Hj. discriminate.
      - intros code Hc. injection Hc as <-. exists [], idx.
        split; [reflexivity|]. split; [reflexivity|]. split; [exact Hnz|]. split.
        + intros k0 [].
        + intros Hne. contradiction. }
    destruct (sel (N.clearbit bits (N.of_nat idx))) as [idx'|] eqn:Hsel.
    - destruct (fallback_loop fuel sel attempt (N.clearbit bits (N.of_nat idx)) idx') as [t0 r0] eqn:Hrec.
      injection Hrun as <- <-.
      destruct (sel_some _ _ Hsel) as [He' Hmin'].
      destruct (E_dom _ _ He) as [Hlt Hbit].
      pose proof (cnt_clearbit_lt bits idx n Hlt Hbit) as Hcnt.
      assert (Hfuel' : (cnt (N.clearbit bits (N.of_nat idx)) n < fuel)%nat) by lia.
      destruct (IH _ _ _ _ He' Hmin' Hfuel' Hrec) as (Hnf & Hin & Hsort & Hok & Herr).
      split; [exact Hnf|]. split; [|split; [|split]].
      + intros k [<-|Hk]; [exact He|]. apply Hin in Hk. now apply E_clear in Hk.
      + constructor; [exact Hsort|]. apply Forall_forall. intros k Hk. apply Hin in Hk.
        apply E_clear in Hk. destruct Hk as [Hk Hne]. specialize (Hmin k Hk).
        unfold beq in Hmin. unfold blt. lia.
      + intros j Hj. destruct (Hok j Hj) as (pre & -> & Ha & Hpre).
        exists (idx :: pre). split; [reflexivity|]. split; [exact Ha|].
        intros k0 [<-|Hk]; [now split|now apply Hpre].
      + intros code Hc. destruct (Herr code Hc) as (pre & l & -> & Ha & Hc0 & Hpre & Hall).
        exists (idx :: pre), l. split; [reflexivity|]. split; [exact Ha|]. split; [exact Hc0|]. split.
        * intros k0 [<-|Hk]; [now split|now apply Hpre].
        * intros Hne k Hk. destruct (Nat.eq_dec k idx) as [->|Hki]; [now left|].
          right. apply (Hall Hne). apply E_clear. now split.
    - injection Hrun as <- <-. split; [discriminate|]. split; [exact Hsingle|]. split; [exact Hsorted1|].
      split.
      + intros j Hj. discriminate.
      + intros code Hc. injection Hc as <-. exists [], idx.
        split; [reflexivity|]. split; [reflexivity|]. split; [exact Hnz|]. split.
        * intros k0 [].
        * intros _ k Hk. destruct (Nat.eq_dec k idx) as [->|Hki]; [now left|].
          exfalso. apply (sel_none _ Hsel k). apply E_clear. now split.
  Qed.

  Lemma cnt_le_n bits : (cnt bits n <= n)%nat.
  Proof.
    clear. induction n as [|m IH]; [reflexivity|]. rewrite cnt_S.
    destruct (N.testbit bits (N.of_nat m)); cbn [b2n]; lia.
  Qed.

  Lemma allocate_with_spec bits t r :
    allocate_with n sel attempt bits = (t, r) ->
    r <> RFuel /\
    (forall k, In k t -> E bits k) /\
    StronglySorted blt t /\
    (forall j, r = ROk j ->
       exists pre, t = pre ++ [j] /\ attempt j = 0%Z /\ forall k, In k pre -> retryable (attempt k)) /\
    (forall code, r = RErr code ->
       (t = [] /\ code = VK_FEATURE_NOT_PRESENT /\ forall k, ~ E bits k) \/
       (exists pre l, t = pre ++ [l] /\ attempt l = code /\ code <> 0%Z /\
          (forall k, In k pre -> retryable (attempt k)) /\
          (code <> VK_UNKNOWN -> forall k, E bits k -> In k t))).
  Proof.
    unfold allocate_with. destruct (sel bits) as [idx|] eqn:Hsel.
    - intros Hrun. destruct (sel_some _ _ Hsel) as [He Hmin].
      pose proof (cnt_le_n bits) as Hc.
      assert (Hfuel : (cnt bits n < S n)%nat) by lia.
      destruct (fallback_loop_spec _ _ _ _ _ He Hmin Hfuel Hrun) as (Hnf & Hin & Hsort & Hok & Herr).
      repeat split; try assumption. intros code Hcd. right. now apply Herr.
    - intros Hrun. injection Hrun as <- <-. split; [discriminate|]. split; [intros k []|].
      split; [constructor|]. split.
      + intros j Hj. discriminate.
      + intros code Hcd. injection Hcd as <-. left. repeat split. now apply sel_none.
  Qed.
End Fallback.

Lemma eligible_clearbit d rq bits bufimg idx k :
  eligible_type d rq (N.clearbit bits (N.of_nat idx)) bufimg k
  <-> eligible_type d rq bits bufimg k /\ k <> idx.
Proof.
  unfold eligible_type, permitted. rewrite clearbit_spec. split.
  - intros (f & Hk & (Hb & Hc & Hg) & Hr). apply andb_true_iff in Hb. destruct Hb as [Hb Hne].
    apply negb_true_iff, Nat.eqb_neq in Hne. split; [|congruence]. exists f. repeat split; assumption.
  - intros [(f & Hk & (Hb & Hc & Hg) & Hr) Hne]. exists f. repeat split; try assumption.
    rewrite Hb. cbn [andb]. apply negb_true_iff, Nat.eqb_neq. congruence.
Qed.

Lemma eligible_dom d rq bits bufimg k :
  eligible_type d rq bits bufimg k ->
  (k < length d.(d_types))%nat /\ N.testbit bits (N.of_nat k) = true.
Proof.
  intros (f & Hk & (Hb & _) & _). split; [|exact Hb].
  apply nth_error_Some. unfold type_flags in Hk. congruence.
Qed.

(* When allocation in the chosen type fails, the remaining eligible types are tried before the request
   fails.  t = memory types in which an allocation was attempted, in order; r = final result.
   - the loop terminates (never RFuel);
   - only eligible types are tried;
   - they are tried in strictly increasing (cost, index) order: non-decreasing cost, each type at most once;
   - success in type j: j is the last type tried and every earlier attempt failed with a retryable error;
   - failure with code c: either nothing was tried, c = FeatureNotPresent and no type is eligible, or c is
     the result of the last attempt, all earlier attempts failed with retryable errors and, unless c is
     VK_ERROR_UNKNOWN (which aborts the loop), EVERY eligible type was tried. *)
Theorem fallback_tries_all_eligible d rq typeBits bufimg attempt t r :
  params_invalid rq.(r_usage) rq.(r_flags) = false ->
  allocate d rq typeBits bufimg attempt = (t, r) ->
  r <> RFuel /\
  (forall k, In k t -> eligible_type d rq typeBits bufimg k) /\
  StronglySorted (better d rq bufimg) t /\
  (forall j, r = ROk j ->
     exists pre, t = pre ++ [j] /\ attempt j = 0%Z /\ forall k, In k pre -> retryable (attempt k)) /\
  (forall code, r = RErr code ->
     (t = [] /\ code = VK_FEATURE_NOT_PRESENT /\ forall k, ~ eligible_type d rq typeBits bufimg k) \/
     (exists pre l, t = pre ++ [l] /\ attempt l = code /\ code <> 0%Z /\
        (forall k, In k pre -> retryable (attempt k)) /\
        (code <> VK_UNKNOWN -> forall k, eligible_type d rq typeBits bufimg k -> In k t))).
Proof.
  intros Hvalid. unfold allocate. rewrite Hvalid.
  apply (allocate_with_spec (length d.(d_types)) (fun bits => select d rq bits bufimg)
           (fun bits k => eligible_type d rq bits bufimg k) (cost_of d rq bufimg) attempt).
  - intros bits j Hsel. now apply select_some_spec.
  - intros bits Hsel. now apply select_none_spec.
  - intros bits idx k. apply eligible_clearbit.
  - intros bits k. apply eligible_dom.
Qed.

Lemma better_irrefl d rq bufimg k : ~ better d rq bufimg k k.
Proof. unfold better. lia. Qed.

Lemma sorted_better_nodup d rq bufimg t : StronglySorted (better d rq bufimg) t -> NoDup t.
Proof.
  induction 1 as [|a l Hs IH Hall]; constructor; [|exact IH].
  intros Hin. rewrite Forall_forall in Hall. apply (better_irrefl d rq bufimg a). now apply Hall.
Qed.

Lemma sorted_better_cost d rq bufimg t :
  StronglySorted (better d rq bufimg) t ->
  StronglySorted (fun a b => (cost_of d rq bufimg a <= cost_of d rq bufimg b)%nat) t.
Proof.
  induction 1 as [|a l Hs IH Hall]; constructor; [exact IH|].
  eapply Forall_impl; [|exact Hall]. intros b Hb. unfold better in Hb. lia.
Qed.

(* each type is tried at most once, in non-decreasing cost order *)
Corollary fallback_order d rq typeBits bufimg attempt t r :
  params_invalid rq.(r_usage) rq.(r_flags) = false ->
  allocate d rq typeBits bufimg attempt = (t, r) ->
  NoDup t /\ StronglySorted (fun a b => (cost_of d rq bufimg a <= cost_of d rq bufimg b)%nat) t.
Proof.
  intros Hv Hrun. destruct (fallback_tries_all_eligible _ _ _ _ _ _ _ Hv Hrun) as (_ & _ & Hs & _).
  split; [now apply (sorted_better_nodup d rq bufimg)|now apply sorted_better_cost].
Qed.

(* the request fails for lack of memory only after every eligible type was tried (and failed) *)
Corollary oom_only_after_all_tried d rq typeBits bufimg attempt t :
  params_invalid rq.(r_usage) rq.(r_flags) = false ->
  allocate d rq typeBits bufimg attempt = (t, RErr VK_OOM) ->
  forall k, eligible_type d rq typeBits bufimg k -> In k t /\ attempt k <> 0%Z.
Proof.
  intros Hv Hrun k Hk.
  destruct (fallback_tries_all_eligible _ _ _ _ _ _ _ Hv Hrun) as (_ & _ & _ & _ & Herr).
  destruct (Herr VK_OOM eq_refl) as [(_ & Hc & _)|(pre & l & -> & Ha & Hc0 & Hpre & Hall)];
    [discriminate|].
  assert (Hin : In k (pre ++ [l])) by (apply Hall; [discriminate|exact Hk]).
  split; [exact Hin|]. apply in_app_or in Hin. destruct Hin as [Hin|[<-|[]]].
  - now apply Hpre.
  - now rewrite Ha.
Qed.

(* invalid flag combinations are rejected before any type is tried *)
Lemma allocate_invalid d rq typeBits bufimg attempt :
  params_invalid rq.(r_usage) rq.(r_flags) = true ->
  allocate d rq typeBits bufimg attempt = ([], RErr VK_UNKNOWN).
Proof. intros H. unfold allocate. now rewrite H. Qed.
