(* SelectProofs.v — theorems about the memory type selection model (Select.v), property C19.
   Everything is proved for every memory-type table (list of any length), every mask and every request, by
   induction over the table; nothing is proved by enumeration of tables. *)
From Coq Require Import NArith ZArith List Bool Lia Sorted.
From Coq Require Import ZifyBool ZifyN.
From Arsenal Require Import Select.
Import ListNotations.
Local Open Scope N_scope.

(* ------------------------------------------------------------------ bit-level facts *)

Lemma has_all_bit f req n :
  has_all f req = true -> N.testbit req n = true -> N.testbit f n = true.
Proof.
  unfold has_all. intros Hall Hreq. apply N.eqb_eq in Hall.
  assert (Hb : N.testbit (N.land req f) n = N.testbit req n) by now rewrite Hall.
  rewrite N.land_spec, Hreq in Hb. exact Hb.
Qed.

Lemma has_all_sub f req req' :
  (forall n, N.testbit req n = true -> N.testbit req' n = true) ->
  has_all f req' = true -> has_all f req = true.
Proof.
  intros Hsub Hall. unfold has_all. apply N.eqb_eq. apply N.bits_inj. intros n.
  rewrite N.land_spec. destruct (N.testbit req n) eqn:Hr; [|reflexivity].
  cbn [andb]. apply (has_all_bit _ _ _ Hall). now apply Hsub.
Qed.

Lemma has_all_land f req : has_all f req = true -> N.land req f = req.
Proof. unfold has_all. intros H. now apply N.eqb_eq in H. Qed.

Lemma lor_bit_l a b n : N.testbit a n = true -> N.testbit (N.lor a b) n = true.
Proof. intros H. now rewrite N.lor_spec, H. Qed.

Lemma lor_bit_r a b n : N.testbit b n = true -> N.testbit (N.lor a b) n = true.
Proof. intros H. rewrite N.lor_spec, H. apply orb_true_r. Qed.

Lemma pos_popcount_pos p : (0 < pos_popcount p)%nat.
Proof. induction p as [q IH|q IH|]; cbn [pos_popcount]; lia. Qed.

Lemma popcount_zero n : popcount n = 0%nat <-> n = 0.
Proof.
  destruct n as [|p]; cbn [popcount]; split; intros H; try reflexivity; try discriminate.
  pose proof (pos_popcount_pos p). lia.
Qed.

Lemma land_pow2 k f : N.land (2 ^ k) f = if N.testbit f k then 2 ^ k else 0.
Proof.
  apply N.bits_inj. intros n. rewrite N.land_spec, N.pow2_bits_eqb.
  destruct (N.eqb_spec k n) as [->|Hne].
  - destruct (N.testbit f n) eqn:Hf; cbn [andb].
    + now rewrite N.pow2_bits_true.
    + now rewrite N.bits_0.
  - cbn [andb]. destruct (N.testbit f k).
    + symmetry. now apply N.pow2_bits_false.
    + now rewrite N.bits_0.
Qed.

Lemma ldiff_pow2 k f : N.ldiff (2 ^ k) f = if N.testbit f k then 0 else 2 ^ k.
Proof.
  apply N.bits_inj. intros n. rewrite N.ldiff_spec, N.pow2_bits_eqb.
  destruct (N.eqb_spec k n) as [->|Hne].
  - destruct (N.testbit f n) eqn:Hf; cbn [andb negb].
    + now rewrite N.bits_0.
    + now rewrite N.pow2_bits_true.
  - cbn [andb]. destruct (N.testbit f k).
    + now rewrite N.bits_0.
    + symmetry. now apply N.pow2_bits_false.
Qed.

Definition b2n (b : bool) : nat := if b then 1%nat else 0%nat.

Lemma popcount_land_uncached f : popcount (N.land DEVICE_UNCACHED_AMD f) = b2n (N.testbit f 7).
Proof.
  change DEVICE_UNCACHED_AMD with (2 ^ 7). rewrite land_pow2. now destruct (N.testbit f 7).
Qed.

Lemma popcount_land_local f : popcount (N.land DEVICE_LOCAL f) = b2n (N.testbit f 0).
Proof.
  change DEVICE_LOCAL with (2 ^ 0). rewrite land_pow2. now destruct (N.testbit f 0).
Qed.

Lemma popcount_land_local_uncached f :
  popcount (N.land (N.lor DEVICE_LOCAL DEVICE_UNCACHED_AMD) f)
  = (b2n (N.testbit f 0) + b2n (N.testbit f 7))%nat.
Proof.
  rewrite N.land_lor_distr_l.
  change DEVICE_LOCAL with (2 ^ 0). change DEVICE_UNCACHED_AMD with (2 ^ 7).
  rewrite !land_pow2. now destruct (N.testbit f 0), (N.testbit f 7).
Qed.

Lemma popcount_ldiff_local f : popcount (N.ldiff DEVICE_LOCAL f) = b2n (negb (N.testbit f 0)).
Proof.
  change DEVICE_LOCAL with (2 ^ 0). rewrite ldiff_pow2. now destruct (N.testbit f 0).
Qed.

(* ------------------------------------------------------------------ the selection loop *)

Section Loop.
  Variables mask req pref npref : N.

  Definition elig_at (i : nat) (f : N) : bool := N.testbit mask (N.of_nat i) && has_all f req.
  Definition cst (f : N) : nat := cost pref npref f.

  Lemma find_loop_cons f ts i best :
    find_loop mask req pref npref (f :: ts) i best =
    if negb (elig_at i f) then find_loop mask req pref npref ts (S i) best
    else if Nat.eqb (cst f) 0 then Some i
    else match best with
         | Some (_, mc) =>
             if Nat.ltb (cst f) mc then find_loop mask req pref npref ts (S i) (Some (i, cst f))
             else find_loop mask req pref npref ts (S i) best
         | None => find_loop mask req pref npref ts (S i) (Some (i, cst f))
         end.
  Proof.
    cbn [find_loop]. unfold elig_at, cst.
    destruct (N.testbit mask (N.of_nat i)); cbn [negb andb]; [|reflexivity].
    destruct (has_all f req); cbn [negb]; reflexivity.
  Qed.

  (* None is returned only when nothing was remembered and nothing is eligible *)
  Lemma find_loop_none ts : forall i best,
    find_loop mask req pref npref ts i best = None ->
    best = None /\ forall k f, nth_error ts k = Some f -> elig_at (i + k) f = false.
  Proof.
    induction ts as [|f ts IH]; intros i best Hres.
    - cbn [find_loop] in Hres. destruct best as [[b c]|]; [discriminate|].
      split; [reflexivity|]. intros [|k] g Hk; discriminate.
    - rewrite find_loop_cons in Hres.
      destruct (elig_at i f) eqn:He; cbn [negb] in Hres.
      + destruct (Nat.eqb (cst f) 0); [discriminate|].
        destruct best as [[b mc]|].
        * destruct (Nat.ltb (cst f) mc); apply IH in Hres; destruct Hres as [Hb _]; discriminate.
        * apply IH in Hres. destruct Hres as [Hb _]. discriminate.
      + apply IH in Hres. destruct Hres as [Hb Hno]. split; [exact Hb|].
        intros [|k] g Hk.
        * cbn [nth_error] in Hk. injection Hk as <-. now rewrite Nat.add_0_r.
        * cbn [nth_error] in Hk. replace (i + S k)%nat with (S i + k)%nat by lia. now apply Hno.
  Qed.

  (* The index returned is either the remembered one, not beaten (strictly) by any eligible type of the
     rest of the table, or an eligible type of the rest of the table that strictly beats the remembered one
     (or costs nothing), has minimal cost in the rest and the lowest index among those of minimal cost. *)
  Lemma find_loop_some ts : forall i best j,
    find_loop mask req pref npref ts i best = Some j ->
    (exists c, best = Some (j, c) /\
       forall k f, nth_error ts k = Some f -> elig_at (i + k) f = true -> (c <= cst f)%nat)
    \/
    (exists k f, j = (i + k)%nat /\ nth_error ts k = Some f /\ elig_at (i + k) f = true /\
       (forall b c, best = Some (b, c) -> (cst f < c)%nat \/ cst f = 0%nat) /\
       forall k' f', nth_error ts k' = Some f' -> elig_at (i + k') f' = true ->
         (cst f < cst f')%nat \/ (cst f = cst f' /\ (k <= k')%nat)).
  Proof.
    induction ts as [|f ts IH]; intros i best j Hres.
    - cbn [find_loop] in Hres. destruct best as [[b c]|]; [|discriminate].
      injection Hres as ->. left. exists c. split; [reflexivity|].
      intros [|k] g Hk; discriminate.
    - rewrite find_loop_cons in Hres.
      destruct (elig_at i f) eqn:He; cbn [negb] in Hres.
      + destruct (Nat.eqb (cst f) 0) eqn:Hz.
        * (* early return on zero cost *)
          apply Nat.eqb_eq in Hz. injection Hres as <-.
          right. exists 0%nat, f. rewrite Nat.add_0_r.
          repeat split; try assumption; try reflexivity.
          -- intros b c _. now right.
          -- intros k' f' _ _. lia.
        * apply Nat.eqb_neq in Hz.
          assert (Hstep : forall best',
            (best' = Some (i, cst f) /\ (forall b c, best = Some (b, c) -> (cst f < c)%nat))
            \/ (exists b0 mc, best = Some (b0, mc) /\ best' = best /\ (mc <= cst f)%nat) ->
            find_loop mask req pref npref ts (S i) best' = Some j ->
            (exists c, best = Some (j, c) /\
               forall k g, nth_error (f :: ts) k = Some g -> elig_at (i + k) g = true -> (c <= cst g)%nat)
            \/
            (exists k g, j = (i + k)%nat /\ nth_error (f :: ts) k = Some g /\ elig_at (i + k) g = true /\
               (forall b c, best = Some (b, c) -> (cst g < c)%nat \/ cst g = 0%nat) /\
               forall k' g', nth_error (f :: ts) k' = Some g' -> elig_at (i + k') g' = true ->
                 (cst g < cst g')%nat \/ (cst g = cst g' /\ (k <= k')%nat))).
          { intros best' Hbest' Hrec. apply IH in Hrec.
            destruct Hbest' as [[-> Hlt]|(b0 & mc & Hbest & -> & Hge)].
            - (* the head became the remembered type *)
              destruct Hrec as [(c & Hc & Hrest)|(k & g & -> & Hk & Hek & Hb & Hmin)].
              + injection Hc as <- <-. right. exists 0%nat, f. rewrite Nat.add_0_r.
                repeat split; try assumption; try reflexivity.
                * intros b c Hbc. left. now apply (Hlt b c).
                * intros [|k'] g' Hk' Hek'.
                  -- cbn [nth_error] in Hk'. injection Hk' as <-. lia.
                  -- cbn [nth_error] in Hk'. replace (i + S k')%nat with (S i + k')%nat in Hek' by lia.
                     specialize (Hrest _ _ Hk' Hek'). lia.
              + right. exists (S k), g. replace (i + S k)%nat with (S i + k)%nat by lia.
                repeat split; try assumption; try reflexivity.
                * intros b c Hbc. specialize (Hlt _ _ Hbc).
                  destruct (Hb _ _ eq_refl) as [Hl|Hl]; [left; lia|now right].
                * intros [|k'] g' Hk' Hek'.
                  -- cbn [nth_error] in Hk'. injection Hk' as <-.
                     destruct (Hb _ _ eq_refl) as [Hl|Hl]; left; lia.
                  -- cbn [nth_error] in Hk'. replace (i + S k')%nat with (S i + k')%nat in Hek' by lia.
                     specialize (Hmin _ _ Hk' Hek'). lia.
            - (* the remembered type was kept *)
              destruct Hrec as [(c & Hc & Hrest)|(k & g & -> & Hk & Hek & Hb & Hmin)].
              + left. exists c. split; [exact Hc|].
                intros [|k'] g' Hk' Hek'.
                * cbn [nth_error] in Hk'. injection Hk' as <-. rewrite Hbest in Hc. injection Hc as <- <-. lia.
                * cbn [nth_error] in Hk'. replace (i + S k')%nat with (S i + k')%nat in Hek' by lia.
                  now apply (Hrest _ _ Hk').
              + right. exists (S k), g. replace (i + S k)%nat with (S i + k)%nat by lia.
                repeat split; try assumption; try reflexivity.
                intros [|k'] g' Hk' Hek'.
                * cbn [nth_error] in Hk'. injection Hk' as <-.
                  destruct (Hb _ _ Hbest) as [Hl|Hl]; left; lia.
                * cbn [nth_error] in Hk'. replace (i + S k')%nat with (S i + k')%nat in Hek' by lia.
                  specialize (Hmin _ _ Hk' Hek'). lia. }
          destruct best as [[b mc]|].
          -- destruct (Nat.ltb (cst f) mc) eqn:Hlt.
             ++ apply Nat.ltb_lt in Hlt. apply (Hstep (Some (i, cst f))); [|exact Hres].
                left. split; [reflexivity|]. intros b' c' Hbc. injection Hbc as <- <-. exact Hlt.
             ++ apply Nat.ltb_ge in Hlt. apply (Hstep (Some (b, mc))); [|exact Hres].
                right. exists b, mc. repeat split. exact Hlt.
          -- apply (Hstep (Some (i, cst f))); [|exact Hres].
             left. split; [reflexivity|]. intros b' c' Hbc. discriminate.
      + (* head not eligible *)
        apply IH in Hres.
        destruct Hres as [(c & Hc & Hrest)|(k & g & -> & Hk & Hek & Hb & Hmin)].
        * left. exists c. split; [exact Hc|].
          intros [|k'] g' Hk' Hek'.
          -- cbn [nth_error] in Hk'. injection Hk' as <-. rewrite Nat.add_0_r in Hek'. congruence.
          -- cbn [nth_error] in Hk'. replace (i + S k')%nat with (S i + k')%nat in Hek' by lia.
             now apply (Hrest _ _ Hk').
        * right. exists (S k), g. replace (i + S k)%nat with (S i + k)%nat by lia.
          repeat split; try assumption; try reflexivity.
          intros [|k'] g' Hk' Hek'.
          -- cbn [nth_error] in Hk'. injection Hk' as <-. rewrite Nat.add_0_r in Hek'. congruence.
          -- cbn [nth_error] in Hk'. replace (i + S k')%nat with (S i + k')%nat in Hek' by lia.
             specialize (Hmin _ _ Hk' Hek'). lia.
  Qed.
End Loop.

(* ------------------------------------------------------------------ masks *)

Lemma global_bits_from_spec amd ts : forall i k,
  N.testbit (global_bits_from amd ts i) (N.of_nat k) =
  (i <=? k)%nat && match nth_error ts (k - i) with
                   | Some f => amd || negb (N.testbit f 6)
                   | None => false
                   end.
Proof.
  induction ts as [|f ts IH]; intros i k.
  - cbn [global_bits_from]. rewrite N.bits_0.
    destruct (k - i)%nat; cbn [nth_error]; now rewrite andb_false_r.
  - cbn [global_bits_from].
    assert (Hrest : (i < k)%nat ->
      N.testbit (global_bits_from amd ts (S i)) (N.of_nat k) =
      (i <=? k)%nat && match nth_error (f :: ts) (k - i) with
                       | Some f => amd || negb (N.testbit f 6)
                       | None => false
                       end).
    { intros Hlt. rewrite IH. replace (k - i)%nat with (S (k - S i)) by lia. cbn [nth_error].
      replace (S i <=? k)%nat with true by (symmetry; apply Nat.leb_le; lia).
      replace (i <=? k)%nat with true by (symmetry; apply Nat.leb_le; lia). reflexivity. }
    assert (Hbelow : (k < i)%nat ->
      N.testbit (global_bits_from amd ts (S i)) (N.of_nat k) = false /\ (i <=? k)%nat = false).
    { intros Hlt. rewrite IH. split.
      - replace (S i <=? k)%nat with false by (symmetry; apply Nat.leb_gt; lia). reflexivity.
      - apply Nat.leb_gt. lia. }
    destruct (negb amd && N.testbit f 6) eqn:Hex.
    + destruct (lt_eq_lt_dec k i) as [[Hlt|Heq]|Hgt].
      * destruct (Hbelow Hlt) as [-> ->]. reflexivity.
      * subst k. rewrite IH. replace (S i <=? i)%nat with false by (symmetry; apply Nat.leb_gt; lia).
        rewrite Nat.sub_diag. cbn [nth_error andb]. rewrite Nat.leb_refl. cbn [andb].
        destruct amd, (N.testbit f 6); cbn in Hex |- *; congruence.
      * now apply Hrest.
    + rewrite N.setbit_eqb.
      destruct (lt_eq_lt_dec k i) as [[Hlt|Heq]|Hgt].
      * destruct (Hbelow Hlt) as [-> ->].
        replace (N.of_nat i =? N.of_nat k) with false by (symmetry; apply N.eqb_neq; lia). reflexivity.
      * subst k. rewrite N.eqb_refl. cbn [orb]. rewrite Nat.leb_refl, Nat.sub_diag. cbn [nth_error andb].
        destruct amd, (N.testbit f 6); cbn in Hex |- *; congruence.
      * replace (N.of_nat i =? N.of_nat k) with false by (symmetry; apply N.eqb_neq; lia).
        cbn [orb]. now apply Hrest.
Qed.

Lemma global_bits_spec amd types k :
  N.testbit (global_bits amd types) (N.of_nat k) =
  match nth_error types k with
  | Some f => amd || negb (N.testbit f 6)
  | None => false
  end.
Proof.
  unfold global_bits. rewrite global_bits_from_spec. cbn [Nat.leb andb]. now rewrite Nat.sub_0_r.
Qed.

Lemma eff_mask_spec global typeBits ctb n :
  N.testbit (eff_mask global typeBits ctb) n =
  N.testbit typeBits n && N.testbit global n && ((ctb =? 0) || N.testbit ctb n).
Proof.
  unfold eff_mask. destruct (ctb =? 0); rewrite ?N.land_spec; cbn [orb].
  - now rewrite andb_true_r.
  - reflexivity.
Qed.

(* ------------------------------------------------------------------ specification vocabulary *)

(* the flags of type k (None when k is not an index of the table) *)
Definition type_flags (d : device) (k : nat) : option N := nth_error d.(d_types) k.

(* type k with flags f is allowed by the caller's masks and by the device's (global) mask *)
Definition permitted (d : device) (rq : request) (typeBits : N) (k : nat) (f : N) : Prop :=
  N.testbit typeBits (N.of_nat k) = true /\
  (rq.(r_ctb) <> 0 -> N.testbit rq.(r_ctb) (N.of_nat k) = true) /\
  (N.testbit f 6 = true -> d.(d_amd) = true).

(* the properties a type must have for this request *)
Definition required_of (d : device) (rq : request) (bufimg : option N) : N :=
  fst (fst (prefs_of d rq bufimg)).
Definition preferred_of (d : device) (rq : request) (bufimg : option N) : N :=
  snd (fst (prefs_of d rq bufimg)).
Definition not_preferred_of (d : device) (rq : request) (bufimg : option N) : N :=
  snd (prefs_of d rq bufimg).

Definition eligible_type (d : device) (rq : request) (typeBits : N) (bufimg : option N) (k : nat) : Prop :=
  exists f, type_flags d k = Some f /\ permitted d rq typeBits k f /\
            N.land (required_of d rq bufimg) f = required_of d rq bufimg.

(* the cost the selection minimises *)
Definition cost_of (d : device) (rq : request) (bufimg : option N) (k : nat) : nat :=
  match type_flags d k with
  | Some f => cost (preferred_of d rq bufimg) (not_preferred_of d rq bufimg) f
  | None => 0%nat
  end.

(* (cost, index) lexicographic order: the order in which types are considered *)
Definition better_eq (d : device) (rq : request) (bufimg : option N) (j k : nat) : Prop :=
  (cost_of d rq bufimg j < cost_of d rq bufimg k)%nat \/
  (cost_of d rq bufimg j = cost_of d rq bufimg k /\ (j <= k)%nat).
Definition better (d : device) (rq : request) (bufimg : option N) (j k : nat) : Prop :=
  (cost_of d rq bufimg j < cost_of d rq bufimg k)%nat \/
  (cost_of d rq bufimg j = cost_of d rq bufimg k /\ (j < k)%nat).

Lemma select_unfold d rq typeBits bufimg :
  select d rq typeBits bufimg =
  find_loop (eff_mask (global_bits d.(d_amd) d.(d_types)) typeBits rq.(r_ctb))
            (required_of d rq bufimg) (preferred_of d rq bufimg) (not_preferred_of d rq bufimg)
            d.(d_types) 0 None.
Proof.
  unfold select, required_of, preferred_of, not_preferred_of, find_type.
  destruct (prefs_of d rq bufimg) as [[rq' pf] np]. reflexivity.
Qed.

Lemma elig_at_iff d rq typeBits bufimg k f :
  type_flags d k = Some f ->
  elig_at (eff_mask (global_bits d.(d_amd) d.(d_types)) typeBits rq.(r_ctb)) (required_of d rq bufimg) k f = true
  <-> permitted d rq typeBits k f /\ N.land (required_of d rq bufimg) f = required_of d rq bufimg.
Proof.
  intros Hk. unfold elig_at, permitted, has_all. unfold type_flags in Hk.
  rewrite eff_mask_spec, global_bits_spec, Hk.
  rewrite !andb_true_iff, orb_true_iff, orb_true_iff, negb_true_iff, !N.eqb_eq.
  split.
  - intros [[[Htb Hg] Hc] Hr]. repeat split; try assumption.
    + intros Hne. destruct Hc as [Hc|Hc]; [contradiction|exact Hc].
    + intros H6. destruct Hg as [Hg|Hg]; [exact Hg|congruence].
  - intros [(Htb & Hc & Hg) Hr]. repeat split; try assumption.
    + destruct (d_amd d); [now left|right]. destruct (N.testbit f 6); [|reflexivity].
      now specialize (Hg eq_refl).
    + destruct (N.eq_dec (r_ctb rq) 0) as [Hz|Hnz]; [now left|right; now apply Hc].
Qed.

(* ------------------------------------------------------------------ main characterisation of select *)

Theorem select_some_spec d rq typeBits bufimg j :
  select d rq typeBits bufimg = Some j ->
  eligible_type d rq typeBits bufimg j /\
  forall k, eligible_type d rq typeBits bufimg k -> better_eq d rq bufimg j k.
Proof.
  rewrite select_unfold. intros Hsel. apply find_loop_some in Hsel.
  destruct Hsel as [(c & Hc & _)|(k & f & -> & Hk & He & _ & Hmin)]; [discriminate|].
  cbn [Nat.add] in *. split.
  - exists f. split; [exact Hk|]. now apply (elig_at_iff d rq typeBits bufimg k f Hk).
  - intros k' (f' & Hk' & Hp' & Hr'). unfold better_eq, cost_of, type_flags in *. rewrite Hk, Hk'.
    apply (Hmin k' f' Hk'). apply (elig_at_iff d rq typeBits bufimg k' f' Hk'). now split.
Qed.

Theorem select_none_spec d rq typeBits bufimg :
  select d rq typeBits bufimg = None <-> forall k, ~ eligible_type d rq typeBits bufimg k.
Proof.
  split.
  - rewrite select_unfold. intros Hsel k (f & Hk & Hp & Hr). apply find_loop_none in Hsel.
    destruct Hsel as [_ Hno]. specialize (Hno k f Hk). cbn [Nat.add] in Hno.
    assert (He : elig_at (eff_mask (global_bits (d_amd d) (d_types d)) typeBits (r_ctb rq))
                   (required_of d rq bufimg) k f = true)
      by (apply (elig_at_iff d rq typeBits bufimg k f Hk); now split).
    congruence.
  - intros Hno. destruct (select d rq typeBits bufimg) as [j|] eqn:Hsel; [|reflexivity].
    apply select_some_spec in Hsel. destruct Hsel as [He _]. exfalso. now apply (Hno j).
Qed.

(* ------------------------------------------------------------------ findMemoryPreferences *)

Definition host_access (rq : request) : bool :=
  N.testbit rq.(r_flags) ACF_SEQ_WRITE_BIT || N.testbit rq.(r_flags) ACF_RANDOM_BIT.

(* the "transfer fallback" case: host-visibility is only preferred, not required *)
Definition transfer_fallback (d : device) (rq : request) (bufimg : option N) : bool :=
  negb d.(d_integrated) && device_access bufimg && N.testbit rq.(r_flags) ACF_ALLOW_TRANSFER_BIT
  && negb (rq.(r_usage) =? USAGE_AUTO_HOST).

Definition needs_host_visible (d : device) (rq : request) (bufimg : option N) : bool :=
  is_auto rq.(r_usage) && host_access rq && negb (transfer_fallback d rq bufimg).

(* the caller asked for an AMD device-coherent / device-uncached type *)
Definition asked_amd (rq : request) : bool :=
  negb (N.land (N.lor rq.(r_req) rq.(r_pref)) (N.lor DEVICE_COHERENT_AMD DEVICE_UNCACHED_AMD) =? 0).

Ltac prefs_cases :=
  repeat match goal with
         | |- context [if ?b then _ else _] => destruct b eqn:?
         end.

(* exact description of the required property set *)
Lemma required_of_eq d rq bufimg :
  required_of d rq bufimg =
  N.lor rq.(r_req)
        (if rq.(r_usage) =? USAGE_LAZY then LAZILY_ALLOCATED
         else if needs_host_visible d rq bufimg then HOST_VISIBLE else 0).
Proof.
  unfold required_of, prefs_of, find_prefs, needs_host_visible, host_access, transfer_fallback.
  destruct (r_usage rq =? USAGE_LAZY); [reflexivity|].
  destruct (is_auto (r_usage rq)); [|cbn [fst snd andb]; now rewrite N.lor_0_r].
  destruct (N.testbit (r_flags rq) ACF_RANDOM_BIT), (N.testbit (r_flags rq) ACF_SEQ_WRITE_BIT),
    (d_integrated d), (device_access bufimg), (N.testbit (r_flags rq) ACF_ALLOW_TRANSFER_BIT),
    (r_usage rq =? USAGE_AUTO_HOST), (r_usage rq =? USAGE_AUTO_DEVICE);
    cbn [fst snd andb orb negb]; rewrite ?N.lor_0_r; reflexivity.
Qed.

Lemma required_of_super d rq bufimg n :
  N.testbit rq.(r_req) n = true -> N.testbit (required_of d rq bufimg) n = true.
Proof. intros H. rewrite required_of_eq. now apply lor_bit_l. Qed.

(* preferences when there is no usage mode (or any mode that is neither automatic nor lazily-allocated) *)
Lemma prefs_not_auto d rq bufimg :
  is_auto rq.(r_usage) = false ->
  preferred_of d rq bufimg = rq.(r_pref) /\
  not_preferred_of d rq bufimg = if asked_amd rq then 0 else DEVICE_UNCACHED_AMD.
Proof.
  intros Hauto. unfold preferred_of, not_preferred_of, prefs_of, find_prefs, asked_amd. rewrite Hauto.
  destruct (r_usage rq =? USAGE_LAZY);
    destruct (N.land (N.lor (r_req rq) (r_pref rq)) (N.lor DEVICE_COHERENT_AMD DEVICE_UNCACHED_AMD) =? 0);
    cbn [fst snd negb]; split; reflexivity.
Qed.

(* preferences of the automatic modes without host access *)
Lemma prefs_auto_no_host d rq bufimg :
  is_auto rq.(r_usage) = true -> host_access rq = false ->
  required_of d rq bufimg = rq.(r_req) /\
  preferred_of d rq bufimg =
    (if rq.(r_usage) =? USAGE_AUTO_HOST then rq.(r_pref) else N.lor rq.(r_pref) DEVICE_LOCAL) /\
  not_preferred_of d rq bufimg =
    N.lor (if rq.(r_usage) =? USAGE_AUTO_HOST then DEVICE_LOCAL else 0)
          (if asked_amd rq then 0 else DEVICE_UNCACHED_AMD).
Proof.
  intros Hauto Hhost. unfold host_access in Hhost. apply orb_false_iff in Hhost. destruct Hhost as [Hs Hr].
  assert (Hlazy : r_usage rq =? USAGE_LAZY = false).
  { unfold is_auto in Hauto. apply N.eqb_neq. intros Heq. rewrite Heq in Hauto. discriminate. }
  unfold required_of, preferred_of, not_preferred_of, prefs_of, find_prefs, asked_amd.
  rewrite Hlazy, Hauto, Hs, Hr. cbn [andb].
  destruct (r_usage rq =? USAGE_AUTO_HOST);
    destruct (N.land (N.lor (r_req rq) (r_pref rq)) (N.lor DEVICE_COHERENT_AMD DEVICE_UNCACHED_AMD) =? 0);
    cbn [fst snd negb]; rewrite ?N.lor_0_r, ?N.lor_0_l; repeat split; reflexivity.
Qed.

(* ------------------------------------------------------------------ C19, selection part *)

(* The chosen type is permitted by the caller's masks and the device's mask. *)
Theorem chosen_permitted d rq typeBits bufimg j :
  select d rq typeBits bufimg = Some j ->
  exists f, type_flags d j = Some f /\
    N.testbit typeBits (N.of_nat j) = true /\
    (rq.(r_ctb) <> 0 -> N.testbit rq.(r_ctb) (N.of_nat j) = true) /\
    (N.testbit f 6 = true -> d.(d_amd) = true).
Proof.
  intros Hsel. apply select_some_spec in Hsel. destruct Hsel as [(f & Hk & Hp & _) _].
  exists f. split; [exact Hk|exact Hp].
Qed.

(* The chosen type has every required property: the caller's required flags, lazily-allocated for the
   lazily-allocated usage, and host-visible for an automatic usage mode combined with a host-access flag
   unless the transfer fallback applies (in particular whenever AllowTransferInstead is not given). *)
Theorem chosen_has_required d rq typeBits bufimg j :
  select d rq typeBits bufimg = Some j ->
  exists f, type_flags d j = Some f /\
    N.land (required_of d rq bufimg) f = required_of d rq bufimg /\
    N.land rq.(r_req) f = rq.(r_req) /\
    (rq.(r_usage) = USAGE_LAZY -> N.testbit f 4 = true) /\
    (needs_host_visible d rq bufimg = true -> N.testbit f 1 = true) /\
    (is_auto rq.(r_usage) = true -> host_access rq = true ->
     N.testbit rq.(r_flags) ACF_ALLOW_TRANSFER_BIT = false -> N.testbit f 1 = true).
Proof.
  intros Hsel. apply select_some_spec in Hsel. destruct Hsel as [(f & Hk & _ & Hr) _].
  assert (Hall : has_all f (required_of d rq bufimg) = true) by (unfold has_all; now apply N.eqb_eq).
  assert (Hhv : needs_host_visible d rq bufimg = true -> N.testbit f 1 = true).
  { intros Hn. apply (has_all_bit _ _ _ Hall). rewrite required_of_eq, Hn.
    destruct (r_usage rq =? USAGE_LAZY) eqn:Hl.
    - apply N.eqb_eq in Hl. unfold needs_host_visible in Hn. rewrite Hl in Hn. discriminate.
    - now apply lor_bit_r. }
  exists f. split; [exact Hk|]. split; [exact Hr|]. split; [|split; [|split]].
  - apply has_all_land. apply (has_all_sub f _ (required_of d rq bufimg)); [|exact Hall].
    intros n. apply required_of_super.
  - intros Hl. apply (has_all_bit _ _ _ Hall). rewrite required_of_eq, Hl. now apply lor_bit_r.
  - exact Hhv.
  - intros Hauto Hhost Hx. apply Hhv. unfold needs_host_visible, transfer_fallback.
    rewrite Hauto, Hhost, Hx. cbn [andb negb]. now rewrite andb_false_r.
Qed.

(* "feature not present" exactly when no permitted type has the required properties *)
Theorem none_iff_no_eligible d rq typeBits bufimg :
  select d rq typeBits bufimg = None <->
  forall k f, type_flags d k = Some f -> permitted d rq typeBits k f ->
              N.land (required_of d rq bufimg) f <> required_of d rq bufimg.
Proof.
  rewrite select_none_spec. split.
  - intros Hno k f Hk Hp Hr. apply (Hno k). now exists f.
  - intros Hno k (f & Hk & Hp & Hr). now apply (Hno k f).
Qed.

(* number of preferred properties a type misses; extra miss for device-uncached memory unless asked for *)
Definition misses (rq : request) (f : N) : nat := popcount (N.ldiff rq.(r_pref) f).
Definition uncached_penalty (rq : request) (f : N) : nat :=
  if asked_amd rq then 0%nat else b2n (N.testbit f 7).

Definition total_misses (rq : request) (f : N) : nat := (misses rq f + uncached_penalty rq f)%nat.

Lemma cost_not_auto d rq bufimg f :
  is_auto rq.(r_usage) = false ->
  cost (preferred_of d rq bufimg) (not_preferred_of d rq bufimg) f
  = total_misses rq f.
Proof.
  intros Hauto. destruct (prefs_not_auto d rq bufimg Hauto) as [-> ->].
  unfold total_misses, cost, misses, uncached_penalty. destruct (asked_amd rq).
  - now rewrite N.land_0_l.
  - now rewrite popcount_land_uncached.
Qed.

(* Without an automatic usage mode, among the eligible types none misses fewer preferred properties than
   the chosen one, and the chosen one has the lowest index among those that miss equally many. *)
Theorem not_auto_min_cost_lowest_index d rq typeBits bufimg j fj :
  is_auto rq.(r_usage) = false ->
  select d rq typeBits bufimg = Some j -> type_flags d j = Some fj ->
  forall k fk, type_flags d k = Some fk -> permitted d rq typeBits k fk ->
    N.land (required_of d rq bufimg) fk = required_of d rq bufimg ->
    (total_misses rq fj < total_misses rq fk)%nat \/
    (total_misses rq fj = total_misses rq fk /\ (j <= k)%nat).
Proof.
  intros Hauto Hsel Hj k fk Hk Hp Hr. apply select_some_spec in Hsel. destruct Hsel as [_ Hmin].
  assert (He : eligible_type d rq typeBits bufimg k) by (now exists fk).
  specialize (Hmin k He). unfold better_eq, cost_of in Hmin. rewrite Hj, Hk in Hmin.
  now rewrite !(cost_not_auto d rq bufimg _ Hauto) in Hmin.
Qed.

Theorem unknown_usage_min_cost_lowest_index d rq typeBits bufimg j fj :
  rq.(r_usage) = USAGE_UNKNOWN ->
  select d rq typeBits bufimg = Some j -> type_flags d j = Some fj ->
  forall k fk, type_flags d k = Some fk -> permitted d rq typeBits k fk ->
    N.land rq.(r_req) fk = rq.(r_req) ->
    (total_misses rq fj < total_misses rq fk)%nat \/
    (total_misses rq fj = total_misses rq fk /\ (j <= k)%nat).
Proof.
  intros Hu Hsel Hj k fk Hk Hp Hr.
  assert (Hauto : is_auto (r_usage rq) = false) by (now rewrite Hu).
  apply (not_auto_min_cost_lowest_index d rq typeBits bufimg j fj Hauto Hsel Hj k fk Hk Hp).
  rewrite required_of_eq, Hu. unfold needs_host_visible. rewrite Hu. cbn [N.eqb USAGE_UNKNOWN USAGE_LAZY is_auto andb].
  change (0 =? 1) with false. cbn match. rewrite N.lor_0_r. exact Hr.
Qed.

(* cost in the automatic modes without host access and without explicit preferences *)
Lemma cost_auto_device d rq bufimg f :
  is_auto rq.(r_usage) = true -> (rq.(r_usage) =? USAGE_AUTO_HOST) = false ->
  host_access rq = false -> rq.(r_pref) = 0 ->
  cost (preferred_of d rq bufimg) (not_preferred_of d rq bufimg) f
  = (b2n (negb (N.testbit f 0)) + uncached_penalty rq f)%nat.
Proof.
  intros Hauto Hnh Hhost Hpref.
  destruct (prefs_auto_no_host d rq bufimg Hauto Hhost) as (_ & -> & ->).
  rewrite Hnh, Hpref, !N.lor_0_l. unfold cost, uncached_penalty. rewrite popcount_ldiff_local.
  destruct (asked_amd rq).
  - now rewrite N.land_0_l.
  - now rewrite popcount_land_uncached.
Qed.

Lemma cost_auto_host d rq bufimg f :
  (rq.(r_usage) =? USAGE_AUTO_HOST) = true ->
  host_access rq = false -> rq.(r_pref) = 0 ->
  cost (preferred_of d rq bufimg) (not_preferred_of d rq bufimg) f
  = (b2n (N.testbit f 0) + uncached_penalty rq f)%nat.
Proof.
  intros Hh Hhost Hpref.
  assert (Hauto : is_auto (r_usage rq) = true) by (unfold is_auto; rewrite Hh; now rewrite orb_true_r).
  destruct (prefs_auto_no_host d rq bufimg Hauto Hhost) as (_ & -> & ->).
  rewrite Hh, Hpref. unfold cost, uncached_penalty. rewrite N.ldiff_0_l. cbn [popcount Nat.add].
  destruct (asked_amd rq).
  - rewrite N.lor_0_r. apply (eq_trans (popcount_land_local f)). lia.
  - now rewrite popcount_land_local_uncached.
Qed.

(* With an automatic (not host-preferring) usage mode, no host access and no explicit preferences, a
   device-local type is chosen whenever an eligible device-local type exists that is not device-uncached
   (or device-uncached/-coherent memory was asked for).  The chosen type is then not a penalised
   device-uncached type either. *)
Theorem auto_prefers_device_local d rq typeBits bufimg j fj :
  rq.(r_usage) = USAGE_AUTO \/ rq.(r_usage) = USAGE_AUTO_DEVICE ->
  host_access rq = false -> rq.(r_pref) = 0 ->
  select d rq typeBits bufimg = Some j -> type_flags d j = Some fj ->
  (exists k fk, type_flags d k = Some fk /\ permitted d rq typeBits k fk /\
                N.land rq.(r_req) fk = rq.(r_req) /\
                N.testbit fk 0 = true /\ (N.testbit fk 7 = true -> asked_amd rq = true)) ->
  N.testbit fj 0 = true /\ (N.testbit fj 7 = true -> asked_amd rq = true).
Proof.
  intros Hu Hhost Hpref Hsel Hj (k & fk & Hk & Hp & Hr & Hdl & Hunc).
  assert (Hauto : is_auto (r_usage rq) = true) by (destruct Hu as [-> | ->]; reflexivity).
  assert (Hnh : (r_usage rq =? USAGE_AUTO_HOST) = false) by (destruct Hu as [-> | ->]; reflexivity).
  apply select_some_spec in Hsel. destruct Hsel as [_ Hmin].
  assert (He : eligible_type d rq typeBits bufimg k).
  { exists fk. repeat split; try assumption; try apply Hp.
    destruct (prefs_auto_no_host d rq bufimg Hauto Hhost) as (-> & _ & _). exact Hr. }
  specialize (Hmin k He). unfold better_eq, cost_of in Hmin. rewrite Hj, Hk in Hmin.
  rewrite !(cost_auto_device d rq bufimg _ Hauto Hnh Hhost Hpref) in Hmin.
  rewrite Hdl in Hmin. unfold uncached_penalty in *. cbn [negb b2n] in Hmin.
  destruct (asked_amd rq).
  - destruct (N.testbit fj 0); cbn [negb b2n] in Hmin; [split; [reflexivity|intros _; reflexivity]|lia].
  - destruct (N.testbit fk 7); [now specialize (Hunc eq_refl)|].
    destruct (N.testbit fj 0), (N.testbit fj 7); cbn [negb b2n] in Hmin;
      first [lia | split; [reflexivity|intros Hf; discriminate]].
Qed.

(* Dual for the host-preferring automatic mode: a non-device-local type is chosen whenever an eligible one
   exists that is not device-uncached (or that memory was asked for). *)
Theorem auto_host_prefers_non_device_local d rq typeBits bufimg j fj :
  rq.(r_usage) = USAGE_AUTO_HOST ->
  host_access rq = false -> rq.(r_pref) = 0 ->
  select d rq typeBits bufimg = Some j -> type_flags d j = Some fj ->
  (exists k fk, type_flags d k = Some fk /\ permitted d rq typeBits k fk /\
                N.land rq.(r_req) fk = rq.(r_req) /\
                N.testbit fk 0 = false /\ (N.testbit fk 7 = true -> asked_amd rq = true)) ->
  N.testbit fj 0 = false /\ (N.testbit fj 7 = true -> asked_amd rq = true).
Proof.
  intros Hu Hhost Hpref Hsel Hj (k & fk & Hk & Hp & Hr & Hdl & Hunc).
  assert (Hh : (r_usage rq =? USAGE_AUTO_HOST) = true) by (now rewrite Hu).
  assert (Hauto : is_auto (r_usage rq) = true) by (now rewrite Hu).
  apply select_some_spec in Hsel. destruct Hsel as [_ Hmin].
  assert (He : eligible_type d rq typeBits bufimg k).
  { exists fk. repeat split; try assumption; try apply Hp.
    destruct (prefs_auto_no_host d rq bufimg Hauto Hhost) as (-> & _ & _). exact Hr. }
  specialize (Hmin k He). unfold better_eq, cost_of in Hmin. rewrite Hj, Hk in Hmin.
  rewrite !(cost_auto_host d rq bufimg _ Hh Hhost Hpref) in Hmin.
  rewrite Hdl in Hmin. unfold uncached_penalty in *. cbn [b2n] in Hmin.
  destruct (asked_amd rq).
  - destruct (N.testbit fj 0); cbn [b2n] in Hmin; [lia|split; [reflexivity|intros _; reflexivity]].
  - destruct (N.testbit fk 7); [now specialize (Hunc eq_refl)|].
    destruct (N.testbit fj 0), (N.testbit fj 7); cbn [b2n] in Hmin;
      first [lia | split; [reflexivity|intros Hf; discriminate]].
Qed.
