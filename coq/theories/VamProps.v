(* VamProps.v — reachable states of the allocator model and the state-level properties that follow from the
   representation invariant: C02 (every Allocation denotes a valid, aligned, exclusive range of live memory). *)
From Coq Require Import ZArith NArith List Bool Lia.
From Arsenal Require Util Bits SyncMem Budget Select.
From Arsenal Require Import VamDev VamBlockList VamDefrag Vam VamInvMeta VamInv VamInvUpd VamInvDev VamInvStep VamInvStep2 VamInvThm.
Import ListNotations.
Open Scope Z_scope.

(* all histories: allocator creation, then any API calls in the API domain with any fault oracles *)
Inductive reach (c : vcfg) : vam -> Prop :=
| reach_new nslots v : vam_new c nslots = OK v -> reach c v
| reach_step v o f v' r calls :
    reach c v -> op_ok v o -> step c v o f = (v', r, calls) -> r <> RPanic -> r <> RStuck -> reach c v'.

Theorem reach_inv c v : cfg_ok c -> reach c v -> VamInv c v.
Proof.
  intros Hc R. induction R as [nslots v H|v o f v' r calls R IH Hok Hs Hp Hk].
  - eapply vam_new_inv; eauto.
  - pose proof (step_preserves c Hc v o f IH Hok) as P. rewrite Hs in P. apply P; auto.
Qed.

(* ---------------------------------------------------------------- C02 *)

Lemma block_alloc_facts c v s a :
  VamInv c v -> slot_is v s a -> a_kind a = 1 ->
  exists l b rg, get_blist v (a_lref a) = Some l /\ In b (bl_blocks l) /\ get_block v (a_lref a) (a_blk a) = Some b /\
    In rg (meta_live (bk_meta b)) /\ rg_handle rg = a_handle a /\ rg_tag rg = Some s /\ rg_size rg = a_size a /\
    rg_align rg = a_align a /\ a_mem a = bk_mem b /\ a_type a = bl_type l /\ MInv (bk_meta b) /\
    find_offset v a = Some (rg_off rg).
Proof.
  intros HI Sa K. destruct (vi_slots _ _ _ _ HI s a Sa (fun H => H)) as [(_ & l & b & rg & G & B & Hid & Hrg & R)|(K2 & _)]; [|congruence].
  pose proof (vi_lists _ _ _ _ HI _ _ G) as Hwf. pose proof (bw_meta _ _ Hwf) as Hm. rewrite Forall_forall in Hm.
  assert (Hgb : get_block v (a_lref a) (a_blk a) = Some b).
  { unfold get_block. rewrite G, <- Hid. apply in_find_block; [apply (bw_nodup _ _ Hwf)|auto]. }
  destruct R as (R1 & R2 & R3 & R4 & R5 & R6).
  exists l, b, rg. repeat split; auto.
  unfold find_offset. rewrite K, Hgb. cbn. rewrite <- R1. apply meta_offset_live; auto.
Qed.

(* every allocated Allocation object denotes a range inside a live memory object of its memory type *)
Theorem alloc_denotes_valid_range c v :
  VamInv c v -> forall s a, slot_is v s a ->
  exists d off,
    find_mem (m_mems (v_m v)) (a_mem a) = Some d /\ dm_type d = a_type a /\
    find_offset v a = Some off /\ 0 <= off /\ 0 < a_size a /\ off + a_size a <= dm_size d /\
    (a_kind a = 1 -> 0 < a_align a /\ off mod a_align a = 0) /\
    (a_kind a = 2 -> off = 0 /\ a_size a = dm_size d).
Proof.
  intros HI s a Sa. destruct (vi_slots _ _ _ _ HI s a Sa (fun H => H)) as [(K & _)|(K & _ & _ & d & Hf & Ht & Hz)].
  - destruct (block_alloc_facts c v s a HI Sa K) as (l & b & rg & G & B & Hgb & Hrg & Hh & Htag & Hsz & Hal & Hmem & Hty & Hmi & Hoff).
    destruct (vi_block_mem _ _ _ _ HI _ _ _ G B) as (d & Hf & Hdt & Hds).
    destruct (meta_live_sound _ Hmi) as (Hb & _ & _). destruct (Hb rg Hrg) as (H1 & H2 & H3 & H4 & H5).
    exists d, (rg_off rg). rewrite Hmem. split; [auto|]. split; [congruence|]. split; [auto|]. split; [auto|].
    split; [lia|]. split; [lia|]. split; [intros _; rewrite <- Hal; auto|intros K2; congruence].
  - exists d, 0. split; [auto|]. split; [auto|]. split; [unfold find_offset; rewrite K; reflexivity|]. split; [lia|].
    pose proof (vi_dev_pos _ _ _ _ HI) as Hp. rewrite Forall_forall in Hp. destruct (find_mem_in _ _ _ Hf) as (Hd & _).
    specialize (Hp d Hd). split; [lia|]. split; [lia|]. split; [intros K1; congruence|intros _; split; [reflexivity|lia]].
Qed.

(* two different Allocation objects never overlap inside one memory object *)
Theorem alloc_no_overlap c v :
  VamInv c v -> forall s1 a1 s2 a2, slot_is v s1 a1 -> slot_is v s2 a2 -> s1 <> s2 -> a_mem a1 = a_mem a2 ->
  forall o1 o2, find_offset v a1 = Some o1 -> find_offset v a2 = Some o2 ->
  o1 + a_size a1 <= o2 \/ o2 + a_size a2 <= o1.
Proof.
  intros HI s1 a1 s2 a2 S1 S2 Hne Hmem o1 o2 O1 O2.
  destruct (vi_slots _ _ _ _ HI s1 a1 S1 (fun H => H)) as [(K1 & _)|(K1 & _)];
    destruct (vi_slots _ _ _ _ HI s2 a2 S2 (fun H => H)) as [(K2 & _)|(K2 & _)].
  - destruct (block_alloc_facts c v s1 a1 HI S1 K1) as (l1 & b1 & r1 & G1 & B1 & _ & R1 & H1 & T1 & Z1 & _ & M1 & _ & Mi1 & F1).
    destruct (block_alloc_facts c v s2 a2 HI S2 K2) as (l2 & b2 & r2 & G2 & B2 & _ & R2 & H2 & T2 & Z2 & _ & M2 & _ & Mi2 & F2).
    destruct (vi_block_mem_inj _ _ _ _ HI _ _ _ _ _ _ G1 B1 G2 B2 ltac:(congruence)) as (El & Eb).
    rewrite El in G1. assert (l1 = l2) by congruence. subst l2.
    assert (b1 = b2).
    { pose proof (vi_lists _ _ _ _ HI _ _ G1) as Hwf. pose proof (in_find_block _ _ (bw_nodup _ _ Hwf) B1) as X1.
      pose proof (in_find_block _ _ (bw_nodup _ _ Hwf) B2) as X2. rewrite Eb in X1. congruence. }
    subst b2. destruct (meta_live_sound _ Mi1) as (_ & Hnd & Hdis).
    assert (Hh : rg_handle r1 <> rg_handle r2).
    { intros E. assert (r1 = r2).
      { clear - Hnd R1 R2 E. revert Hnd R1 R2. generalize (meta_live (bk_meta b1)). induction l as [|x l IH]; cbn; [tauto|].
        intros Hnd [->|I1] [->|I2]; auto.
        - inversion Hnd; subst. exfalso. apply H1. rewrite E. apply in_map. auto.
        - inversion Hnd; subst. exfalso. apply H1. rewrite <- E. apply in_map. auto.
        - inversion Hnd; subst. auto. }
      subst. rewrite T1 in T2. injection T2 as ->. contradiction. }
    specialize (Hdis r1 r2 R1 R2 Hh). unfold rg_disjoint in Hdis. rewrite F1 in O1. rewrite F2 in O2.
    injection O1 as <-. injection O2 as <-. lia.
  - exfalso. destruct (block_alloc_facts c v s1 a1 HI S1 K1) as (l1 & b1 & _ & G1 & B1 & _ & _ & _ & _ & _ & _ & M1 & _).
    eapply (vi_ded_not_block _ _ _ _ HI s2 a2); eauto. congruence.
  - exfalso. destruct (block_alloc_facts c v s2 a2 HI S2 K2) as (l2 & b2 & _ & G2 & B2 & _ & _ & _ & _ & _ & _ & M2 & _).
    eapply (vi_ded_not_block _ _ _ _ HI s1 a1); eauto. congruence.
  - exfalso. apply Hne. eapply vi_ded_inj; eauto.
Qed.

(* an Allocation made from a custom pool lies in memory of the pool's memory type; one made from the
   default lists lies in the default list of its own type *)
Theorem alloc_list_type c v :
  VamInv c v -> forall s a, slot_is v s a -> exists l, get_blist v (a_lref a) = Some l /\ bl_type l = a_type a.
Proof.
  intros HI s a Sa. destruct (vi_slots _ _ _ _ HI s a Sa (fun H => H)) as [(K & l & b & rg & G & _ & _ & _ & _ & _ & _ & _ & _ & T)|(K & _ & (l & G & T) & _)];
    exists l; split; auto.
Qed.

(* ---------------------------------------------------------------- C20 (the parts that need only VamInv) *)

Theorem pool_ids_distinct c v : VamInv c v -> NoDup (map p_id (v_pools v)) /\ NoDup (map p_uid (v_pools v)).
Proof. intros HI. split; [apply (vi_pools_id _ _ _ _ HI)|apply (vi_pools_nodup _ _ _ _ HI)]. Qed.

Lemma existsb_nth_z {A} (f : A -> bool) (l : list A) i x : nth_z l i = Some x -> f x = true -> existsb f l = true.
Proof. intros H Hf. apply existsb_exists. exists x. split; [eapply nth_z_in; eauto|auto]. Qed.

(* a live allocation makes Allocator.Destroy fail without touching anything *)
Theorem destroy_refuses_live c v s a :
  VamInv c v -> slot_is v s a -> allocator_destroy c v = (v, ER 0).
Proof.
  intros HI Sa. unfold allocator_destroy.
  destruct (vi_slots _ _ _ _ HI s a Sa (fun H => H)) as [(K & l & b & rg & G & B & _ & Hrg & _)|(K & [Hin|[]] & _)].
  - (* block allocation: its block is not empty *)
    assert (Hne : meta_is_empty (bk_meta b) = false).
    { pose proof (vi_lists _ _ _ _ HI _ _ G) as Hwf. pose proof (bw_meta _ _ Hwf) as Hm. rewrite Forall_forall in Hm.
      destruct (meta_bookkeeping _ (Hm _ B)) as (_ & _ & He). destruct (meta_is_empty (bk_meta b)); [|reflexivity].
      rewrite (proj1 He eq_refl) in Hrg. destruct Hrg. }
    destruct (existsb _ (v_ded v)); [reflexivity|].
    destruct (a_lref a) as [t|uid] eqn:El; cbn in G.
    + destruct (v_pools v); [|reflexivity].
      destruct (nth_z (v_lists v) t) as [[x|]|] eqn:E; try discriminate. injection G as ->.
      rewrite (existsb_nth_z list_nonempty _ _ _ E); [reflexivity|].
      cbn. apply existsb_exists. exists b. rewrite Hne. auto.
    + destruct (find_pool (v_pools v) uid) as [p|] eqn:E; [|discriminate]. destruct (v_pools v); [discriminate|reflexivity].
  - (* dedicated allocation: its list is not empty *)
    destruct (a_lref a) as [t|uid] eqn:El; cbn in Hin.
    + destruct (nth_z (v_ded v) t) as [d|] eqn:E; [|destruct Hin].
      rewrite (existsb_nth_z (fun d => match d with [] => false | _ => true end) _ _ _ E); [reflexivity|].
      destruct d; [destruct Hin|reflexivity].
    + destruct (existsb _ (v_ded v)); [reflexivity|].
      destruct (find_pool (v_pools v) uid) as [p|] eqn:E; [|destruct Hin]. destruct (v_pools v); [discriminate|reflexivity].
Qed.

(* a pool with a live allocation cannot be destroyed *)
Theorem pool_destroy_refuses_live c v s a uid :
  VamInv c v -> slot_is v s a -> a_lref a = LPool uid -> pool_destroy c v uid = (v, ER 0).
Proof.
  intros HI Sa El. unfold pool_destroy.
  destruct (vi_slots _ _ _ _ HI s a Sa (fun H => H)) as [(K & l & b & rg & G & B & _ & Hrg & _)|(K & [Hin|[]] & _)];
    rewrite El in *; cbn in *.
  - destruct (find_pool (v_pools v) uid) as [p|] eqn:E; [|discriminate]. injection G as <-.
    destruct (p_ded p); [|reflexivity]. unfold bl_destroy. cbn. rewrite E.
    assert (Hne : meta_is_empty (bk_meta b) = false).
    { assert (G' : get_blist v (LPool uid) = Some (p_list p)) by (cbn; rewrite E; reflexivity).
      pose proof (vi_lists _ _ _ _ HI _ _ G') as Hwf. pose proof (bw_meta _ _ Hwf) as Hm. rewrite Forall_forall in Hm.
      destruct (meta_bookkeeping _ (Hm _ B)) as (_ & _ & He). destruct (meta_is_empty (bk_meta b)); [|reflexivity].
      rewrite (proj1 He eq_refl) in Hrg. destruct Hrg. }
    assert (Hex : existsb (fun b0 => negb (meta_is_empty (bk_meta b0))) (bl_blocks (p_list p)) = true).
    { apply existsb_exists. exists b. rewrite Hne. auto. }
    rewrite Hex. reflexivity.
  - destruct (find_pool (v_pools v) uid) as [p|] eqn:E; [|destruct Hin]. destruct (p_ded p); [destruct Hin|reflexivity].
Qed.

(* ---------------------------------------------------------------- C04: CalculateStatistics = truth (the four Statistics counters) *)

From Arsenal Require TlsfStep2 TlsfInv2 LinearVisit LinearInv Tlsf Linear.

(* the four counters of memutils.Statistics *)
Definition basic (d : dst) : Z * Z * Z * Z := (ds_blocks d, ds_allocs d, ds_block_bytes d, ds_alloc_bytes d).
Definition badd (x y : Z * Z * Z * Z) : Z * Z * Z * Z :=
  let '(a1, a2, a3, a4) := x in let '(b1, b2, b3, b4) := y in (a1 + b1, a2 + b2, a3 + b3, a4 + b4).

Lemma pair4 (a b c0 d a' b' c' d' : Z) : a = a' -> b = b' -> c0 = c' -> d = d' -> (a, b, c0, d) = (a', b', c', d').
Proof. intros; subst; reflexivity. Qed.

Lemma basic_merge a b : basic (dst_merge a b) = badd (basic a) (basic b).
Proof. reflexivity. Qed.

Lemma sum_sizes_rg_t l : TlsfInv2.sum_sizes l = sum_rg (map tlsf_region l).
Proof. induction l as [|x l IH]; cbn; [reflexivity|]. rewrite IH. reflexivity. Qed.

Lemma sum_sizes_rg_l l : LinearInv.sum_sizes l = sum_rg (map lin_region l).
Proof. induction l as [|x l IH]; cbn; [reflexivity|]. rewrite IH. reflexivity. Qed.

(* one block: 1 block, its live regions, its size, their bytes *)
Lemma meta_dstats_basic mt :
  MInv mt -> exists d, meta_dstats mt = Some d /\
    basic d = (1, zlen (meta_live mt), meta_size mt, sum_rg (meta_live mt)).
Proof.
  intros HI. destruct mt as [t|l]; cbn [MInv meta_dstats meta_live meta_size] in *.
  - destruct HI as [HT H2]. destruct (TlsfStep2.tlsf_bookkeeping t HT H2) as (_ & _ & _ & _ & _ & _ & Hd).
    eexists. split; [reflexivity|]. rewrite Hd. unfold TlsfStep2.dspec, basic. cbn.
    destruct HT as [Hinv _]. rewrite (TlsfStep2.taken_regions_live t Hinv).
    f_equal; [f_equal|]; [unfold zlen, Util.zlen; rewrite map_length; reflexivity|apply sum_sizes_rg_t].
  - destruct (LinearVisit.add_detailed_statistics_spec l HI) as (d & Hd & Hs).
    rewrite Hd. eexists. split; [reflexivity|]. unfold basic. cbn. rewrite Hs. cbn.
    f_equal; [f_equal|]; [unfold zlen, Util.zlen; rewrite map_length; reflexivity|apply sum_sizes_rg_l].
Qed.

(* truth about a list of blocks *)
Fixpoint blocks_truth (bs : list block) : Z * Z * Z * Z :=
  match bs with
  | [] => (0, 0, 0, 0)
  | b :: tl => badd (1, zlen (meta_live (bk_meta b)), meta_size (bk_meta b), sum_rg (meta_live (bk_meta b))) (blocks_truth tl)
  end.

Lemma badd_assoc a b c0 : badd (badd a b) c0 = badd a (badd b c0).
Proof. destruct a as (((a1 & a2) & a3) & a4), b as (((b1 & b2) & b3) & b4), c0 as (((c1 & c2) & c3) & c4). cbn. apply pair4; lia. Qed.

Lemma blocks_dstats_basic bs : forall acc,
  Forall (fun b => MInv (bk_meta b)) bs ->
  exists d, blocks_dstats bs acc = Some d /\ basic d = badd (basic acc) (blocks_truth bs).
Proof.
  induction bs as [|b tl IH]; intros acc H; cbn [blocks_dstats blocks_truth].
  - exists acc. split; [reflexivity|]. destruct (basic acc) as (((a1 & a2) & a3) & a4). cbn. apply pair4; lia.
  - inversion H as [|? ? Hb Ht]; subst. destruct (meta_dstats_basic _ Hb) as (d & Hd & Hbd). rewrite Hd.
    destruct (IH (dst_merge acc d) Ht) as (d2 & H2 & B2). exists d2. split; [auto|].
    rewrite B2, basic_merge, Hbd. apply badd_assoc.
Qed.

(* truth about dedicated allocations: each is one block and one allocation of its size *)
Definition ded_truth (v : vam) (slots : list Z) : Z * Z * Z * Z :=
  fold_right (fun s acc => badd (1, 1, a_size (get_alloc v s), a_size (get_alloc v s)) acc) (0, 0, 0, 0) slots.

Lemma dedicated_dstats_basic v slots : forall acc, basic (dedicated_dstats v slots acc) = badd (basic acc) (ded_truth v slots).
Proof.
  unfold dedicated_dstats. induction slots as [|s tl IH]; intros acc; cbn [fold_left ded_truth fold_right].
  - destruct (basic acc) as (((a1 & a2) & a3) & a4). cbn. apply pair4; lia.
  - rewrite IH. rewrite <- badd_assoc. f_equal.
Qed.

(* truth about memory type t: the default list and dedicated list of t, and every custom pool of type t *)
Definition pools_truth (v : vam) (t : Z) : Z * Z * Z * Z :=
  fold_right (fun p acc => if bl_type (p_list p) =? t
                           then badd (badd (blocks_truth (bl_blocks (p_list p))) (ded_truth v (p_ded p))) acc else acc)
             (0, 0, 0, 0) (v_pools v).

Definition type_truth (v : vam) (t : Z) : Z * Z * Z * Z :=
  badd (badd (match get_blist v (LDef t) with Some l => blocks_truth (bl_blocks l) | None => (0, 0, 0, 0) end)
             (pools_truth v t))
       (ded_truth v (get_dedlist v (LDef t))).

Lemma badd_0_l x : badd (0, 0, 0, 0) x = x.
Proof. destruct x as (((a1 & a2) & a3) & a4). reflexivity. Qed.
Lemma badd_0_r x : badd x (0, 0, 0, 0) = x.
Proof. destruct x as (((a1 & a2) & a3) & a4). cbn. apply pair4; lia. Qed.

Theorem stats_equal_truth c v t :
  VamInv c v -> exists d, type_dstats v t = Some d /\ basic d = type_truth v t.
Proof.
  intros HI. unfold type_dstats, type_truth.
  assert (H0 : exists d0, match get_blist v (LDef t) with Some l => blocks_dstats (bl_blocks l) dst_clear | None => Some dst_clear end = Some d0 /\
                 basic d0 = match get_blist v (LDef t) with Some l => blocks_truth (bl_blocks l) | None => (0, 0, 0, 0) end).
  { destruct (get_blist v (LDef t)) as [l|] eqn:G; [|exists dst_clear; split; reflexivity].
    destruct (blocks_dstats_basic (bl_blocks l) dst_clear (bw_meta _ _ (vi_lists _ _ _ _ HI _ _ G))) as (d & Hd & B).
    exists d. split; [auto|]. rewrite B. apply badd_0_l. }
  destruct H0 as (d0 & E0 & B0). rewrite E0. clear E0.
  assert (Hp : forall ps acc, (forall p, In p ps -> In p (v_pools v)) ->
            exists d, fold_left (fun acc p => match acc with
                                             | None => None
                                             | Some d => if bl_type (p_list p) =? t
                                                         then match blocks_dstats (bl_blocks (p_list p)) d with
                                                              | Some d1 => Some (dedicated_dstats v (p_ded p) d1)
                                                              | None => None end
                                                         else Some d end) ps (Some acc) = Some d /\
                      basic d = badd (basic acc)
                                  (fold_right (fun p acc => if bl_type (p_list p) =? t
                                     then badd (badd (blocks_truth (bl_blocks (p_list p))) (ded_truth v (p_ded p))) acc else acc)
                                     (0, 0, 0, 0) ps)).
  { induction ps as [|p ps IH]; intros acc Hin; cbn [fold_left fold_right].
    - exists acc. split; [reflexivity|]. symmetry. apply badd_0_r.
    - destruct (bl_type (p_list p) =? t) eqn:Et.
      + assert (G : get_blist v (LPool (p_uid p)) = Some (p_list p)).
        { cbn. pose proof (Hin p (or_introl eq_refl)) as Hp0.
          assert (F : find_pool (v_pools v) (p_uid p) = Some p).
          { clear - Hp0 HI. pose proof (vi_pools_nodup _ _ _ _ HI) as Hnd. revert Hnd Hp0. generalize (v_pools v).
            induction l as [|x l IHl]; cbn; [tauto|]. intros Hnd [->|H]; [rewrite Z.eqb_refl; reflexivity|].
            inversion Hnd as [|? ? Hx Hr]; subst. destruct (p_uid x =? p_uid p) eqn:E; [|auto].
            exfalso. apply Hx. apply Z.eqb_eq in E. rewrite E. apply in_map. auto. }
          rewrite F. reflexivity. }
        destruct (blocks_dstats_basic (bl_blocks (p_list p)) acc (bw_meta _ _ (vi_lists _ _ _ _ HI _ _ G))) as (d1 & H1 & B1).
        rewrite H1. destruct (IH (dedicated_dstats v (p_ded p) d1) (fun q Hq => Hin q (or_intror Hq))) as (d2 & H2 & B2).
        exists d2. split; [auto|]. rewrite B2, dedicated_dstats_basic, B1, !badd_assoc. reflexivity.
      + apply IH. intros q Hq. apply Hin. right. auto. }
  destruct (Hp (v_pools v) d0 (fun p H => H)) as (d1 & E1 & B1). rewrite E1.
  eexists. split; [reflexivity|]. rewrite dedicated_dstats_basic, B1, B0. reflexivity.
Qed.

(* ---------------------------------------------------------------- C20: a successful Allocator.Destroy leaves nothing behind *)

Lemma destroy_blocks_frame c bs : forall v ty v' r, destroy_blocks c v ty bs = (v', r) ->
  (forall lr, get_blist v' lr = get_blist v lr) /\ (forall lr, get_dedlist v' lr = get_dedlist v lr) /\ v_pools v' = v_pools v.
Proof.
  induction bs as [|b tl IH]; intros v ty v' r H; cbn [destroy_blocks] in H.
  - injection H as <- _. auto.
  - unfold destroy_block in H. destruct (negb (meta_is_empty (bk_meta b))).
    { injection H as <- _. auto. }
    destruct (free_vk c (v_m v) ty (meta_size (bk_meta b)) (bk_mem b)) as (m1 & r1).
    assert (F : (forall lr, get_blist (set_m v m1) lr = get_blist v lr) /\
                (forall lr, get_dedlist (set_m v m1) lr = get_dedlist v lr) /\ v_pools (set_m v m1) = v_pools v).
    { split; [intros; apply get_blist_set_m|]. split; [intros; apply get_dedlist_set_m|reflexivity]. }
    destruct r1 as [[]|code| |]; try (injection H as <- _; exact F).
    destruct (IH _ _ _ _ H) as (A & B & C0). destruct F as (A1 & B1 & C1).
    split; [intros; rewrite A; apply A1|]. split; [intros; rewrite B; apply B1|congruence].
Qed.

Lemma bl_destroy_other c v lr v' r : bl_destroy c v lr = (v', r) -> forall lr', lr' <> lr -> get_blist v' lr' = get_blist v lr'.
Proof.
  unfold bl_destroy. intros H lr' Hne. destruct (get_blist v lr) as [l|]; [|injection H as <- _; reflexivity].
  destruct (existsb _ _); [injection H as <- _; reflexivity|].
  destruct (destroy_blocks c v (bl_type l) (bl_blocks l)) as (v1 & r1) eqn:E.
  destruct (destroy_blocks_frame c _ _ _ _ _ E) as (A & _).
  destruct r1 as [[]|code| |]; try (injection H as <- _; apply A).
  destruct (get_blist v1 lr) as [l1|]; injection H as <- _; [|apply A].
  rewrite get_set_blist_other by congruence. apply A.
Qed.

Lemma destroy_lists_clean c (Hc : cfg_ok c) n : forall v t v',
  VamInv c v -> destroy_lists c v n t = (v', OK tt) ->
  (forall t0 l, t0 < t -> get_blist v (LDef t0) = Some l -> bl_blocks l = []) ->
  VamInv c v' /\ (forall lr, get_dedlist v' lr = get_dedlist v lr) /\ map p_uid (v_pools v') = map p_uid (v_pools v) /\
  (forall t0 l, t0 < t + Z.of_nat n -> get_blist v' (LDef t0) = Some l -> bl_blocks l = []).
Proof.
  induction n as [|k IH]; intros v t v' HI H Hdone; cbn [destroy_lists] in H.
  - injection H as <-. split; [auto|]. split; [auto|]. split; [auto|]. intros t0 l Ht. apply Hdone. lia.
  - destruct (get_blist v (LDef t)) as [l0|] eqn:G.
    + pose proof (bl_destroy_inv c v [] [] (LDef t) HI) as BD. pose proof (bl_destroy_other c v (LDef t)) as BO.
      destruct (bl_destroy c v (LDef t)) as (v1 & r1). specialize (BO _ _ eq_refl).
      destruct r1 as [[]|code| |]; try discriminate.
      destruct BD as ((I1 & T1 & L1) & l' & G' & E').
      destruct (IH v1 (t + 1) v' I1 H) as (A & B & C0 & D).
      { intros t0 l Ht Hg. destruct (Z.eq_dec t0 t) as [->|Hne]; [congruence|].
        rewrite BO in Hg by congruence. apply (Hdone t0); [lia|auto]. }
      split; [auto|]. split; [intros lr; rewrite B; apply (lf_ded _ _ L1)|]. split; [rewrite C0; apply (lf_uids _ _ L1)|].
      intros t0 l Ht. apply D. lia.
    + destruct (IH v (t + 1) v' HI H) as (A & B & C0 & D).
      { intros t0 l Ht Hg. destruct (Z.eq_dec t0 t) as [->|Hne]; [congruence|]. apply (Hdone t0); [lia|auto]. }
      split; [auto|]. split; [auto|]. split; [auto|]. intros t0 l Ht. apply D. lia.
Qed.

Lemma existsb_false_forall {A} (f : A -> bool) l : existsb f l = false -> forall x, In x l -> f x = false.
Proof.
  intros H x Hx. destruct (f x) eqn:E; [|reflexivity].
  assert (existsb f l = true) by (apply existsb_exists; exists x; auto). congruence.
Qed.

(* after a successful Allocator.Destroy the allocator holds no block, no pool, no dedicated allocation, the
   device holds no memory object at all, and no Allocation object is allocated *)
Theorem destroy_clean c v v' :
  cfg_ok c -> VamInv c v -> allocator_destroy c v = (v', OK tt) ->
  VamInv c v' /\ m_mems (v_m v') = [] /\ v_pools v' = [] /\
  (forall lr l, get_blist v' lr = Some l -> bl_blocks l = []) /\ (forall lr, get_dedlist v' lr = []) /\
  (forall s a, ~ slot_is v' s a).
Proof.
  intros Hc HI H. unfold allocator_destroy in H.
  destruct (existsb _ (v_ded v)) eqn:Ed; [discriminate|].
  destruct (v_pools v) as [|p ps] eqn:Ep; [|discriminate].
  destruct (existsb list_nonempty (v_lists v)) eqn:El; [discriminate|].
  destruct (destroy_lists_clean c Hc _ v 0 v' HI H) as (I' & D & P & B).
  { intros t0 l Ht Hg. cbn in Hg. unfold nth_z in Hg. destruct (t0 <? 0) eqn:E; [discriminate|]. apply Z.ltb_ge in E. lia. }
  assert (Hp : v_pools v' = []).
  { rewrite Ep in P. cbn in P. destruct (v_pools v'); [reflexivity|discriminate]. }
  assert (Hd : forall lr, get_dedlist v' lr = []).
  { intros lr. rewrite D. destruct lr as [t|uid]; cbn; [|rewrite Ep; reflexivity].
    destruct (nth_z (v_ded v) t) as [d|] eqn:E; [|reflexivity].
    pose proof (existsb_false_forall _ _ Ed d (nth_z_in _ _ _ E)) as F. destruct d; [reflexivity|discriminate]. }
  assert (Hb : forall lr l, get_blist v' lr = Some l -> bl_blocks l = []).
  { intros lr l Hg. destruct lr as [t|uid]; [|cbn in Hg; rewrite Hp in Hg; discriminate].
    apply (B t); [|exact Hg]. cbn in Hg. destruct (nth_z (v_lists v') t) as [x|] eqn:E; [|discriminate].
    apply nth_z_some_range in E. unfold zlen in E. rewrite (vi_lists_len _ _ _ _ I') in E. lia. }
  assert (Hs : forall s a, ~ slot_is v' s a).
  { intros s a Sa. destruct (vi_slots _ _ _ _ I' s a Sa (fun H => H)) as [(K & l & b & rg & G & Bk & _)|(K & [Hin|[]] & _)].
    - rewrite (Hb _ _ G) in Bk. destruct Bk.
    - rewrite Hd in Hin. destruct Hin. }
  split; [auto|]. split; [|auto].
  destruct (m_mems (v_m v')) as [|d ms] eqn:Em; [reflexivity|exfalso].
  destruct (vi_dev_owned _ _ _ _ I' d) as [(lr & l & b & G & Bk & _)|(s & a & Sa & _)].
  - rewrite Em. left. reflexivity.
  - rewrite (Hb _ _ G) in Bk. destruct Bk.
  - eapply Hs; eauto.
Qed.

(* with nothing allocated and no pool left, Allocator.Destroy never refuses (the budget's out-of-domain panic is
   the only other outcome; it is excluded for reachable states by the accounting invariant, see VamAcct) *)
Lemma destroy_lists_no_error c (Hc : cfg_ok c) n : forall v t v' code,
  VamInv c v -> (forall s a, ~ slot_is v s a) -> destroy_lists c v n t = (v', ER code) -> False.
Proof.
  induction n as [|k IH]; intros v t v' code HI Hno H; cbn [destroy_lists] in H; [discriminate|].
  destruct (get_blist v (LDef t)) as [l0|] eqn:G; [|eapply IH; eauto].
  pose proof (bl_destroy_inv c v [] [] (LDef t) HI) as BD.
  destruct (bl_destroy c v (LDef t)) as (v1 & r1). destruct r1 as [[]|code1| |]; try discriminate.
  - destruct BD as ((I1 & T1 & L1) & _). eapply (IH v1); eauto.
    intros s a Sa. apply (Hno s a). apply (proj1 (slot_is_frame v v1 [] s a T1 (fun H => H))). exact Sa.
  - destruct BD as (_ & l & b & G1 & B1 & E1).
    rewrite (unreferenced_blocks_empty c v (LDef t) l HI G1 (fun s a Sa _ => Hno s a Sa) b B1) in E1. discriminate.
Qed.

Theorem destroy_succeeds c v v' r :
  cfg_ok c -> VamInv c v -> (forall s a, ~ slot_is v s a) -> v_pools v = [] ->
  allocator_destroy c v = (v', r) -> r = OK tt \/ r = PANIC \/ r = STUCK.
Proof.
  intros Hc HI Hno Hp H. unfold allocator_destroy in H. rewrite Hp in H.
  destruct (existsb _ (v_ded v)) eqn:Ed.
  { exfalso. apply existsb_exists in Ed. destruct Ed as (d & Hd & Hne). destruct d as [|s tl]; [discriminate|].
    apply In_nth_error in Hd. destruct Hd as (n & Hn).
    assert (Hin : In s (get_dedlist v (LDef (Z.of_nat n)))).
    { cbn. unfold nth_z. destruct (Z.of_nat n <? 0) eqn:E; [apply Z.ltb_lt in E; lia|]. rewrite Nat2Z.id, Hn. left. reflexivity. }
    destruct (vi_dedlists _ _ _ _ HI _ _ Hin) as (a & Sa & _). eapply Hno; eauto. }
  destruct (existsb list_nonempty (v_lists v)) eqn:El.
  { exfalso. apply existsb_exists in El. destruct El as (o & Ho & Hne). destruct o as [l|]; [|discriminate].
    cbn in Hne. apply existsb_exists in Hne. destruct Hne as (b & Hb & Hn).
    apply In_nth_error in Ho. destruct Ho as (n & Hn').
    assert (G : get_blist v (LDef (Z.of_nat n)) = Some l).
    { cbn. unfold nth_z. destruct (Z.of_nat n <? 0) eqn:E; [apply Z.ltb_lt in E; lia|]. rewrite Nat2Z.id, Hn'. reflexivity. }
    rewrite (unreferenced_blocks_empty c v _ l HI G (fun s a Sa _ => Hno s a Sa) b Hb) in Hn. discriminate. }
  destruct r as [[]|code| |]; auto. exfalso. eapply destroy_lists_no_error; eauto.
Qed.

(* ---------------------------------------------------------------- C11: a dedicated allocation owns its memory object *)

(* the memory object of a dedicated allocation has exactly the allocation's size and type, starts at offset 0,
   and no other allocated Allocation object (block or dedicated) lives in it; nor is it the memory of any block *)
Theorem dedicated_own_memory c v s a :
  VamInv c v -> slot_is v s a -> a_kind a = 2 ->
  (exists d, find_mem (m_mems (v_m v)) (a_mem a) = Some d /\ dm_size d = a_size a /\ dm_type d = a_type a) /\
  find_offset v a = Some 0 /\
  (forall s' a', slot_is v s' a' -> s' <> s -> a_mem a' <> a_mem a) /\
  (forall lr l b, get_blist v lr = Some l -> In b (bl_blocks l) -> bk_mem b <> a_mem a).
Proof.
  intros HI Sa Ka.
  destruct (vi_slots _ _ _ _ HI s a Sa (fun H => H)) as [(K & _)|(_ & _ & _ & d & Hf & Hdt & Hds)]; [congruence|].
  split; [exists d; auto|]. split; [unfold find_offset; rewrite Ka; reflexivity|]. split.
  - intros s' a' Sa' Hne E.
    destruct (vi_slots _ _ _ _ HI s' a' Sa' (fun H => H)) as [(K' & l & b & rg & G & Bk & _ & _ & _ & _ & _ & _ & Hm & _)|(K' & _)].
    + apply (vi_ded_not_block _ _ _ _ HI s a _ _ _ Sa Ka G Bk). congruence.
    + apply Hne. eapply (vi_ded_inj _ _ _ _ HI); eauto.
  - intros lr l b G Bk E. apply (vi_ded_not_block _ _ _ _ HI s a _ _ _ Sa Ka G Bk). congruence.
Qed.
