(* VamProps.v — reachable states of the allocator model and the state-level properties that follow from the
   representation invariant: C02 (every Allocation denotes a valid, aligned, exclusive range of live memory). *)
From Coq Require Import ZArith NArith List Bool Lia.
From Arsenal Require Util Bits SyncMem Budget Select.
From Arsenal Require Import VamDev VamBlockList VamDefrag Vam VamInvMeta VamInv VamInvUpd VamInvDev VamInvStep VamInvStep2 VamInvThm.
Import ListNotations.
Open Scope Z_scope.

(* all histories: allocator creation, then any API calls in the API domain with any fault oracles *)
Inductive reach (c : vcfg) : vam -> Prop :=
| reach_new nslots v : vam_new c nslots = OK v -> reach c v
| reach_step v o f v' r calls :
    reach c v -> op_ok v o -> step c v o f = (v', r, calls) -> r <> RPanic -> r <> RStuck -> reach c v'.

Theorem reach_inv c v : cfg_ok c -> reach c v -> VamInv c v.
Proof.
  intros Hc R. induction R as [nslots v H|v o f v' r calls R IH Hok Hs Hp Hk].
  - eapply vam_new_inv; eauto.
  - pose proof (step_preserves c Hc v o f IH Hok) as P. rewrite Hs in P. apply P; auto.
Qed.

(* ---------------------------------------------------------------- C02 *)

Lemma block_alloc_facts c v s a :
  VamInv c v -> slot_is v s a -> a_kind a = 1 ->
  exists l b rg, get_blist v (a_lref a) = Some l /\ In b (bl_blocks l) /\ get_block v (a_lref a) (a_blk a) = Some b /\
    In rg (meta_live (bk_meta b)) /\ rg_handle rg = a_handle a /\ rg_tag rg = Some s /\ rg_size rg = a_size a /\
    rg_align rg = a_align a /\ a_mem a = bk_mem b /\ a_type a = bl_type l /\ MInv (bk_meta b) /\
    find_offset v a = Some (rg_off rg).
Proof.
  intros HI Sa K. destruct (vi_slots _ _ _ _ HI s a Sa (fun H => H)) as [(_ & l & b & rg & G & B & Hid & Hrg & R)|(K2 & _)]; [|congruence].
  pose proof (vi_lists _ _ _ _ HI _ _ G) as Hwf. pose proof (bw_meta _ _ Hwf) as Hm. rewrite Forall_forall in Hm.
  assert (Hgb : get_block v (a_lref a) (a_blk a) = Some b).
  { unfold get_block. rewrite G, <- Hid. apply in_find_block; [apply (bw_nodup _ _ Hwf)|auto]. }
  destruct R as (R1 & R2 & R3 & R4 & R5 & R6).
  exists l, b, rg. repeat split; auto.
  unfold find_offset. rewrite K, Hgb. cbn. rewrite <- R1. apply meta_offset_live; auto.
Qed.

(* every allocated Allocation object denotes a range inside a live memory object of its memory type *)
Theorem alloc_denotes_valid_range c v :
  VamInv c v -> forall s a, slot_is v s a ->
  exists d off,
    find_mem (m_mems (v_m v)) (a_mem a) = Some d /\ dm_type d = a_type a /\
    find_offset v a = Some off /\ 0 <= off /\ 0 < a_size a /\ off + a_size a <= dm_size d /\
    (a_kind a = 1 -> 0 < a_align a /\ off mod a_align a = 0) /\
    (a_kind a = 2 -> off = 0 /\ a_size a = dm_size d).
Proof.
  intros HI s a Sa. destruct (vi_slots _ _ _ _ HI s a Sa (fun H => H)) as [(K & _)|(K & _ & _ & d & Hf & Ht & Hz)].
  - destruct (block_alloc_facts c v s a HI Sa K) as (l & b & rg & G & B & Hgb & Hrg & Hh & Htag & Hsz & Hal & Hmem & Hty & Hmi & Hoff).
    destruct (vi_block_mem _ _ _ _ HI _ _ _ G B) as (d & Hf & Hdt & Hds).
    destruct (meta_live_sound _ Hmi) as (Hb & _ & _). destruct (Hb rg Hrg) as (H1 & H2 & H3 & H4 & H5).
    exists d, (rg_off rg). rewrite Hmem. split; [auto|]. split; [congruence|]. split; [auto|]. split; [auto|].
    split; [lia|]. split; [lia|]. split; [intros _; rewrite <- Hal; auto|intros K2; congruence].
  - exists d, 0. split; [auto|]. split; [auto|]. split; [unfold find_offset; rewrite K; reflexivity|]. split; [lia|].
    pose proof (vi_dev_pos _ _ _ _ HI) as Hp. rewrite Forall_forall in Hp. destruct (find_mem_in _ _ _ Hf) as (Hd & _).
    specialize (Hp d Hd). split; [lia|]. split; [lia|]. split; [intros K1; congruence|intros _; split; [reflexivity|lia]].
Qed.

(* two different Allocation objects never overlap inside one memory object *)
Theorem alloc_no_overlap c v :
  VamInv c v -> forall s1 a1 s2 a2, slot_is v s1 a1 -> slot_is v s2 a2 -> s1 <> s2 -> a_mem a1 = a_mem a2 ->
  forall o1 o2, find_offset v a1 = Some o1 -> find_offset v a2 = Some o2 ->
  o1 + a_size a1 <= o2 \/ o2 + a_size a2 <= o1.
Proof.
  intros HI s1 a1 s2 a2 S1 S2 Hne Hmem o1 o2 O1 O2.
  destruct (vi_slots _ _ _ _ HI s1 a1 S1 (fun H => H)) as [(K1 & _)|(K1 & _)];
    destruct (vi_slots _ _ _ _ HI s2 a2 S2 (fun H => H)) as [(K2 & _)|(K2 & _)].
  - destruct (block_alloc_facts c v s1 a1 HI S1 K1) as (l1 & b1 & r1 & G1 & B1 & _ & R1 & H1 & T1 & Z1 & _ & M1 & _ & Mi1 & F1).
    destruct (block_alloc_facts c v s2 a2 HI S2 K2) as (l2 & b2 & r2 & G2 & B2 & _ & R2 & H2 & T2 & Z2 & _ & M2 & _ & Mi2 & F2).
    destruct (vi_block_mem_inj _ _ _ _ HI _ _ _ _ _ _ G1 B1 G2 B2 ltac:(congruence)) as (El & Eb).
    rewrite El in G1. assert (l1 = l2) by congruence. subst l2.
    assert (b1 = b2).
    { pose proof (vi_lists _ _ _ _ HI _ _ G1) as Hwf. pose proof (in_find_block _ _ (bw_nodup _ _ Hwf) B1) as X1.
      pose proof (in_find_block _ _ (bw_nodup _ _ Hwf) B2) as X2. rewrite Eb in X1. congruence. }
    subst b2. destruct (meta_live_sound _ Mi1) as (_ & Hnd & Hdis).
    assert (Hh : rg_handle r1 <> rg_handle r2).
    { intros E. assert (r1 = r2).
      { clear - Hnd R1 R2 E. revert Hnd R1 R2. generalize (meta_live (bk_meta b1)). induction l as [|x l IH]; cbn; [tauto|].
        intros Hnd [->|I1] [->|I2]; auto.
        - inversion Hnd; subst. exfalso. apply H1. rewrite E. apply in_map. auto.
        - inversion Hnd; subst. exfalso. apply H1. rewrite <- E. apply in_map. auto.
        - inversion Hnd; subst. auto. }
      subst. rewrite T1 in T2. injection T2 as ->. contradiction. }
    specialize (Hdis r1 r2 R1 R2 Hh). unfold rg_disjoint in Hdis. rewrite F1 in O1. rewrite F2 in O2.
    injection O1 as <-. injection O2 as <-. lia.
  - exfalso. destruct (block_alloc_facts c v s1 a1 HI S1 K1) as (l1 & b1 & _ & G1 & B1 & _ & _ & _ & _ & _ & _ & M1 & _).
    eapply (vi_ded_not_block _ _ _ _ HI s2 a2); eauto. congruence.
  - exfalso. destruct (block_alloc_facts c v s2 a2 HI S2 K2) as (l2 & b2 & _ & G2 & B2 & _ & _ & _ & _ & _ & _ & M2 & _).
    eapply (vi_ded_not_block _ _ _ _ HI s1 a1); eauto. congruence.
  - exfalso. apply Hne. eapply vi_ded_inj; eauto.
Qed.

(* an Allocation made from a custom pool lies in memory of the pool's memory type; one made from the
   default lists lies in the default list of its own type *)
Theorem alloc_list_type c v :
  VamInv c v -> forall s a, slot_is v s a -> exists l, get_blist v (a_lref a) = Some l /\ bl_type l = a_type a.
Proof.
  intros HI s a Sa. destruct (vi_slots _ _ _ _ HI s a Sa (fun H => H)) as [(K & l & b & rg & G & _ & _ & _ & _ & _ & _ & _ & _ & T)|(K & _ & (l & G & T) & _)];
    exists l; split; auto.
Qed.

(* ---------------------------------------------------------------- C20 (the parts that need only VamInv) *)

Theorem pool_ids_distinct c v : VamInv c v -> NoDup (map p_id (v_pools v)) /\ NoDup (map p_uid (v_pools v)).
Proof. intros HI. split; [apply (vi_pools_id _ _ _ _ HI)|apply (vi_pools_nodup _ _ _ _ HI)]. Qed.

Lemma existsb_nth_z {A} (f : A -> bool) (l : list A) i x : nth_z l i = Some x -> f x = true -> existsb f l = true.
Proof. intros H Hf. apply existsb_exists. exists x. split; [eapply nth_z_in; eauto|auto]. Qed.

(* a live allocation makes Allocator.Destroy fail without touching anything *)
Theorem destroy_refuses_live c v s a :
  VamInv c v -> slot_is v s a -> allocator_destroy c v = (v, ER 0).
Proof.
  intros HI Sa. unfold allocator_destroy.
  destruct (vi_slots _ _ _ _ HI s a Sa (fun H => H)) as [(K & l & b & rg & G & B & _ & Hrg & _)|(K & [Hin|[]] & _)].
  - (* block allocation: its block is not empty *)
    assert (Hne : meta_is_empty (bk_meta b) = false).
    { pose proof (vi_lists _ _ _ _ HI _ _ G) as Hwf. pose proof (bw_meta _ _ Hwf) as Hm. rewrite Forall_forall in Hm.
      destruct (meta_bookkeeping _ (Hm _ B)) as (_ & _ & He). destruct (meta_is_empty (bk_meta b)); [|reflexivity].
      rewrite (proj1 He eq_refl) in Hrg. destruct Hrg. }
    destruct (existsb _ (v_ded v)); [reflexivity|].
    destruct (a_lref a) as [t|uid] eqn:El; cbn in G.
    + destruct (v_pools v); [|reflexivity].
      destruct (nth_z (v_lists v) t) as [[x|]|] eqn:E; try discriminate. injection G as ->.
      rewrite (existsb_nth_z list_nonempty _ _ _ E); [reflexivity|].
      cbn. apply existsb_exists. exists b. rewrite Hne. auto.
    + destruct (find_pool (v_pools v) uid) as [p|] eqn:E; [|discriminate]. destruct (v_pools v); [discriminate|reflexivity].
  - (* dedicated allocation: its list is not empty *)
    destruct (a_lref a) as [t|uid] eqn:El; cbn in Hin.
    + destruct (nth_z (v_ded v) t) as [d|] eqn:E; [|destruct Hin].
      rewrite (existsb_nth_z (fun d => match d with [] => false | _ => true end) _ _ _ E); [reflexivity|].
      destruct d; [destruct Hin|reflexivity].
    + destruct (existsb _ (v_ded v)); [reflexivity|].
      destruct (find_pool (v_pools v) uid) as [p|] eqn:E; [|destruct Hin]. destruct (v_pools v); [discriminate|reflexivity].
Qed.

(* a pool with a live allocation cannot be destroyed *)
Theorem pool_destroy_refuses_live c v s a uid :
  VamInv c v -> slot_is v s a -> a_lref a = LPool uid -> pool_destroy c v uid = (v, ER 0).
Proof.
  intros HI Sa El. unfold pool_destroy.
  destruct (vi_slots _ _ _ _ HI s a Sa (fun H => H)) as [(K & l & b & rg & G & B & _ & Hrg & _)|(K & [Hin|[]] & _)];
    rewrite El in *; cbn in *.
  - destruct (find_pool (v_pools v) uid) as [p|] eqn:E; [|discriminate]. injection G as <-.
    destruct (p_ded p); [|reflexivity]. unfold bl_destroy. cbn. rewrite E.
    assert (Hne : meta_is_empty (bk_meta b) = false).
    { assert (G' : get_blist v (LPool uid) = Some (p_list p)) by (cbn; rewrite E; reflexivity).
      pose proof (vi_lists _ _ _ _ HI _ _ G') as Hwf. pose proof (bw_meta _ _ Hwf) as Hm. rewrite Forall_forall in Hm.
      destruct (meta_bookkeeping _ (Hm _ B)) as (_ & _ & He). destruct (meta_is_empty (bk_meta b)); [|reflexivity].
      rewrite (proj1 He eq_refl) in Hrg. destruct Hrg. }
    assert (Hex : existsb (fun b0 => negb (meta_is_empty (bk_meta b0))) (bl_blocks (p_list p)) = true).
    { apply existsb_exists. exists b. rewrite Hne. auto. }
    rewrite Hex. reflexivity.
  - destruct (find_pool (v_pools v) uid) as [p|] eqn:E; [|destruct Hin]. destruct (p_ded p); [destruct Hin|reflexivity].
Qed.
