(* Linear.v — executable model of memutils/metadata/linear.go (default build, DebugMargin = 0).

   Representation.  The two Go slices suballocations0 / suballocations1 are the lists l_v0 / l_v1;
   firstVectorIndex (0 or 1) is the boolean l_swapped, flipped where Go does `firstVectorIndex ^= 1`.
   `first` / `second` are accessSuballocationsFirst / accessSuballocationsSecond.  A Suballocation is
   a `sub`; Type 0 marks a lazily deleted ("null") item.  Handles are offset+1 exactly as in Go.
   sumFreeSize, secondVectorMode and the three null-item counters are explicit state and are updated
   the way the Go code updates them.

   Go loops that walk a slice by index are modelled by structural recursion over the part of the
   slice the loop walks (a suffix `skipn i v`, or `rev v` for the loops that run from the last index
   down to 0).  Every Go panic site (explicit panic(...), slice index out of range, slice bounds out
   of range, integer division by zero) is an explicit "panic" result (None or a *Panic constructor).
   Slice capacity is not modelled: no behaviour of linear.go depends on it.

   When an operation panics the model reports RPanic and returns the state it started from (like
   Tlsf.v); the partially updated state the Go object is left in after a recovered panic is not
   modelled. *)
From Coq Require Import ZArith List Bool Lia.
From Arsenal Require Import Util Gran.
Import ListNotations.
Open Scope Z_scope.

(* ---------------------------------------------------------------- state *)

(* Go: Suballocation *)
Record sub := mkSub {
  s_off : Z;
  s_size : Z;
  s_tag : option Z;         (* user data; None = nil *)
  s_type : Z;               (* 0 = freed item *)
  (* ghost fields (do not influence behaviour): what was requested for this allocation *)
  s_reqsize : Z;
  s_reqalign : Z
}.

Definition is_free (s : sub) : bool := s_type s =? 0.

(* Go: suballoc.Type = 0; suballoc.UserData = nil *)
Definition mark_free (s : sub) : sub :=
  mkSub (s_off s) (s_size s) None 0 (s_reqsize s) (s_reqalign s).

Definition set_tag (tag : option Z) (s : sub) : sub :=
  mkSub (s_off s) (s_size s) tag (s_type s) (s_reqsize s) (s_reqalign s).

(* Go: secondVectorMode *)
Inductive mode := MEmpty | MRing | MDouble.

Definition mode_eqb (a b : mode) : bool :=
  match a, b with
  | MEmpty, MEmpty | MRing, MRing | MDouble, MDouble => true
  | _, _ => false
  end.

(* Go: LinearBlockMetadata (with the BlockMetadataBase fields size, allocationGranularity,
   granularityHandler) *)
Record linear := mkL {
  l_size : Z;
  l_gran : Z;               (* m.allocationGranularity *)
  l_h : gran;               (* m.granularityHandler; only AllocationsConflict is ever called *)
  l_v0 : list sub;          (* m.suballocations0 *)
  l_v1 : list sub;          (* m.suballocations1 *)
  l_swapped : bool;         (* m.firstVectorIndex != 0 *)
  l_mode : mode;
  l_sum_free : Z;
  l_null_begin : Z;         (* m.firstNullItemsBeginCount *)
  l_null_middle : Z;        (* m.firstNullItemsMiddleCount *)
  l_null_second : Z         (* m.secondNullItemsCount *)
}.

(* Go: NewLinearBlockMetadata + Init *)
Definition linear_init (h : handler) (gr size : Z) : linear :=
  mkL size gr (gran_init h gr size) [] [] false MEmpty size 0 0 0.

(* Go: accessSuballocationsFirst / accessSuballocationsSecond *)
Definition first (l : linear) : list sub := if l_swapped l then l_v1 l else l_v0 l.
Definition second (l : linear) : list sub := if l_swapped l then l_v0 l else l_v1 l.

(* *m.accessSuballocationsFirst() = v *)
Definition with_first (l : linear) (v : list sub) : linear :=
  if l_swapped l
  then mkL (l_size l) (l_gran l) (l_h l) (l_v0 l) v (l_swapped l) (l_mode l) (l_sum_free l)
           (l_null_begin l) (l_null_middle l) (l_null_second l)
  else mkL (l_size l) (l_gran l) (l_h l) v (l_v1 l) (l_swapped l) (l_mode l) (l_sum_free l)
           (l_null_begin l) (l_null_middle l) (l_null_second l).

(* *m.accessSuballocationsSecond() = v *)
Definition with_second (l : linear) (v : list sub) : linear :=
  if l_swapped l
  then mkL (l_size l) (l_gran l) (l_h l) v (l_v1 l) (l_swapped l) (l_mode l) (l_sum_free l)
           (l_null_begin l) (l_null_middle l) (l_null_second l)
  else mkL (l_size l) (l_gran l) (l_h l) (l_v0 l) v (l_swapped l) (l_mode l) (l_sum_free l)
           (l_null_begin l) (l_null_middle l) (l_null_second l).

Definition with_mode (l : linear) (m : mode) : linear :=
  mkL (l_size l) (l_gran l) (l_h l) (l_v0 l) (l_v1 l) (l_swapped l) m (l_sum_free l)
      (l_null_begin l) (l_null_middle l) (l_null_second l).

Definition with_sum_free (l : linear) (f : Z) : linear :=
  mkL (l_size l) (l_gran l) (l_h l) (l_v0 l) (l_v1 l) (l_swapped l) (l_mode l) f
      (l_null_begin l) (l_null_middle l) (l_null_second l).

Definition with_nulls (l : linear) (nb nm ns : Z) : linear :=
  mkL (l_size l) (l_gran l) (l_h l) (l_v0 l) (l_v1 l) (l_swapped l) (l_mode l) (l_sum_free l)
      nb nm ns.

(* m.firstVectorIndex ^= 1 *)
Definition swap_vectors (l : linear) : linear :=
  mkL (l_size l) (l_gran l) (l_h l) (l_v0 l) (l_v1 l) (negb (l_swapped l)) (l_mode l) (l_sum_free l)
      (l_null_begin l) (l_null_middle l) (l_null_second l).

(* ---------------------------------------------------------------- slice helpers *)

(* v[i]; None = index out of range (Go panics) *)
Definition nth_z (v : list sub) (i : Z) : option sub :=
  if i <? 0 then None else nth_error v (Z.to_nat i).

(* v[len(v)-1]; None = empty slice (Go panics with index -1) *)
Definition last_z (v : list sub) : option sub := nth_z v (zlen v - 1).

(* the items v[i], v[i+1], ... a loop starting at index i walks; None = i is negative (the first
   v[i] such a loop evaluates panics) *)
Definition suffix_from (v : list sub) (i : Z) : option (list sub) :=
  if i <? 0 then None else Some (skipn (Z.to_nat i) v).

(* v[i] = f(v[i]) for an index already known to be in range *)
Definition set_nth_z (v : list sub) (i : Z) (f : sub -> sub) : list sub :=
  update_nth (Z.to_nat i) f v.

(* ---------------------------------------------------------------- sort.Find *)

(* Go (package sort):  i, j := 0, n; for i < j { h := int(uint(i+j) >> 1);
                        if cmp(h) > 0 { i = h + 1 } else { j = h } }
   cmp returns None when the probe indexes out of range (panic).  The interval shrinks on every
   iteration, so S n units of fuel always suffice; running out of fuel is reported as None. *)
Fixpoint find_loop (cmp : Z -> option Z) (i j : Z) (fuel : nat) : option Z :=
  match fuel with
  | O => None
  | S f =>
    if i <? j then
      let h := Z.shiftr (i + j) 1 in
      match cmp h with
      | None => None
      | Some c => if c >? 0 then find_loop cmp (h + 1) j f else find_loop cmp i h f
      end
    else Some i
  end.

(* Go: sort.Find(n, cmp) = (i, i < n && cmp(i) == 0); None = a probe panicked *)
Definition sort_find (n : Z) (cmp : Z -> option Z) : option (Z * bool) :=
  match find_loop cmp 0 n (S (Z.to_nat n)) with
  | None => None
  | Some i =>
    if i <? n then
      match cmp i with
      | None => None
      | Some c => Some (i, c =? 0)
      end
    else Some (i, false)
  end.

(* ---------------------------------------------------------------- counters *)

(* Go: AllocationCount *)
Definition allocation_count (l : linear) : Z :=
  zlen (first l) - l_null_begin l - l_null_middle l + zlen (second l) - l_null_second l.

(* Go: IsEmpty *)
Definition is_empty (l : linear) : bool := allocation_count l =? 0.

(* Go: SumFreeSize *)
Definition sum_free_size (l : linear) : Z := l_sum_free l.

(* Go: MayHaveFreeBlock *)
Definition may_have_free (l : linear) (atype size : Z) : bool := size <=? l_sum_free l.

(* ---------------------------------------------------------------- cleanupAfterFree *)

(* Go: shouldCompactFirstVector *)
Definition should_compact (l : linear) : bool :=
  let nulls := l_null_begin l + l_null_middle l in
  let n := zlen (first l) in
  (n >? 32) && (nulls * 2 >=? (n - nulls) * 3).

(* Go: for begin < len(v) && v[begin].Type == 0 { begin++; middle-- }
   `items` is v[begin:]; the result is how many times the body runs. *)
Fixpoint count_leading_free (items : list sub) : Z :=
  match items with
  | [] => 0
  | s :: rest => if is_free s then 1 + count_leading_free rest else 0
  end.

(* the loop above on vector v starting from counters (nb, nm); None = nb negative (v[nb] panics) *)
Definition absorb_leading_free (v : list sub) (nb nm : Z) : option (Z * Z) :=
  match suffix_from v nb with
  | None => None
  | Some items => let k := count_leading_free items in Some (nb + k, nm - k)
  end.

(* Go: for n > 0 && v[len(v)-1].Type == 0 { n--; v = v[:len(v)-1] }   on the reversed vector.
   None = v became empty while n > 0 (v[-1] panics) *)
Fixpoint trim_tail_rev (rv : list sub) (n : Z) : option (list sub * Z) :=
  match rv with
  | [] => if n >? 0 then None else Some ([], n)
  | s :: rest =>
    if n >? 0 then
      if is_free s then trim_tail_rev rest (n - 1) else Some (rv, n)
    else Some (rv, n)
  end.

(* "Find more null items at the end of the first / second vector" *)
Definition trim_tail (v : list sub) (n : Z) : option (list sub * Z) :=
  match trim_tail_rev (rev v) n with
  | None => None
  | Some (rv, n') => Some (rev rv, n')
  end.

(* Go: removeFromBeginning := 0
       for n > 0 && v[removeFromBeginning].Type == 0 { n--; removeFromBeginning++ }
       v = v[removeFromBeginning:]
   None = ran off the end of v while n > 0 (index out of range) *)
Fixpoint trim_front (v : list sub) (n : Z) : option (list sub * Z) :=
  match v with
  | [] => if n >? 0 then None else Some ([], n)
  | s :: rest =>
    if n >? 0 then
      if is_free s then trim_front rest (n - 1) else Some (v, n)
    else Some (v, n)
  end.

(* Go: for firstVector[srcIndex].Type == 0 { srcIndex++ }  followed by the read of
   firstVector[srcIndex]; `items` is firstVector[srcIndex:].  Returns the live item found and the
   items after it; None = ran off the end (index out of range) *)
Fixpoint next_live (items : list sub) : option (sub * list sub) :=
  match items with
  | [] => None
  | s :: rest => if is_free s then next_live rest else Some (s, rest)
  end.

(* Go: the compaction loop  for dstIndex := 0; dstIndex < nonNullItemCount; dstIndex++ {...}.
   It copies in place, but dstIndex <= srcIndex throughout, so every read sees the original
   item; after the loop firstVector[:nonNullItemCount] holds exactly the items returned here. *)
Fixpoint compact_loop (items : list sub) (n : nat) : option (list sub) :=
  match n with
  | O => Some []
  | S n' =>
    match next_live items with
    | None => None
    | Some (s, rest) =>
      match compact_loop rest n' with
      | None => None
      | Some out => Some (s :: out)
      end
    end
  end.

(* Go: the `if m.shouldCompactFirstVector() {...}` block of cleanupAfterFree *)
Definition compact_first (l : linear) : option linear :=
  if should_compact l then
    let fv := first l in
    let non_null := zlen fv - l_null_begin l - l_null_middle l in
    if non_null <? 0 then None (* firstVector[:nonNullItemCount]: slice bounds out of range *) else
    match suffix_from fv (l_null_begin l) with
    | None => None
    | Some items =>
      match compact_loop items (Z.to_nat non_null) with
      | None => None
      | Some out => Some (with_nulls (with_first l out) 0 0 (l_null_second l))
      end
    end
  else Some l.

(* Go: the `if len(secondVector) > 0 && m.secondVectorMode == SecondVectorModeRingBuffer {...}`
   block ("Swap vectors") at the end of cleanupAfterFree *)
Definition swap_if_ring (l : linear) : option linear :=
  if (zlen (second l) >? 0) && mode_eqb (l_mode l) MRing then
    match absorb_leading_free (second l) (l_null_begin l) (l_null_second l) with
    | None => None
    | Some (nb, nm) => Some (swap_vectors (with_nulls (with_mode l MEmpty) nb nm 0))
    end
  else Some l.

(* Go: the `if len(firstVector)-m.firstNullItemsBeginCount == 0 {...}` block ("First vector became
   empty") *)
Definition first_became_empty (l : linear) : option linear :=
  if zlen (first l) - l_null_begin l =? 0 then
    swap_if_ring (with_nulls (with_first l []) 0 (l_null_middle l) (l_null_second l))
  else Some l.

(* Go: cleanupAfterFree.  None = panic *)
Definition cleanup_after_free (l : linear) : option linear :=
  if is_empty l then
    Some (with_mode (with_nulls (with_second (with_first l []) []) 0 0 0) MEmpty)
  else
  if l_null_begin l + l_null_middle l >? zlen (first l) then None (* explicit panic(...) *) else
  (* find more null items at the beginning of the first vector *)
  match absorb_leading_free (first l) (l_null_begin l) (l_null_middle l) with
  | None => None
  | Some (nb, nm0) =>
    (* find more null items at the end of the first vector *)
    match trim_tail (first l) nm0 with
    | None => None
    | Some (fv, nm) =>
      (* find more null items at the end of the second vector *)
      match trim_tail (second l) (l_null_second l) with
      | None => None
      | Some (sv0, ns0) =>
        (* find more null items at the beginning of the second vector *)
        match trim_front sv0 ns0 with
        | None => None
        | Some (sv, ns) =>
          let l1 := with_nulls (with_second (with_first l fv) sv) nb nm ns in
          match compact_first l1 with
          | None => None
          | Some l2 =>
            let l3 := if zlen (second l2) =? 0 then with_mode l2 MEmpty else l2 in
            first_became_empty l3
          end
        end
      end
    end
  end.

(* ---------------------------------------------------------------- Free *)

Inductive freeres := FOk (l' : linear) | FError | FPanic.

(* outcome of one of the cases Free tries in turn *)
Inductive tryres := TDone (l' : linear) | TSkip | TPanic.

(* m.cleanupAfterFree(); return nil *)
Definition finish_free (l : linear) : tryres :=
  match cleanup_after_free l with
  | Some l' => TDone l'
  | None => TPanic
  end.

(* Go: Free, "We're freeing the first allocation, mark it as empty at the beginning" *)
Definition free_first_item (l : linear) (offset : Z) : tryres :=
  let fv := first l in
  if zlen fv >? 0 then
    match nth_z fv (l_null_begin l) with
    | None => TPanic
    | Some s =>
      if s_off s =? offset then
        let l1 := with_first l (set_nth_z fv (l_null_begin l) mark_free) in
        let l2 := with_sum_free l1 (l_sum_free l + s_size s) in
        finish_free (with_nulls l2 (l_null_begin l + 1) (l_null_middle l) (l_null_second l))
      else TSkip
    end
  else TSkip.

(* Go: Free, "Last allocation in a ring buffer or top of upper stack" / "Last allocation in first
   vector" *)
Definition free_last_item (l : linear) (offset : Z) : tryres :=
  match l_mode l with
  | MRing | MDouble =>
    match last_z (second l) with
    | None => TPanic
    | Some s =>
      if s_off s =? offset then
        finish_free (with_second (with_sum_free l (l_sum_free l + s_size s)) (removelast (second l)))
      else TSkip
    end
  | MEmpty =>
    match last_z (first l) with
    | None => TPanic
    | Some s =>
      if s_off s =? offset then
        finish_free (with_first (with_sum_free l (l_sum_free l + s_size s)) (removelast (first l)))
      else TSkip
    end
  end.

(* comparison callback of the searches over the live window of the first vector:
   offset - firstVector[virtualIndex + firstNullItemsBeginCount].Offset *)
Definition cmp_first (l : linear) (offset : Z) (virtualIndex : Z) : option Z :=
  match nth_z (first l) (virtualIndex + l_null_begin l) with
  | None => None
  | Some s => Some (offset - s_off s)
  end.

(* comparison callback of the searches over the second vector: ascending offsets in a ring
   buffer, descending offsets in a double stack *)
Definition cmp_second (l : linear) (offset : Z) (index : Z) : option Z :=
  match nth_z (second l) index with
  | None => None
  | Some s =>
    match l_mode l with
    | MDouble => Some (s_off s - offset)
    | _ => Some (offset - s_off s)
    end
  end.

(* Go: Free, "Item from the middle of first vector" *)
Definition free_middle_first (l : linear) (offset : Z) : tryres :=
  let fv := first l in
  match sort_find (zlen fv - l_null_begin l) (cmp_first l offset) with
  | None => TPanic
  | Some (_, false) => TSkip
  | Some (vi, true) =>
    let out := vi + l_null_begin l in
    match nth_z fv out with
    | None => TPanic
    | Some s =>
      let l1 := with_first l (set_nth_z fv out mark_free) in
      let l2 := with_nulls l1 (l_null_begin l) (l_null_middle l + 1) (l_null_second l) in
      finish_free (with_sum_free l2 (l_sum_free l + s_size s))
    end
  end.

(* Go: Free, "Item from the middle of second vector" *)
Definition free_middle_second (l : linear) (offset : Z) : tryres :=
  if mode_eqb (l_mode l) MEmpty then TSkip else
  let sv := second l in
  match sort_find (zlen sv) (cmp_second l offset) with
  | None => TPanic
  | Some (_, false) => TSkip
  | Some (out, true) =>
    match nth_z sv out with
    | None => TPanic
    | Some s =>
      let l1 := with_second l (set_nth_z sv out mark_free) in
      let l2 := with_nulls l1 (l_null_begin l) (l_null_middle l) (l_null_second l + 1) in
      finish_free (with_sum_free l2 (l_sum_free l + s_size s))
    end
  end.

Definition or_try (a : tryres) (b : tryres) : tryres :=
  match a with TSkip => b | _ => a end.

(* Go: Free *)
Definition lin_free (l : linear) (handle : Z) : freeres :=
  let offset := handle - 1 in
  match or_try (free_first_item l offset)
       (or_try (free_last_item l offset)
       (or_try (free_middle_first l offset)
               (free_middle_second l offset))) with
  | TDone l' => FOk l'
  | TSkip => FError
  | TPanic => FPanic
  end.

(* ---------------------------------------------------------------- findSuballocation, user data *)

Inductive findres := FoundFirst (index : Z) | FoundSecond (index : Z) | NotFound | FindPanic.

(* Go: findSuballocation *)
Definition find_suballocation (l : linear) (offset : Z) : findres :=
  match sort_find (zlen (first l) - l_null_begin l) (cmp_first l offset) with
  | None => FindPanic
  | Some (vi, true) => FoundFirst (vi + l_null_begin l)
  | Some (_, false) =>
    if mode_eqb (l_mode l) MEmpty then NotFound else
    match sort_find (zlen (second l)) (cmp_second l offset) with
    | None => FindPanic
    | Some (i, true) => FoundSecond i
    | Some (_, false) => NotFound
    end
  end.

Inductive udres := UDOk (tag : option Z) | UDError | UDPanic.

(* Go: AllocationUserData *)
Definition get_user_data (l : linear) (handle : Z) : udres :=
  match find_suballocation l (handle - 1) with
  | FoundFirst i => match nth_z (first l) i with Some s => UDOk (s_tag s) | None => UDPanic end
  | FoundSecond i => match nth_z (second l) i with Some s => UDOk (s_tag s) | None => UDPanic end
  | NotFound => UDError
  | FindPanic => UDPanic
  end.

Inductive setres := SetOk (l' : linear) | SetError | SetPanic.

(* Go: SetAllocationUserData *)
Definition set_user_data (l : linear) (handle : Z) (tag : option Z) : setres :=
  match find_suballocation l (handle - 1) with
  | FoundFirst i =>
    match nth_z (first l) i with
    | Some _ => SetOk (with_first l (set_nth_z (first l) i (set_tag tag)))
    | None => SetPanic
    end
  | FoundSecond i =>
    match nth_z (second l) i with
    | Some _ => SetOk (with_second l (set_nth_z (second l) i (set_tag tag)))
    | None => SetPanic
    end
  | NotFound => SetError
  | FindPanic => SetPanic
  end.

(* Go: AllocationOffset (never fails) *)
Definition allocation_offset (handle : Z) : Z := handle - 1.

(* Go: Clear *)
Definition lin_clear (l : linear) : linear :=
  mkL (l_size l) (l_gran l) (l_h l) [] [] (l_swapped l) MEmpty (l_size l) 0 0 0.

(* ---------------------------------------------------------------- CreateAllocationRequest *)

(* Go: blocksOnSamePage.  None = one of the three explicit panics *)
Definition blocks_on_same_page (off1 size1 off2 pagesize : Z) : option bool :=
  if off1 + size1 >? off2 then None else
  if size1 <? 1 then None else
  if pagesize <? 1 then None else
  let end1 := off1 + size1 - 1 in
  let end_page1 := Z.land end1 (Z.lnot (pagesize - 1)) in
  let start_page2 := Z.land off2 (Z.lnot (pagesize - 1)) in
  Some (end_page1 =? start_page2).

(* The four loops "check previous suballocations": `items` are the suballocations in the order the
   loop visits them; each must lie before resultOffset.  conflicts ty = the AllocationsConflict
   call of that loop on the visited item's type.  Some true = a conflicting item shares the page,
   Some false = left the page / ran out of items first, None = blocksOnSamePage panicked *)
Fixpoint scan_prev (items : list sub) (resultOffset pagesize : Z) (conflicts : Z -> bool) : option bool :=
  match items with
  | [] => Some false
  | s :: rest =>
    match blocks_on_same_page (s_off s) (s_size s) resultOffset pagesize with
    | None => None
    | Some false => Some false
    | Some true => if conflicts (s_type s) then Some true else scan_prev rest resultOffset pagesize conflicts
    end
  end.

(* The three loops "check next suballocations": the candidate [resultOffset, resultOffset+allocSize)
   must lie before each visited item *)
Fixpoint scan_next (items : list sub) (resultOffset allocSize pagesize : Z) (conflicts : Z -> bool) : option bool :=
  match items with
  | [] => Some false
  | s :: rest =>
    match blocks_on_same_page resultOffset allocSize (s_off s) pagesize with
    | None => None
    | Some false => Some false
    | Some true => if conflicts (s_type s) then Some true else scan_next rest resultOffset allocSize pagesize conflicts
    end
  end.

(* Go: AllocationRequestType *)
Inductive reqtype := RTTlsf | RTUpperAddress | RTEndOf1st | RTEndOf2nd.

(* Go: AllocationRequest (the fields linear.go uses) *)
Record request := mkReq {
  rq_handle : Z;            (* BlockAllocationHandle = offset + 1 *)
  rq_size : Z;
  rq_type : reqtype
}.

Definition rq_offset (r : request) : Z := rq_handle r - 1.

Inductive reqres := QGranted (r : request) | QRefused | QError | QPanic.

(* lastItem.Offset + lastItem.Size of a vector, 0 when it is empty *)
Definition end_of (v : list sub) : Z :=
  match last_z v with
  | Some s => s_off s + s_size s
  | None => 0
  end.

(* Go: "Check previous suballocations for granularity conflict & align up if necessary" (both
   places in populateAllocationRequestLower; v is the vector the new item would be appended to) *)
Definition lower_align_for_prev (l : linear) (v : list sub) (resultOffset align atype : Z) : option Z :=
  let g := l_gran l in
  if (g >? 1) && negb (g =? align) && (zlen v >? 0) then
    match scan_prev (rev v) resultOffset g (fun ty => allocations_conflict (l_h l) ty atype) with
    | None => None
    | Some true => Some (align_up resultOffset g)
    | Some false => Some resultOffset
    end
  else Some resultOffset.

Inductive lowres := LGranted (r : request) | LRefused | LFallthrough | LPanic.

(* Go: populateAllocationRequestLower, "Try to allocate at the end of the first vector" *)
Definition lower_end_of_first (l : linear) (allocSize align atype : Z) : lowres :=
  let fv := first l in
  let sv := second l in
  let g := l_gran l in
  match lower_align_for_prev l fv (align_up (end_of fv) align) align atype with
  | None => LPanic
  | Some resultOffset =>
    let free_space_end :=
      match l_mode l, last_z sv with
      | MDouble, Some s => s_off s
      | _, _ => l_size l
      end in
    if resultOffset + allocSize <=? free_space_end then
      if g =? 0 then LPanic (* allocSize % 0: integer divide by zero *) else
      let granted := LGranted (mkReq (resultOffset + 1) allocSize RTEndOf1st) in
      if ((Z.rem allocSize g >? 0) || (Z.rem resultOffset g >? 0)) && mode_eqb (l_mode l) MDouble then
        match scan_next (rev sv) resultOffset allocSize g (fun ty => allocations_conflict (l_h l) atype ty) with
        | None => LPanic
        | Some true => LRefused
        | Some false => granted
        end
      else granted
    else LFallthrough
  end.

(* Go: populateAllocationRequestLower, "we'll attempt to allocate at the end of the second vector" *)
Definition lower_end_of_second (l : linear) (allocSize align atype : Z) : reqres :=
  let fv := first l in
  let sv := second l in
  let g := l_gran l in
  if zlen fv =? 0 then QRefused else
  match lower_align_for_prev l sv (align_up (end_of sv) align) align atype with
  | None => QPanic
  | Some resultOffset =>
    let idx := l_null_begin l in
    let fits : option bool :=
      if idx =? zlen fv then Some (resultOffset + allocSize <=? l_size l)
      else if idx <? zlen fv then
        match nth_z fv idx with
        | None => None
        | Some s => Some (resultOffset + allocSize <=? s_off s)
        end
      else Some false in
    match fits with
    | None => QPanic
    | Some false => QRefused
    | Some true =>
      match suffix_from fv idx with
      | None => QPanic
      | Some items =>
        match scan_next items resultOffset allocSize g (fun ty => allocations_conflict (l_h l) atype ty) with
        | None => QPanic
        | Some true => QRefused
        | Some false => QGranted (mkReq (resultOffset + 1) allocSize RTEndOf2nd)
        end
      end
    end
  end.

(* Go: populateAllocationRequestLower *)
Definition populate_lower (l : linear) (allocSize align atype : Z) : reqres :=
  let part1 :=
    match l_mode l with
    | MEmpty | MDouble => lower_end_of_first l allocSize align atype
    | MRing => LFallthrough
    end in
  match part1 with
  | LGranted r => QGranted r
  | LRefused => QRefused
  | LPanic => QPanic
  | LFallthrough =>
    match l_mode l with
    | MEmpty | MRing => lower_end_of_second l allocSize align atype
    | MDouble => QRefused
    end
  end.

(* Go: populateAllocationRequestUpper, "Check next suballocations from second vector for
   BufferImageGranularity conflicts. Increase alignment if necessary" *)
Definition upper_align_for_next (l : linear) (resultOffset allocSize align atype : Z) : option Z :=
  let g := l_gran l in
  let sv := second l in
  if (g >? 1) && (zlen sv >? 0) then
    match scan_next (rev sv) resultOffset allocSize g (fun ty => allocations_conflict (l_h l) ty atype) with
    | None => None
    | Some false => Some resultOffset
    | Some true =>
      let end_offset := resultOffset + allocSize - 1 in
      let aligned_end := align_down end_offset g in
      Some (align_down (align_down (aligned_end - allocSize) g) align)
    end
  else Some resultOffset.

(* Go: populateAllocationRequestUpper *)
Definition populate_upper (l : linear) (allocSize align atype : Z) : reqres :=
  let fv := first l in
  let sv := second l in
  let g := l_gran l in
  if mode_eqb (l_mode l) MRing then QError else
  if allocSize >? l_size l then QRefused else
  let base : option Z :=
    match last_z sv with
    | None => Some (l_size l - allocSize)
    | Some s => if allocSize >? s_off s then None else Some (s_off s - allocSize)
    end in
  match base with
  | None => QRefused
  | Some baseOffset =>
    match upper_align_for_next l (align_down baseOffset align) allocSize align atype with
    | None => QPanic
    | Some resultOffset =>
      if end_of fv >? resultOffset then QRefused else
      let granted := QGranted (mkReq (resultOffset + 1) allocSize RTUpperAddress) in
      if g >? 1 then
        match scan_prev (rev fv) resultOffset g (fun ty => allocations_conflict (l_h l) atype ty) with
        | None => QPanic
        | Some true => QRefused
        | Some false => granted
        end
      else granted
    end
  end.

(* Go: CreateAllocationRequest (strategy and maxOffset are ignored by the linear metadata) *)
Definition create_request (l : linear) (allocSize align : Z) (upper : bool) (atype strategy maxOffset : Z) : reqres :=
  if allocSize <=? 0 then QError else
  if atype =? 0 then QError else
  if upper then populate_upper l allocSize align atype
  else populate_lower l allocSize align atype.

(* ---------------------------------------------------------------- Alloc *)

Inductive allocres := AOk (l' : linear) | AError | APanic.

(* Go: Alloc, case AllocationRequestUpperAddress *)
Definition alloc_upper (l : linear) (item : sub) : allocres :=
  if mode_eqb (l_mode l) MRing then AError else
  AOk (with_mode (with_second l (second l ++ [item])) MDouble).

(* Go: Alloc, case AllocationRequestEndOf1st *)
Definition alloc_end_of_first (l : linear) (item : sub) : allocres :=
  let fv := first l in
  let overlaps_last :=
    match last_z fv with
    | Some s => s_off item <? s_off s + s_size s
    | None => false
    end in
  if overlaps_last then AError else
  if s_off item + s_size item >? l_size l then AError else
  AOk (with_first l (fv ++ [item])).

(* Go: Alloc, case AllocationRequestEndOf2nd *)
Definition alloc_end_of_second (l : linear) (item : sub) : allocres :=
  let fv := first l in
  let sv := second l in
  if zlen fv =? 0 then AError else
  match nth_z fv (l_null_begin l) with
  | None => APanic
  | Some s =>
    if s_off item + s_size item >? s_off s then AError else
    match l_mode l with
    | MEmpty =>
      if zlen sv >? 0 then AError
      else AOk (with_second (with_mode l MRing) (sv ++ [item]))
    | MRing =>
      if zlen sv =? 0 then AError
      else AOk (with_second l (sv ++ [item]))
    | MDouble => AError
    end
  end.

(* Go: Alloc(req, allocType, userData) *)
Definition alloc (l : linear) (r : request) (atype : Z) (tag : option Z) (reqsize reqalign : Z) : allocres :=
  let item := mkSub (rq_handle r - 1) (rq_size r) tag atype reqsize reqalign in
  let placed :=
    match rq_type r with
    | RTUpperAddress => alloc_upper l item
    | RTEndOf1st => alloc_end_of_first l item
    | RTEndOf2nd => alloc_end_of_second l item
    | RTTlsf => AError
    end in
  match placed with
  | AOk l1 => AOk (with_sum_free l1 (l_sum_free l1 - s_size item))
  | failed => failed
  end.

(* ---------------------------------------------------------------- VisitAllRegions, statistics *)

(* (offset, size, free, userData) as passed to the callback *)
Definition region := (Z * Z * bool * option Z)%type.

(* The three loops of VisitAllRegions have the same body:
     for lastOffset < limit {
       skip freed items;
       if an item is left { report the gap before it (if any); report it; lastOffset = its end }
       else { report [lastOffset, limit) as free; lastOffset = limit } }
   `items` are the not yet visited suballocations in visiting order.  Returns the regions reported
   and the final lastOffset. *)
Fixpoint visit_items (items : list sub) (lastOffset limit : Z) : list region * Z :=
  match items with
  | [] =>
    if lastOffset <? limit then ([(lastOffset, limit - lastOffset, true, None)], limit)
    else ([], lastOffset)
  | s :: rest =>
    if lastOffset <? limit then
      if is_free s then visit_items rest lastOffset limit
      else
        let gap := if lastOffset <? s_off s then [(lastOffset, s_off s - lastOffset, true, None)] else [] in
        let '(rs, last') := visit_items rest (s_off s + s_size s) limit in
        (gap ++ (s_off s, s_size s, false, s_tag s) :: rs, last')
    else ([], lastOffset)
  end.

(* Go: VisitAllRegions, the `if m.secondVectorMode == SecondVectorModeRingBuffer {...}` block *)
Definition visit_ring_part (l : linear) : option (list region * Z) :=
  match l_mode l with
  | MRing =>
    match nth_z (first l) (l_null_begin l) with
    | None => None
    | Some s => Some (visit_items (second l) 0 (s_off s))
    end
  | _ => Some ([], 0)
  end.

(* Go: VisitAllRegions, freeSpaceFirstToSecondEnd *)
Definition visit_first_limit (l : linear) : option Z :=
  match l_mode l with
  | MDouble =>
    match last_z (second l) with
    | None => None
    | Some s => Some (s_off s)
    end
  | _ => Some (l_size l)
  end.

(* Go: VisitAllRegions, the loop over the first vector starting at firstNullItemsBeginCount *)
Definition visit_first_part (l : linear) (lastOffset limit : Z) : option (list region * Z) :=
  match suffix_from (first l) (l_null_begin l) with
  | Some items => Some (visit_items items lastOffset limit)
  | None => if lastOffset <? limit then None else Some ([], lastOffset)
  end.

(* Go: VisitAllRegions, the `if m.secondVectorMode == SecondVectorModeDoubleStack {...}` loop *)
Definition visit_upper_part (l : linear) (lastOffset : Z) : list region * Z :=
  match l_mode l with
  | MDouble => visit_items (rev (second l)) lastOffset (l_size l)
  | _ => ([], lastOffset)
  end.

(* Go: VisitAllRegions with a callback that never fails: the regions in visiting order.
   None = panic *)
Definition visit_regions (l : linear) : option (list region) :=
  match visit_ring_part l with
  | None => None
  | Some (r1, last1) =>
    match visit_first_limit l with
    | None => None
    | Some limit =>
      match visit_first_part l last1 limit with
      | None => None
      | Some (r2, last2) =>
        let '(r3, _) := visit_upper_part l last2 in
        Some (r1 ++ r2 ++ r3)
      end
    end
  end.

(* same shapes as in Tlsf.v *)
Record stats := mkStats { s_blocks : Z; s_allocs : Z; s_block_bytes : Z; s_alloc_bytes : Z }.
Record dstats := mkDStats {
  d_stats : stats; d_unused_count : Z;
  d_alloc_min : option Z; d_alloc_max : Z; d_unused_min : option Z; d_unused_max : Z }.

Definition region_is_free (r : region) : bool := let '(_, _, free, _) := r in free.
Definition region_size (r : region) : Z := let '(_, size, _, _) := r in size.

(* Go: AddStatistics on zeroed statistics.  None = VisitAllRegions panicked *)
Definition add_statistics (l : linear) : option stats :=
  match visit_regions l with
  | None => None
  | Some rs =>
    let allocs := zlen (filter (fun r => negb (region_is_free r)) rs) in
    Some (mkStats 1 allocs (l_size l) (l_size l - l_sum_free l))
  end.

(* min with "no value yet" (Go starts the minima at math.MaxInt) *)
Definition omin (a : option Z) (x : Z) : option Z :=
  match a with None => Some x | Some y => Some (if x <? y then x else y) end.

(* Go: DetailedStatistics.AddUnusedRange *)
Definition d_add_unused (d : dstats) (sz : Z) : dstats :=
  mkDStats (d_stats d) (d_unused_count d + 1) (d_alloc_min d) (d_alloc_max d)
           (omin (d_unused_min d) sz) (if d_unused_max d <? sz then sz else d_unused_max d).

(* Go: DetailedStatistics.AddAllocation *)
Definition d_add_alloc (d : dstats) (sz : Z) : dstats :=
  let s := d_stats d in
  mkDStats (mkStats (s_blocks s) (s_allocs s + 1) (s_block_bytes s) (s_alloc_bytes s + sz))
           (d_unused_count d) (omin (d_alloc_min d) sz) (if d_alloc_max d <? sz then sz else d_alloc_max d)
           (d_unused_min d) (d_unused_max d).

(* Go: AddDetailedStatistics on cleared statistics.  None = VisitAllRegions panicked *)
Definition add_detailed_statistics (l : linear) : option dstats :=
  match visit_regions l with
  | None => None
  | Some rs =>
    let d0 := mkDStats (mkStats 1 0 (l_size l) 0) 0 None 0 None 0 in
    Some (fold_left (fun d r => if region_is_free r then d_add_unused d (region_size r)
                                else d_add_alloc d (region_size r)) rs d0)
  end.

(* ---------------------------------------------------------------- Validate *)

(* The three walks of Validate have the same body; `items` in visiting order.  Returns the new
   (offset, sumUsedSize, null item count); None = an item starts before `offset` (error) *)
Fixpoint walk_items (items : list sub) (offset used nulls : Z) : option (Z * Z * Z) :=
  match items with
  | [] => Some (offset, used, nulls)
  | s :: rest =>
    if s_off s <? offset then None else
    if is_free s then walk_items rest (s_off s + s_size s) used (nulls + 1)
    else walk_items rest (s_off s + s_size s) (used + s_size s) nulls
  end.

(* Go: Validate, the two checks relating the second vector's length and the mode *)
Definition validate_modes (l : linear) : bool :=
  let empty2 := zlen (second l) =? 0 in
  let mode_empty := mode_eqb (l_mode l) MEmpty in
  negb ((empty2 && negb mode_empty) || (negb empty2 && mode_empty)).

(* Go: Validate, `if len(firstVector) != 0 {...}`.  None = firstVector[firstNullItemsBeginCount]
   out of range *)
Definition validate_first_ends (l : linear) : option bool :=
  let fv := first l in
  if zlen fv =? 0 then Some true else
  match nth_z fv (l_null_begin l) with
  | None => None
  | Some s =>
    if is_free s then Some false else
    match last_z fv with
    | None => None
    | Some e => Some (negb (is_free e))
    end
  end.

(* Go: Validate, `if len(secondVector) != 0 {...}` *)
Definition validate_second_end (l : linear) : bool :=
  match last_z (second l) with
  | None => true
  | Some e => negb (is_free e)
  end.

(* Go: Validate, the two checks of the null counters against the vector lengths *)
Definition validate_counts (l : linear) : bool :=
  (l_null_begin l + l_null_middle l <=? zlen (first l)) && (l_null_second l <=? zlen (second l)).

Inductive walkres := WOk (offset used : Z) | WError | WPanic.

(* Go: Validate, `if m.secondVectorMode == SecondVectorModeRingBuffer {...}` *)
Definition validate_ring_walk (l : linear) : walkres :=
  match l_mode l with
  | MRing =>
    if (zlen (first l) =? 0) && negb (zlen (second l) =? 0) then WError else
    match walk_items (second l) 0 0 0 with
    | None => WError
    | Some (offset, used, nulls) => if nulls =? l_null_second l then WOk offset used else WError
    end
  | _ => WOk 0 0
  end.

(* Go: Validate, the walk over the first vector from firstNullItemsBeginCount *)
Definition validate_first_walk (l : linear) (offset used : Z) : walkres :=
  match suffix_from (first l) (l_null_begin l) with
  | None => WPanic
  | Some items =>
    match walk_items items offset used (l_null_begin l) with
    | None => WError
    | Some (offset', used', nulls) =>
      if nulls =? l_null_begin l + l_null_middle l then WOk offset' used' else WError
    end
  end.

(* Go: Validate, `if m.secondVectorMode == SecondVectorModeDoubleStack {...}` *)
Definition validate_upper_walk (l : linear) (offset used : Z) : walkres :=
  match l_mode l with
  | MDouble =>
    match walk_items (rev (second l)) offset used 0 with
    | None => WError
    | Some (offset', used', nulls) => if nulls =? l_null_second l then WOk offset' used' else WError
    end
  | _ => WOk offset used
  end.

(* Go: Validate from `var sumUsedSize, offset int` to the end *)
Definition validate_walks (l : linear) : option bool :=
  match validate_ring_walk l with
  | WPanic => None
  | WError => Some false
  | WOk o1 u1 =>
    match validate_first_walk l o1 u1 with
    | WPanic => None
    | WError => Some false
    | WOk o2 u2 =>
      match validate_upper_walk l o2 u2 with
      | WPanic => None
      | WError => Some false
      | WOk o3 u3 =>
        if o3 >? l_size l then Some false else
        Some (l_sum_free l =? l_size l - u3)
      end
    end
  end.

(* Go: Validate.  Some true = nil, Some false = error, None = panic *)
Definition validate (l : linear) : option bool :=
  if negb (validate_modes l) then Some false else
  match validate_first_ends l with
  | None => None
  | Some false => Some false
  | Some true =>
    if negb (validate_second_end l) then Some false else
    if negb (validate_counts l) then Some false else
    validate_walks l
  end.

(* ---------------------------------------------------------------- one-step interface *)

Inductive op :=
| OAlloc (size align atype strategy : Z) (upper : bool) (maxOffset : Z) (tag : option Z)
| ORequest (size align atype strategy : Z) (upper : bool) (maxOffset : Z)
| OFree (handle : Z)
| OSetUD (handle : Z) (tag : option Z)
| OClear
| OMayHave (atype size : Z).

Record outcome := mkOut { o_kind : rkind; o_off : Z; o_size : Z }.

Definition out (k : rkind) := mkOut k 0 0.

Definition step (l : linear) (o : op) : linear * outcome :=
  match o with
  | OAlloc size align atype strategy upper maxOffset tag =>
    match create_request l size align upper atype strategy maxOffset with
    | QError => (l, out RError)
    | QRefused => (l, out RRefused)
    | QPanic => (l, out RPanic)
    | QGranted r =>
      match alloc l r atype tag size align with
      | AOk l' => (l', mkOut ROk (rq_offset r) (rq_size r))
      | AError => (l, out RError)
      | APanic => (l, out RPanic)
      end
    end
  | ORequest size align atype strategy upper maxOffset =>
    match create_request l size align upper atype strategy maxOffset with
    | QError => (l, out RError)
    | QRefused => (l, out RRefused)
    | QPanic => (l, out RPanic)
    | QGranted r => (l, mkOut ROk (rq_offset r) (rq_size r))
    end
  | OFree h =>
    match lin_free l h with
    | FOk l' => (l', out ROk)
    | FError => (l, out RError)
    | FPanic => (l, out RPanic)
    end
  | OSetUD h tag =>
    match set_user_data l h tag with
    | SetOk l' => (l', out ROk)
    | SetError => (l, out RError)
    | SetPanic => (l, out RPanic)
    end
  | OClear => (lin_clear l, out ROk)
  | OMayHave atype size => (l, mkOut ROk (if may_have_free l atype size then 1 else 0) 0)
  end.
