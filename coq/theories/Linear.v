(* Linear.v — executable model of memutils/metadata/linear.go (placeholder, being written) *)
From Coq Require Import ZArith List Bool Lia.
From Arsenal Require Import Util Gran.
