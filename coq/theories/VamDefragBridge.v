(* Defrag.collect_moves_f's theorems (DefragGranProofs.v, any granularity, any commit oracle) at granularity 1, restated over
   the definitions of DefragProofs.v that the allocator bridge (VamDefragPass.v) is written against. *)
From Coq Require Import ZArith List Bool Lia.
From Arsenal Require Import Util Gran Tlsf Pass PassProofs Defrag.
From Arsenal Require DefragProofs DefragGranProofs.
Import ListNotations.
Open Scope Z_scope.

Module G := DefragGranProofs.
Module P := DefragProofs.

Lemma move_ok_g1 st0 st ix m : G.move_ok st0 st ix m -> P.move_ok st0 st ix m.
Proof. intros [A B C D E F]. constructor; assumption. Qed.

Lemma creg_g1 st0 st new : G.CReg st0 st new -> P.CReg st0 st new.
Proof. intros [A B C]. constructor; [exact A|exact B|exact C]. Qed.

Lemma cinv_g1 gh st0 ms0 p0 ix cs new :
  G.CInv gh 1 G.QT G.KT st0 ms0 p0 ix cs new -> P.CInv st0 ms0 p0 ix cs new.
Proof.
  intros [A B C D E F H I J K L]. constructor.
  - apply (G.wf_gran1_iff gh). exact A.
  - exact B.
  - exact C.
  - eapply Forall_impl; [|exact D]. intros m. apply move_ok_g1.
  - exact E.
  - exact F.
  - exact H.
  - exact I.
  - exact J.
  - exact K.
  - apply creg_g1. exact L.
Qed.

(* the planner with any commit oracle, on a block list of granularity 1 *)
Theorem collect_moves_f_inv_g1 E att st c p (env : E) :
  P.WF st -> pass_running p ->
  exists new, P.CInv st (c_moves c) p (indexed st) (fst (res_f (collect_moves_f E att st c p env))) new /\
              snd (res_f (collect_moves_f E att st c p env)) <> WPanic PCounters.
Proof.
  intros HW Hrun. apply (G.wf_gran1_iff HFake) in HW.
  destruct (G.collect_moves_f_inv HFake 1 G.QT G.KT G.QT_step E att st c p env HW Hrun) as (new & HC & Hnp).
  exists new. split; [eapply cinv_g1; exact HC|exact Hnp].
Qed.

(* the immovable-block count is only used through Z.to_nat *)
Lemma collect_moves_f_imm E att st c p (env : E) :
  collect_moves_f E att st c p env = collect_moves_f E att st (mkC (c_algo c) (c_moves c) (Z.max 0 (c_immovable c))) p env.
Proof.
  unfold collect_moves_f. cbn [c_algo c_moves c_immovable].
  replace (Z.to_nat (Z.max 0 (c_immovable c))) with (Z.to_nat (c_immovable c)) by lia. reflexivity.
Qed.

Theorem collect_moves_f_log_g1 E att st c p (env : E) :
  let X := collect_moves_f E att st c p env in
  cs_moves (fst (res_f X)) = c_moves c ++ log_moves (log_f X) /\
  Forall (fun a => In (at_dst a) (map fst (d_blocks st))) (log_f X).
Proof.
  cbn zeta. rewrite collect_moves_f_imm.
  destruct (G.collect_moves_f_log E att st (mkC (c_algo c) (c_moves c) (Z.max 0 (c_immovable c))) p env ltac:(cbn; lia)) as (L1 & L2 & _).
  split; assumption.
Qed.

(* the attempt log is the trace of the oracle: consulted once per logged attempt, in order; AtOk iff it answered true; the
   source slot of every attempt is a non-temporary entry of the original table *)
Definition at_slot := G.at_slot.
Definition strace := G.strace.

Theorem collect_moves_f_strace_g1 E att st c p (env : E) :
  P.WF st -> pass_running p ->
  let X := collect_moves_f E att st c p env in
  G.strace E att env (log_f X) (env_f X) /\
  Forall (fun a => exists e, entry st (G.at_slot a) = Some e /\ u_temp e = false) (log_f X).
Proof.
  intros HW Hrun. apply (G.wf_gran1_iff HFake) in HW.
  exact (G.collect_moves_f_strace HFake 1 G.QT G.KT G.QT_step E att st c p env HW Hrun).
Qed.

Theorem collect_f_never_panics_g1 E att st c p (env : E) :
  P.WF st -> pass_running p -> (c_algo c = 1 \/ c_algo c = 2) ->
  forall w, snd (collect_moves_f E att st c p env) <> WPanic w.
Proof.
  intros HW Hrun Halgo w. apply (G.wf_gran1_iff HFake) in HW.
  exact (G.collect_f_never_panics HFake 1 G.QT G.KT G.QT_step E att st c p env HW Hrun Halgo w).
Qed.
