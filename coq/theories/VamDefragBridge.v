(* Defrag.collect_moves_f's theorems (DefragGranProofs.v: any commit oracle, any granularity) instantiated for vam's block lists:
   handler HVam, per-block invariant GranTlsf.GInv gg (the page table of the granularity bookkeeping is sound), suballocation
   types 1..5.  WFp gg is the planner's precondition on the projection of a block list of granularity gg. *)
From Coq Require Import ZArith List Bool Lia.
From Arsenal Require Import Util Gran GranInv GranTlsf Tlsf Pass PassProofs Defrag.
From Arsenal Require DefragGranProofs.
Import ListNotations.
Open Scope Z_scope.

Module G := DefragGranProofs.

Notation WFp := G.WFp.
Definition CInvp (gg : Z) := G.CInv HVam gg (GInv gg) kind_ok.

Section P.
Variable gg : Z.
Variable E : Type.
Variable att : E -> nat -> Z -> E * bool.

Theorem collect_moves_f_inv_p st c p (env : E) :
  WFp gg st -> pass_running p ->
  exists new, CInvp gg st (c_moves c) p (indexed st) (fst (res_f (collect_moves_f E att st c p env))) new /\
              snd (res_f (collect_moves_f E att st c p env)) <> WPanic PCounters.
Proof. intros HW Hrun. exact (G.collect_moves_f_inv HVam gg (GInv gg) kind_ok (G.GQ_step gg) E att st c p env HW Hrun). Qed.

(* the immovable-block count is only used through Z.to_nat *)
Lemma collect_moves_f_imm st c p (env : E) :
  collect_moves_f E att st c p env = collect_moves_f E att st (mkC (c_algo c) (c_moves c) (Z.max 0 (c_immovable c))) p env.
Proof.
  unfold collect_moves_f. cbn [c_algo c_moves c_immovable].
  replace (Z.to_nat (Z.max 0 (c_immovable c))) with (Z.to_nat (c_immovable c)) by lia. reflexivity.
Qed.

Theorem collect_moves_f_log_p st c p (env : E) :
  let X := collect_moves_f E att st c p env in
  cs_moves (fst (res_f X)) = c_moves c ++ log_moves (log_f X) /\
  Forall (fun a => In (at_dst a) (map fst (d_blocks st))) (log_f X).
Proof.
  cbn zeta. rewrite collect_moves_f_imm.
  destruct (G.collect_moves_f_log E att st (mkC (c_algo c) (c_moves c) (Z.max 0 (c_immovable c))) p env ltac:(cbn; lia)) as (L1 & L2 & _).
  split; assumption.
Qed.

(* the attempt log is the trace of the oracle: consulted once per logged attempt, in order; AtOk iff it answered true; the
   source slot of every attempt is a non-temporary entry of the original table *)
Theorem collect_moves_f_strace_p st c p (env : E) :
  WFp gg st -> pass_running p ->
  let X := collect_moves_f E att st c p env in
  G.strace E att env (log_f X) (env_f X) /\
  Forall (fun a => exists e, entry st (G.at_slot a) = Some e /\ u_temp e = false) (log_f X).
Proof. intros HW Hrun. exact (G.collect_moves_f_strace HVam gg (GInv gg) kind_ok (G.GQ_step gg) E att st c p env HW Hrun). Qed.

Theorem collect_f_never_panics_p st c p (env : E) :
  WFp gg st -> pass_running p -> (c_algo c = 1 \/ c_algo c = 2) ->
  forall w, snd (collect_moves_f E att st c p env) <> WPanic w.
Proof. intros HW Hrun Halgo w. exact (G.collect_f_never_panics HVam gg (GInv gg) kind_ok (G.GQ_step gg) E att st c p env HW Hrun Halgo w). Qed.

End P.
