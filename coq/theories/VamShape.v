(* VamShape.v — third pass: how the functions of the model change the BLOCK SETS of the block lists.
   lperm v v'      : every list has the same configuration, nextBlockId and block ids (up to order) in v and v'.
   effect lemmas for the functions that create / release blocks (CreateBlock, allocPage, free, the unwind of a
   failed Allocate, Destroy, CreateMinBlocks).
   The emptiness of a block is read off the Allocation table: under the structural invariant a block is empty
   iff no allocated Allocation object refers to it (empty_iff_unused), so that the first-pass table frames
   carry the emptiness facts.
   Results: LInv (bl_min <= #blocks <= bl_max and #empty blocks <= max 1 bl_min for every list) is preserved. *)
From Coq Require Import ZArith List Bool Lia Permutation.
From Arsenal Require Import Util VamDev VamBlockList Vam VamInvMeta VamInv VamInvUpd VamInvDev VamInvStep VamInvStep2.
Import ListNotations.
Open Scope Z_scope.

Definition ids (l : blist) : list Z := map bk_id (bl_blocks l).

(* the configuration of a list that the block-count policies read *)
Definition cfg_eq (l l' : blist) : Prop :=
  bl_type l' = bl_type l /\ bl_pref l' = bl_pref l /\ bl_min l' = bl_min l /\ bl_max l' = bl_max l /\
  bl_explicit l' = bl_explicit l /\ bl_algo l' = bl_algo l.

Lemma cfg_eq_refl l : cfg_eq l l.
Proof. unfold cfg_eq. tauto. Qed.
Lemma cfg_eq_trans a b d : cfg_eq a b -> cfg_eq b d -> cfg_eq a d.
Proof. unfold cfg_eq. intros (A1 & A2 & A3 & A4 & A5 & A6) (B1 & B2 & B3 & B4 & B5 & B6). repeat split; congruence. Qed.
Lemma cfg_eq_sym a b : cfg_eq a b -> cfg_eq b a.
Proof. unfold cfg_eq. intros (A1 & A2 & A3 & A4 & A5 & A6). repeat split; congruence. Qed.

Lemma cfg_eq_set_blocks l bs : cfg_eq l (set_blocks l bs).
Proof. unfold cfg_eq. cbn. tauto. Qed.

(* same block ids (up to order), same nextBlockId, same configuration *)
Definition lp (l l' : blist) : Prop := Permutation (ids l') (ids l) /\ bl_next l' = bl_next l /\ cfg_eq l l'.

Lemma lp_refl l : lp l l.
Proof. split; [apply Permutation_refl|split; [reflexivity|apply cfg_eq_refl]]. Qed.
Lemma lp_trans a b d : lp a b -> lp b d -> lp a d.
Proof. intros (A1 & A2 & A3) (B1 & B2 & B3). split; [eapply Permutation_trans; eauto|split; [congruence|eapply cfg_eq_trans; eauto]]. Qed.

Definition orel (P : blist -> blist -> Prop) (o o' : option blist) : Prop :=
  match o, o' with Some l, Some l' => P l l' | None, None => True | _, _ => False end.

Definition lperm (v v' : vam) : Prop := forall lr, orel lp (get_blist v lr) (get_blist v' lr).

Lemma lperm_refl v : lperm v v.
Proof. intros lr. unfold orel. destruct (get_blist v lr); [apply lp_refl|exact I]. Qed.

Lemma lperm_trans a b d : lperm a b -> lperm b d -> lperm a d.
Proof.
  intros H1 H2 lr. specialize (H1 lr). specialize (H2 lr). unfold orel in *.
  destruct (get_blist a lr), (get_blist b lr), (get_blist d lr); try contradiction; auto. eapply lp_trans; eauto.
Qed.

Lemma lperm_eq v v' : (forall lr, get_blist v' lr = get_blist v lr) -> lperm v v'.
Proof. intros H lr. rewrite H. unfold orel. destruct (get_blist v lr); [apply lp_refl|exact I]. Qed.

Lemma lperm_set_m v m : lperm v (set_m v m).
Proof. apply lperm_eq. intros. apply get_blist_set_m. Qed.
Lemma lperm_set_alloc v s a : lperm v (set_alloc v s a).
Proof. apply lperm_eq. intros. apply get_blist_set_alloc. Qed.
Lemma lperm_set_dedlist v lr d : lperm v (set_dedlist v lr d).
Proof. apply lperm_eq. intros. apply get_blist_set_dedlist. Qed.

(* a list is replaced by one with the same ids *)
Lemma lperm_set_blist v lr l l' : get_blist v lr = Some l -> lp l l' -> lperm v (set_blist v lr l').
Proof.
  intros Hg P lr0. destruct (lref_eq_dec lr0 lr) as [->|Hne].
  - rewrite Hg, (get_set_blist_same _ _ _ _ Hg). exact P.
  - rewrite get_set_blist_other by congruence. unfold orel. destruct (get_blist v lr0); [apply lp_refl|exact I].
Qed.

Lemma lperm_put_block v lr b : lperm v (put_block v lr b).
Proof.
  unfold put_block. destruct (get_blist v lr) as [l|] eqn:Hg; [|apply lperm_refl].
  apply (lperm_set_blist v lr l _ Hg). unfold lp, ids. cbn. rewrite replace_block_ids.
  split; [apply Permutation_refl|split; [reflexivity|apply cfg_eq_set_blocks]].
Qed.

Lemma lp_sort l : lp l (incrementally_sort l).
Proof.
  unfold incrementally_sort. destruct (_ || _); [apply lp_refl|]. unfold lp, ids. cbn.
  split; [apply Permutation_map; apply Permutation_sym; apply bubble_once_perm|split; [reflexivity|apply cfg_eq_set_blocks]].
Qed.

Lemma lperm_sort_list v lr : lperm v (sort_list v lr).
Proof. unfold sort_list. destruct (get_blist v lr) as [l|] eqn:Hg; [|apply lperm_refl]. apply (lperm_set_blist v lr l _ Hg). apply lp_sort. Qed.


(* the retention decision of freeWithLock, on the block list after the region was released *)
Definition free_decide (l : blist) (bs3 : list block) (b' : block) (hasEmpty budgetEx keep : bool) : list block :=
  let canDelete := negb keep && (bl_min l <? zlen bs3) in
  if meta_is_empty (bk_meta b') && (hasEmpty || budgetEx) && canDelete then remove_block bs3 (bk_id b')
  else if negb (meta_is_empty (bk_meta b')) && hasEmpty && canDelete then
    match rev bs3 with
    | lastb :: rest => if meta_is_empty (bk_meta lastb) then rev rest else bs3
    | [] => bs3
    end
  else bs3.

(* ---------------------------------------------------------------- block counts *)

Definition emp (b : block) : bool := meta_is_empty (bk_meta b).
Definition cnt_empty (bs : list block) : Z := Z.of_nat (length (filter emp bs)).

(* the two policies: the block count stays within [minBlockCount, maxBlockCount]; at most max(1, minBlockCount)
   blocks are empty *)
Definition LB (l : blist) : Prop := bl_min l <= zlen (bl_blocks l) <= bl_max l.
Definition RB (l : blist) : Prop := cnt_empty (bl_blocks l) <= Z.max 1 (bl_min l).
Definition LInv (v : vam) : Prop := forall lr l, get_blist v lr = Some l -> LB l /\ RB l.

Lemma cnt_empty_cons b bs : cnt_empty (b :: bs) = (if emp b then 1 else 0) + cnt_empty bs.
Proof. unfold cnt_empty. cbn [filter]. destruct (emp b); cbn [length]; lia. Qed.

Lemma cnt_empty_bounds bs : 0 <= cnt_empty bs <= zlen bs.
Proof.
  induction bs as [|b bs IH]; [cbn; lia|]. rewrite cnt_empty_cons. unfold zlen in *. cbn [length]. destruct (emp b); lia.
Qed.

Lemma cnt_empty_perm bs bs' : Permutation bs bs' -> cnt_empty bs' = cnt_empty bs.
Proof.
  induction 1 as [|x l l' _ IH|x y l|l l' l'' _ IH1 _ IH2]; try reflexivity.
  - rewrite !cnt_empty_cons, IH. reflexivity.
  - rewrite !cnt_empty_cons. lia.
  - congruence.
Qed.

Lemma cnt_empty_app a b : cnt_empty (a ++ b) = cnt_empty a + cnt_empty b.
Proof. induction a as [|x a IH]; [cbn; lia|]. cbn [app]. rewrite !cnt_empty_cons, IH. lia. Qed.

Lemma has_empty_iff bs : has_empty_block bs = true <-> 1 <= cnt_empty bs.
Proof.
  unfold has_empty_block. induction bs as [|b bs IH]; cbn [existsb]; [cbn; split; [discriminate|lia]|].
  rewrite cnt_empty_cons. fold (emp b). pose proof (cnt_empty_bounds bs). destruct (emp b); cbn [orb]; [split; [lia|auto]|].
  rewrite IH. lia.
Qed.

Lemma cnt_replace bs b nb :
  NoDup (map bk_id bs) -> In b bs -> bk_id nb = bk_id b ->
  cnt_empty (replace_block bs nb) = cnt_empty bs - (if emp b then 1 else 0) + (if emp nb then 1 else 0) /\
  zlen (replace_block bs nb) = zlen bs.
Proof.
  induction bs as [|x bs IH]; cbn [replace_block map In]; [intros _ []|]. intros Hnd Hin Hid.
  inversion Hnd as [|? ? Hx Hr]; subst. destruct (bk_id x =? bk_id nb) eqn:E.
  - apply Z.eqb_eq in E. assert (x = b).
    { destruct Hin as [->|Hin]; [reflexivity|]. exfalso. apply Hx. rewrite E, Hid. apply in_map. exact Hin. }
    subst x. rewrite !cnt_empty_cons. unfold zlen. cbn [length]. split; lia.
  - apply Z.eqb_neq in E. destruct Hin as [->|Hin]; [congruence|].
    destruct (IH Hr Hin Hid) as (A & B). rewrite !cnt_empty_cons, A. unfold zlen in *. cbn [length]. split; lia.
Qed.

Lemma cnt_remove bs b :
  NoDup (map bk_id bs) -> In b bs ->
  cnt_empty (remove_block bs (bk_id b)) = cnt_empty bs - (if emp b then 1 else 0) /\ zlen (remove_block bs (bk_id b)) = zlen bs - 1.
Proof.
  induction bs as [|x bs IH]; cbn [remove_block map In]; [intros _ []|]. intros Hnd Hin.
  inversion Hnd as [|? ? Hx Hr]; subst. destruct (bk_id x =? bk_id b) eqn:E.
  - apply Z.eqb_eq in E. assert (x = b).
    { destruct Hin as [->|Hin]; [reflexivity|]. exfalso. apply Hx. rewrite E. apply in_map. exact Hin. }
    subst x. rewrite cnt_empty_cons. unfold zlen. cbn [length]. split; lia.
  - apply Z.eqb_neq in E. destruct Hin as [->|Hin]; [congruence|].
    destruct (IH Hr Hin) as (A & B). rewrite !cnt_empty_cons, A. unfold zlen in *. cbn [length]. split; lia.
Qed.

Lemma zlen_perm {A} (a b : list A) : Permutation a b -> zlen a = zlen b.
Proof. intros H. unfold zlen. rewrite (Permutation_length H). reflexivity. Qed.

(* the retention decision keeps both policies *)
Lemma free_decide_policies l bs b nb budgetEx :
  NoDup (map bk_id bs) -> In b bs -> emp b = false -> bk_id nb = bk_id b ->
  bl_min l <= zlen bs <= bl_max l -> cnt_empty bs <= Z.max 1 (bl_min l) ->
  let bs4 := free_decide l (replace_block bs nb) nb (has_empty_block bs) budgetEx false in
  bl_min l <= zlen bs4 <= bl_max l /\ cnt_empty bs4 <= Z.max 1 (bl_min l).
Proof.
  intros Hnd Hb He Hid HL HR. cbn zeta. destruct (cnt_replace bs b nb Hnd Hb Hid) as (C3 & Z3). rewrite He in C3.
  set (bs3 := replace_block bs nb) in *.
  assert (Hnd3 : NoDup (map bk_id bs3)) by (unfold bs3; rewrite replace_block_ids; exact Hnd).
  assert (Hnb3 : In nb bs3) by (unfold bs3; apply replace_block_in; rewrite Hid; apply in_map; exact Hb).
  pose proof (has_empty_iff bs) as HE. pose proof (cnt_empty_bounds bs) as B0. pose proof (cnt_empty_bounds bs3) as B3.
  unfold free_decide. cbn [negb andb]. fold (emp nb).
  destruct (bl_min l <? zlen bs3) eqn:Ecan.
  - apply Z.ltb_lt in Ecan. destruct (emp nb) eqn:En; cbn [andb negb].
    + destruct (has_empty_block bs || budgetEx) eqn:Eh; cbn [andb].
      * destruct (cnt_remove bs3 nb Hnd3 Hnb3) as (C4 & Z4). rewrite En in C4. lia.
      * apply orb_false_iff in Eh. destruct Eh as (Eh & _).
        assert (cnt_empty bs = 0). { destruct (Z.eq_dec (cnt_empty bs) 0); [auto|]. assert (has_empty_block bs = true) by (apply HE; lia). congruence. }
        lia.
    + destruct (has_empty_block bs) eqn:Eh; cbn [andb]; [|lia].
      destruct (rev bs3) as [|lastb rest] eqn:Erev; [lia|]. destruct (meta_is_empty (bk_meta lastb)) eqn:El; [|lia].
      assert (Ebs : bs3 = rev rest ++ [lastb]) by (rewrite <- (rev_involutive bs3), Erev; reflexivity).
      assert (C4 : cnt_empty bs3 = cnt_empty (rev rest) + 1).
      { rewrite Ebs at 1. rewrite cnt_empty_app, cnt_empty_cons. unfold emp at 1. rewrite El. cbn. lia. }
      assert (Z4 : zlen bs3 = zlen (rev rest) + 1).
      { rewrite Ebs at 1. unfold zlen. rewrite app_length. cbn. lia. }
      lia.
  - apply Z.ltb_ge in Ecan. rewrite !andb_false_r. cbn [andb]. destruct (emp nb); lia.
Qed.

Lemma free_decide_keep l bs3 nb he be : free_decide l bs3 nb he be true = bs3.
Proof. unfold free_decide. cbn [negb andb]. rewrite !andb_false_r. reflexivity. Qed.

Section WithCfg.
Variable c : vcfg.

Lemma lperm_alloc_from_block v lr bid size align flags sub s : lperm v (fst (alloc_from_block c v lr bid size align flags sub s)).
Proof.
  unfold alloc_from_block. destruct (get_block v lr bid) as [b|]; [|apply lperm_refl].
  destruct (negb _); [apply lperm_refl|]. destruct (meta_create_request _ _ _ _ _ _) as [mt1 rq| | |]; try apply lperm_refl.
  eapply lperm_trans; [apply lperm_put_block|]. unfold commit_request. set (v1 := put_block v lr _).
  destruct (get_blist v1 lr) as [l1|]; [|apply lperm_refl]. destruct (get_block v1 lr bid) as [b1|]; [|apply lperm_refl].
  destruct (sm_sub _ _ _) as (m1 & s1). destruct (if fl flags F_MAPPED then _ else _) as ((m2 & s2) & mr).
  assert (H2 : lperm v1 (put_block (set_m v1 m2) lr (mkBlock (bk_id b1) (bk_mem b1) s2 (bk_meta b1)))).
  { eapply lperm_trans; [apply lperm_set_m|apply lperm_put_block]. }
  destruct mr as [[]|code| |]; cbn [fst]; try exact H2.
  assert (H3 : lperm v1 (set_alloc (put_block (set_m v1 m2) lr (mkBlock (bk_id b1) (bk_mem b1) s2 (bk_meta b1))) s (alloc_init (mapping_allowed flags)))).
  { eapply lperm_trans; [exact H2|apply lperm_set_alloc]. }
  destruct (meta_alloc _ _ _ _ _ _) as [(mt2 & h)|code| |]; cbn [fst]; try exact H3.
  assert (H4 : lperm v1 (put_block (set_alloc (put_block (set_m v1 m2) lr (mkBlock (bk_id b1) (bk_mem b1) s2 (bk_meta b1))) s (alloc_init (mapping_allowed flags))) lr
                  (mkBlock (bk_id b1) (bk_mem b1) s2 mt2))).
  { eapply lperm_trans; [exact H3|apply lperm_put_block]. }
  destruct (_ && _); cbn [fst]; [exact H4|].
  eapply lperm_trans; [exact H4|]. eapply lperm_trans; [apply lperm_set_alloc|apply lperm_set_m].
Qed.

Lemma lperm_try_blocks bids : forall v lr size align flags sub s, lperm v (fst (try_blocks c v lr bids size align flags sub s)).
Proof.
  induction bids as [|bid tl IH]; intros v lr size align flags sub s; cbn [try_blocks]; [apply lperm_refl|].
  pose proof (lperm_alloc_from_block v lr bid size align flags sub s) as H.
  destruct (alloc_from_block c v lr bid size align flags sub s) as (v1 & r). cbn [fst] in H.
  destruct r; cbn [fst]; try exact H.
  - eapply lperm_trans; [exact H|apply lperm_sort_list].
  - eapply lperm_trans; [exact H|apply IH].
Qed.

Lemma lperm_destroy_block v ty b : lperm v (fst (destroy_block c v ty b)).
Proof.
  unfold destroy_block. destruct (negb _); [apply lperm_refl|]. destruct (free_vk _ _ _ _ _) as (m1 & r). apply lperm_set_m.
Qed.

(* ---------------------------------------------------------------- one block more *)

Definition grew (l l' : blist) : Prop :=
  Permutation (ids l') (bl_next l :: ids l) /\ bl_next l' = bl_next l + 1 /\ cfg_eq l l'.

Lemma lp_grew a b d : lp a b -> grew b d -> grew a d.
Proof.
  intros (A1 & A2 & A3) (B1 & B2 & B3). split; [|split; [lia|eapply cfg_eq_trans; eauto]].
  eapply Permutation_trans; [exact B1|]. rewrite A2. apply perm_skip. exact A1.
Qed.

Lemma grew_lp a b d : grew a b -> lp b d -> grew a d.
Proof.
  intros (A1 & A2 & A3) (B1 & B2 & B3). split; [eapply Permutation_trans; eauto|split; [lia|eapply cfg_eq_trans; eauto]].
Qed.

(* list lr changed by P, the others kept their ids *)
Definition lch (P : blist -> blist -> Prop) (v v' : vam) (lr : lref) : Prop :=
  (forall lr0, lr0 <> lr -> orel lp (get_blist v lr0) (get_blist v' lr0)) /\ orel P (get_blist v lr) (get_blist v' lr).

Lemma lperm_get v v' lr l : lperm v v' -> get_blist v lr = Some l -> exists l', get_blist v' lr = Some l' /\ lp l l'.
Proof. intros H Hg. specialize (H lr). rewrite Hg in H. unfold orel in H. destruct (get_blist v' lr) as [l'|]; [eauto|contradiction]. Qed.

Lemma lch_get (P : blist -> blist -> Prop) v v' lr l : lch P v v' lr -> get_blist v lr = Some l -> exists l', get_blist v' lr = Some l' /\ P l l'.
Proof. intros (_ & H) Hg. rewrite Hg in H. unfold orel in H. destruct (get_blist v' lr) as [l'|]; [eauto|contradiction]. Qed.

Lemma orel_lp_trans o1 o2 o3 : orel lp o1 o2 -> orel lp o2 o3 -> orel lp o1 o3.
Proof. unfold orel. destruct o1, o2, o3; try contradiction; auto. apply lp_trans. Qed.

Lemma lperm_lch (P : blist -> blist -> Prop) v v1 v2 lr :
  (forall a b d, lp a b -> P b d -> P a d) -> lperm v v1 -> lch P v1 v2 lr -> lch P v v2 lr.
Proof.
  intros HP H1 (H2 & H3). split.
  - intros lr0 Hne. eapply orel_lp_trans; [apply H1|apply H2; auto].
  - specialize (H1 lr). unfold orel in *. destruct (get_blist v lr), (get_blist v1 lr), (get_blist v2 lr); try contradiction; auto. eapply HP; eauto.
Qed.

Lemma lch_lperm (P : blist -> blist -> Prop) v v1 v2 lr :
  (forall a b d, P a b -> lp b d -> P a d) -> lch P v v1 lr -> lperm v1 v2 -> lch P v v2 lr.
Proof.
  intros HP (H2 & H3) H1. split.
  - intros lr0 Hne. eapply orel_lp_trans; [apply H2; auto|apply H1].
  - specialize (H1 lr). unfold orel in *. destruct (get_blist v lr), (get_blist v1 lr), (get_blist v2 lr); try contradiction; auto. eapply HP; eauto.
Qed.

Lemma lperm_lch_lp v v' lr : lperm v v' -> lch lp v v' lr.
Proof. intros H. split; [intros; apply H|apply H]. Qed.

Lemma lch_lp_lperm v v' lr : lch lp v v' lr -> lperm v v'.
Proof. intros (H1 & H2) lr0. destruct (lref_eq_dec lr0 lr) as [->|Hne]; auto. Qed.

(* CreateBlock *)
Lemma create_block_eff v lr l size :
  get_blist v lr = Some l ->
  let '(v', r) := create_block c v lr size in
  v_tab v' = v_tab v /\
  match r with OK bid => bid = bl_next l /\ lch grew v v' lr | _ => lperm v v' end.
Proof.
  intros Hg. unfold create_block. rewrite Hg. destruct (alloc_vk c (v_m v) (bl_type l) size 0) as (m1 & r).
  destruct r as [mem|code| |]; try (split; [reflexivity|apply lperm_set_m]).
  split; [rewrite set_blist_tab; reflexivity|]. split; [reflexivity|]. split.
  - intros lr0 Hne. rewrite get_set_blist_other by congruence. rewrite get_blist_set_m. unfold orel. destruct (get_blist v lr0); [apply lp_refl|exact I].
  - rewrite Hg. rewrite (get_set_blist_same (set_m v m1) lr l) by (rewrite get_blist_set_m; exact Hg).
    unfold orel, grew, ids. cbn. rewrite map_app. cbn. split; [apply Permutation_sym; apply Permutation_cons_append|]. split; [reflexivity|].
    unfold cfg_eq. cbn. tauto.
Qed.

Lemma retry_create_eff fuel : forall v lr l nbs shift size fm cf last,
  get_blist v lr = Some l ->
  let '(v', r) := retry_create c fuel v lr nbs shift size fm cf last in
  v_tab v' = v_tab v /\
  match last with
  | OK _ => v' = v /\ r = last
  | _ => match r with OK bid => bid = bl_next l /\ lch grew v v' lr | _ => lperm v v' end
  end.
Proof.
  induction fuel as [|f IH]; intros v lr l nbs shift size fm cf last Hg; cbn [retry_create].
  - split; [reflexivity|]. destruct last; auto; apply lperm_refl.
  - destruct last as [b0|code| |]; try (split; [reflexivity|]; auto; apply lperm_refl).
    destruct (3 <=? shift); [split; [reflexivity|apply lperm_refl]|]. destruct (size <=? Z.quot nbs 2); [|split; [reflexivity|apply lperm_refl]].
    destruct (_ || _).
    + pose proof (create_block_eff v lr l (Z.quot nbs 2) Hg) as CB. destruct (create_block c v lr (Z.quot nbs 2)) as (v1 & r1).
      destruct CB as (T1 & CB).
      assert (Hnok : forall r1', (forall b, r1' <> OK b) -> lperm v v1 ->
                let '(v2, r2) := retry_create c f v1 lr (Z.quot nbs 2) (shift + 1) size fm cf r1' in
                v_tab v2 = v_tab v /\ match r2 with OK bid => bid = bl_next l /\ lch grew v v2 lr | _ => lperm v v2 end).
      { intros r1' Hn CB'. destruct (lperm_get _ _ _ _ CB' Hg) as (l1 & Hg1 & (_ & N1 & _)).
        specialize (IH v1 lr l1 (Z.quot nbs 2) (shift + 1) size fm cf r1' Hg1).
        destruct (retry_create c f v1 lr _ _ size fm cf r1') as (v2 & r2). destruct IH as (T2 & IH). split; [congruence|].
        destruct r1' as [b|code1| |]; [exfalso; eapply Hn; reflexivity| | |];
          (destruct r2 as [bid|code2| |]; try (eapply lperm_trans; eauto);
           destruct IH as (-> & G); (split; [exact N1|]); eapply lperm_lch; [apply lp_grew|exact CB'|exact G]). }
      destruct r1 as [bid|code1| |].
      * destruct CB as (-> & G). destruct (lch_get _ _ _ _ _ G Hg) as (l1 & Hg1 & _).
        specialize (IH v1 lr l1 (Z.quot nbs 2) (shift + 1) size fm cf (OK (bl_next l)) Hg1).
        destruct (retry_create c f v1 lr _ _ size fm cf (OK (bl_next l))) as (v2 & r2). destruct IH as (T2 & -> & ->). split; [exact T1|]. auto.
      * apply Hnok; [intros b; discriminate|exact CB].
      * apply Hnok; [intros b; discriminate|exact CB].
      * apply Hnok; [intros b; discriminate|exact CB].
    + apply (IH v lr l (Z.quot nbs 2) (shift + 1) size fm cf (ER code) Hg).
Qed.

Lemma put_block_tab' v lr b : v_tab (put_block v lr b) = v_tab v.
Proof. unfold put_block. destruct (get_blist v lr); [apply set_blist_tab|reflexivity]. Qed.

Lemma alloc_from_block_zlen v lr bid size align flags sub s :
  zlen (v_tab (fst (alloc_from_block c v lr bid size align flags sub s))) = zlen (v_tab v).
Proof.
  unfold alloc_from_block. destruct (get_block v lr bid) as [b|]; [|reflexivity]. destruct (negb _); [reflexivity|].
  destruct (meta_create_request _ _ _ _ _ _) as [mt1 rq| | |]; try reflexivity.
  unfold commit_request. set (v1 := put_block v lr _). assert (Et1 : v_tab v1 = v_tab v) by apply put_block_tab'.
  destruct (get_blist v1 lr) as [l1|]; [|cbn [fst]; rewrite Et1; reflexivity]. destruct (get_block v1 lr bid) as [b1|]; [|cbn [fst]; rewrite Et1; reflexivity].
  destruct (sm_sub _ _ _) as (m1 & s1). destruct (if fl flags F_MAPPED then _ else _) as ((m2 & s2) & mr).
  assert (E2 : forall bb, v_tab (put_block (set_m v1 m2) lr bb) = v_tab v) by (intros; rewrite put_block_tab'; exact Et1).
  destruct mr as [[]|code| |]; cbn [fst]; try (rewrite E2; reflexivity).
  assert (E3 : forall bb a, zlen (v_tab (set_alloc (put_block (set_m v1 m2) lr bb) s a)) = zlen (v_tab v)).
  { intros. cbn [set_alloc set_tab v_tab]. unfold zlen. rewrite set_nth_z_length, E2. reflexivity. }
  destruct (meta_alloc _ _ _ _ _ _) as [(mt2 & h)|code| |]; cbn [fst]; try apply E3.
  destruct (_ && _); cbn [fst]; [rewrite put_block_tab'; apply E3|].
  cbn [set_m v_tab set_alloc set_tab]. unfold zlen. rewrite set_nth_z_length, put_block_tab'. apply E3.
Qed.

Lemma try_blocks_zlen bids : forall v lr size align flags sub s,
  zlen (v_tab (fst (try_blocks c v lr bids size align flags sub s))) = zlen (v_tab v).
Proof.
  induction bids as [|bid tl IH]; intros v lr size align flags sub s; cbn [try_blocks]; [reflexivity|].
  pose proof (alloc_from_block_zlen v lr bid size align flags sub s) as H.
  destruct (alloc_from_block c v lr bid size align flags sub s) as (v1 & r). cbn [fst] in H.
  destruct r; cbn [fst]; try exact H.
  - unfold sort_list. destruct (get_blist v1 lr); [rewrite set_blist_tab|]; exact H.
  - rewrite IH. exact H.
Qed.

(* the Allocation object written by a successful allocFromBlock *)
Lemma alloc_from_block_slot v lr bid size align flags sub s v' :
  alloc_from_block c v lr bid size align flags sub s = (v', AFOk) -> 0 <= s < zlen (v_tab v) ->
  a_allocated (get_alloc v' s) = true /\ a_blk (get_alloc v' s) = bid /\ a_lref (get_alloc v' s) = lr /\ a_kind (get_alloc v' s) = 1.
Proof.
  unfold alloc_from_block. destruct (get_block v lr bid) as [b|]; [|discriminate]. destruct (negb _); [discriminate|].
  destruct (meta_create_request _ _ _ _ _ _) as [mt1 rq| | |]; try discriminate.
  unfold commit_request. set (v1 := put_block v lr _).
  assert (Et1 : v_tab v1 = v_tab v) by (unfold v1, put_block; destruct (get_blist v lr); [apply set_blist_tab|reflexivity]).
  destruct (get_blist v1 lr) as [l1|]; [|discriminate]. destruct (get_block v1 lr bid) as [b1|]; [|discriminate].
  destruct (sm_sub _ _ _) as (m1 & s1). destruct (if fl flags F_MAPPED then _ else _) as ((m2 & s2) & mr).
  destruct mr as [[]|code| |]; try discriminate.
  destruct (meta_alloc _ _ _ _ _ _) as [(mt2 & h)|code| |]; try discriminate.
  destruct (_ && _); [discriminate|]. intros E Hs. injection E as <-.
  unfold get_alloc. cbn [set_m v_tab set_alloc set_tab]. rewrite nth_z_set_same; [cbn; auto|].
  assert (Hp : forall w bb, v_tab (put_block w lr bb) = v_tab w) by (intros; unfold put_block; destruct (get_blist w lr); [apply set_blist_tab|reflexivity]).
  rewrite Hp. cbn [set_alloc set_tab v_tab]. unfold zlen. rewrite set_nth_z_length. rewrite Hp. cbn [set_m v_tab]. rewrite Et1. exact Hs.
Qed.

Lemma find_block_perm bs id b : find_block bs id = Some b -> Permutation (map bk_id bs) (id :: map bk_id (remove_block bs id)).
Proof.
  induction bs as [|x bs IH]; cbn; [discriminate|]. destruct (bk_id x =? id) eqn:E.
  - intros _. apply Z.eqb_eq in E. rewrite E. apply Permutation_refl.
  - intros H. cbn. eapply Permutation_trans; [apply perm_skip; apply IH; exact H|apply perm_swap].
Qed.

Lemma sort_list_tab v lr : v_tab (sort_list v lr) = v_tab v.
Proof. unfold sort_list. destruct (get_blist v lr); [apply set_blist_tab|reflexivity]. Qed.

(* what allocPage does to the block set of its list *)
Definition page_post (v' : vam) (lr : lref) (s : Z) (l l' : blist) (r : out unit) : Prop :=
  cfg_eq l l' /\
  ((Permutation (ids l') (ids l) /\ bl_next l <= bl_next l' <= bl_next l + 1) \/
   (Permutation (ids l') (bl_next l :: ids l) /\ bl_next l' = bl_next l + 1 /\ zlen (ids l) < bl_max l /\
    match r with
    | OK _ => a_allocated (get_alloc v' s) = true /\ a_blk (get_alloc v' s) = bl_next l /\ a_lref (get_alloc v' s) = lr /\ a_kind (get_alloc v' s) = 1
    | ER _ => exists b', In b' (bl_blocks l') /\ bk_id b' = bl_next l /\ (meta_is_empty (bk_meta b') = false \/ zlen (bl_blocks l') <= bl_min l')
    | _ => True
    end)).

Lemma alloc_page_eff v lr l size align flags sub s :
  get_blist v lr = Some l -> 0 <= s < zlen (v_tab v) ->
  let '(v', r) := alloc_page c v lr size align flags sub s in
  (forall lr0, lr0 <> lr -> orel lp (get_blist v lr0) (get_blist v' lr0)) /\
  exists l', get_blist v' lr = Some l' /\ page_post v' lr s l l' r.
Proof.
  (* (the table length is tracked separately: alloc_page_zlen) *)
  intros Hg Hs. unfold alloc_page. rewrite Hg.
  destruct (heap_budget c (v_m v) (type_heap c (bl_type l))) as ((m1 & usage) & budget).
  remember (if budget - usage <? 0 then 0 else budget - usage) as fm eqn:Efm. clear Efm.
  remember (negb (bl_explicit l) && negb (fl flags F_NEVER)) as cf eqn:Ecf. clear Ecf.
  (* outcomes that only permute *)
  assert (Hsame : forall v' r, lperm v v' -> (forall lr0, lr0 <> lr -> orel lp (get_blist v lr0) (get_blist v' lr0)) /\
            exists l', get_blist v' lr = Some l' /\ page_post v' lr s l l' r).
  { intros v' r H. split; [intros; apply H|]. destruct (lperm_get _ _ _ _ H Hg) as (l' & Hg' & (P1 & P2 & P3)).
    exists l'. split; [exact Hg'|]. split; [exact P3|]. left. split; [exact P1|lia]. }
  assert (H1 : lperm v (set_m v m1)) by apply lperm_set_m.
  destruct (_ && _); [apply Hsame; exact H1|]. destruct (bl_pref l <? size); [apply Hsame; exact H1|].
  pose proof (lperm_try_blocks (search_order c l flags) (set_m v m1) lr size align flags sub s) as H2.
  pose proof (try_blocks_zlen (search_order c l flags) (set_m v m1) lr size align flags sub s) as Hz2.
  destruct (try_blocks c (set_m v m1) lr (search_order c l flags) size align flags sub s) as (v2 & r). cbn [fst] in H2, Hz2. cbn [set_m v_tab] in Hz2.
  pose proof (lperm_trans _ _ _ H1 H2) as H02.
  destruct r; try (apply Hsame; exact H02).
  match goal with |- context [if negb ?cc then _ else _] => destruct cc eqn:Ecan end; cbn [negb]; [|apply Hsame; exact H02].
  assert (Hmax : zlen (ids l) < bl_max l).
  { apply andb_true_iff in Ecan. destruct Ecan as (Ecan & _). apply andb_true_iff in Ecan. destruct Ecan as (_ & Ecan).
    apply Z.ltb_lt in Ecan. unfold ids, zlen in *. rewrite map_length. exact Ecan. }
  destruct (lperm_get _ _ _ _ H02 Hg) as (l2 & Hg2 & P2).
  destruct (if bl_explicit l then (bl_pref l, 0) else shrink_new_block 3 (bl_pref l) 0 (calc_max_block_size l) size) as (nbs & shift).
  (* the first CreateBlock and the retries: at most one block more, with the next id *)
  match goal with |- context [if ?cond then create_block c v2 lr nbs else (v2, ER VK_OODM)] =>
    assert (K3 : let '(v3, first) := (if cond then create_block c v2 lr nbs else (v2, ER VK_OODM)) in
                 v_tab v3 = v_tab v2 /\ match first with OK bid => bid = bl_next l2 /\ lch grew v2 v3 lr | _ => lperm v2 v3 end);
    [destruct cond; [apply (create_block_eff v2 lr l2 nbs Hg2)|split; [reflexivity|apply lperm_refl]]|
     destruct (if cond then create_block c v2 lr nbs else (v2, ER VK_OODM)) as (v3 & first)]
  end.
  destruct K3 as (T3 & K3).
  match goal with |- context [if bl_explicit l then (v3, first) else ?rc] =>
    assert (K4 : let '(v4, created) := (if bl_explicit l then (v3, first) else rc) in
                 v_tab v4 = v_tab v2 /\ match created with OK bid => bid = bl_next l2 /\ lch grew v2 v4 lr | _ => lperm v2 v4 end);
    [|destruct (if bl_explicit l then (v3, first) else rc) as (v4 & created)]
  end.
  { destruct (bl_explicit l); [split; [exact T3|exact K3]|].
    destruct first as [bid|code| |].
    - destruct K3 as (-> & G). destruct (lch_get _ _ _ _ _ G Hg2) as (l3 & Hg3 & _).
      pose proof (retry_create_eff 3 v3 lr l3 nbs shift size fm cf (OK (bl_next l2)) Hg3) as R.
      destruct (retry_create c 3 v3 lr nbs shift size _ _ (OK (bl_next l2))) as (v4 & created). destruct R as (T4 & -> & ->).
      split; [exact T3|]. split; [reflexivity|exact G].
    - destruct (lperm_get _ _ _ _ K3 Hg2) as (l3 & Hg3 & (_ & N3 & _)).
      pose proof (retry_create_eff 3 v3 lr l3 nbs shift size fm cf (ER code) Hg3) as R.
      destruct (retry_create c 3 v3 lr nbs shift size fm cf (ER code)) as (v4 & created). destruct R as (T4 & R). split; [congruence|].
      destruct created as [bid|code4| |]; try (eapply lperm_trans; eauto).
      destruct R as (-> & G). split; [exact N3|]. eapply lperm_lch; [apply lp_grew|exact K3|exact G].
    - destruct (lperm_get _ _ _ _ K3 Hg2) as (l3 & Hg3 & (_ & N3 & _)).
      pose proof (retry_create_eff 3 v3 lr l3 nbs shift size fm cf (PANIC) Hg3) as R.
      destruct (retry_create c 3 v3 lr nbs shift size fm cf (PANIC)) as (v4 & created). destruct R as (T4 & R). split; [congruence|].
      destruct created as [bid|code4| |]; try (eapply lperm_trans; eauto).
      destruct R as (-> & G). split; [exact N3|]. eapply lperm_lch; [apply lp_grew|exact K3|exact G].
    - destruct (lperm_get _ _ _ _ K3 Hg2) as (l3 & Hg3 & (_ & N3 & _)).
      pose proof (retry_create_eff 3 v3 lr l3 nbs shift size fm cf (STUCK) Hg3) as R.
      destruct (retry_create c 3 v3 lr nbs shift size fm cf (STUCK)) as (v4 & created). destruct R as (T4 & R). split; [congruence|].
      destruct created as [bid|code4| |]; try (eapply lperm_trans; eauto).
      destruct R as (-> & G). split; [exact N3|]. eapply lperm_lch; [apply lp_grew|exact K3|exact G].
  }
  destruct K4 as (T4 & K4).
  destruct created as [bid|code| |]; try (apply Hsame; eapply lperm_trans; eauto).
  destruct K4 as (-> & G4). destruct P2 as (P2a & P2n & P2c). rewrite P2n in *.
  destruct (lch_get _ _ _ _ _ G4 Hg2) as (l4 & Hg4 & G4').
  (* from v to v4: one block more *)
  assert (G04 : lch grew v v4 lr) by (eapply lperm_lch; [apply lp_grew|exact H02|exact G4]).
  assert (Hz4 : zlen (v_tab v4) = zlen (v_tab v)) by (rewrite T4; exact Hz2).
  (* outcomes with the new block in the list *)
  assert (Hgrew : forall v' r l', lch grew v v' lr -> get_blist v' lr = Some l' ->
            match r with
            | OK _ => a_allocated (get_alloc v' s) = true /\ a_blk (get_alloc v' s) = bl_next l /\ a_lref (get_alloc v' s) = lr /\ a_kind (get_alloc v' s) = 1
            | ER _ => exists b', In b' (bl_blocks l') /\ bk_id b' = bl_next l /\ (meta_is_empty (bk_meta b') = false \/ zlen (bl_blocks l') <= bl_min l')
            | _ => True
            end ->
            (forall lr0, lr0 <> lr -> orel lp (get_blist v lr0) (get_blist v' lr0)) /\
            exists l'0, get_blist v' lr = Some l'0 /\ page_post v' lr s l l'0 r).
  { intros v' r l' G Hg' Hr. split; [apply G|]. destruct (lch_get _ _ _ _ _ G Hg) as (l'' & Hg'' & (Q1 & Q2 & Q3)).
    assert (l'' = l') by congruence. subst l''. exists l'. split; [exact Hg'|]. split; [exact Q3|]. right. auto. }
  destruct (get_block v4 lr (bl_next l)) as [nb|] eqn:Hgb; [|eapply Hgrew; eauto].
  destruct (meta_size (bk_meta nb) <? size); [eapply Hgrew; eauto|].
  pose proof (lperm_alloc_from_block v4 lr (bl_next l) size align flags sub s) as H5.
  pose proof (alloc_from_block_slot v4 lr (bl_next l) size align flags sub s) as S5.
  destruct (alloc_from_block c v4 lr (bl_next l) size align flags sub s) as (v5 & r2). cbn [fst] in H5.
  assert (G05 : lch grew v v5 lr) by (eapply lch_lperm; [apply grew_lp|exact G04|exact H5]).
  destruct (lch_get _ _ _ _ _ G05 Hg) as (l5 & Hg5 & G5).
  assert (Hgive : forall code2,
    let '(v6, dr) :=
        match get_blist v5 lr, get_block v5 lr (bl_next l) with
        | Some l5, Some b5 =>
          if meta_is_empty (bk_meta b5) && (bl_min l5 <? zlen (bl_blocks l5)) then
            let v5' := set_blist v5 lr (set_blocks l5 (remove_block (bl_blocks l5) (bl_next l))) in
            match destroy_block c v5' (bl_type l5) b5 with
            | (v', OK _) => (v', OK tt)
            | (v', STUCK) => (v', STUCK)
            | (v', _) => (v', PANIC)
            end
          else (v5, OK tt)
        | _, _ => (v5, STUCK)
        end in
    (forall lr0, lr0 <> lr -> orel lp (get_blist v lr0) (get_blist v6 lr0)) /\
    exists l', get_blist v6 lr = Some l' /\
      page_post v6 lr s l l' match dr with OK _ => ER code2 | ER code => ER code | PANIC => PANIC | STUCK => STUCK end).
  { intros code2. rewrite Hg5. destruct (get_block v5 lr (bl_next l)) as [b5|] eqn:Hgb5; [|eapply Hgrew; eauto].
    unfold get_block in Hgb5. rewrite Hg5 in Hgb5. destruct (find_block_in _ _ _ Hgb5) as (Hb5 & Hid5).
    destruct (meta_is_empty (bk_meta b5) && (bl_min l5 <? zlen (bl_blocks l5))) eqn:Econd.
    - (* the block is taken out again *)
      set (l5' := set_blocks l5 (remove_block (bl_blocks l5) (bl_next l))).
      assert (P5' : Permutation (ids l5') (ids l) /\ bl_next l5' = bl_next l + 1 /\ cfg_eq l l5').
      { destruct G5 as (Q1 & Q2 & Q3). split; [|split; [exact Q2|eapply cfg_eq_trans; [exact Q3|apply cfg_eq_set_blocks]]].
        apply Permutation_cons_inv with (a := bl_next l). eapply Permutation_trans; [|exact Q1].
        apply Permutation_sym. unfold ids, l5'. cbn. eapply find_block_perm; eauto. }
      assert (Hsb : forall vx, lperm (set_blist v5 lr l5') vx ->
                (forall lr0, lr0 <> lr -> orel lp (get_blist v lr0) (get_blist vx lr0)) /\
                exists l', get_blist vx lr = Some l' /\ Permutation (ids l') (ids l) /\ bl_next l' = bl_next l + 1 /\ cfg_eq l l').
      { intros vx Hx. split.
        - intros lr0 Hne. eapply orel_lp_trans; [apply G05; auto|]. specialize (Hx lr0). rewrite get_set_blist_other in Hx by congruence. exact Hx.
        - specialize (Hx lr). rewrite (get_set_blist_same _ _ _ _ Hg5) in Hx. unfold orel in Hx.
          destruct (get_blist vx lr) as [lx|]; [|contradiction]. exists lx. split; [reflexivity|].
          destruct Hx as (X1 & X2 & X3). destruct P5' as (Y1 & Y2 & Y3).
          split; [eapply Permutation_trans; eauto|split; [congruence|eapply cfg_eq_trans; eauto]]. }
      cbn zeta. fold l5'. pose proof (lperm_destroy_block (set_blist v5 lr l5') (bl_type l5) b5) as HD.
      destruct (destroy_block c (set_blist v5 lr l5') (bl_type l5) b5) as (v6 & r0). cbn [fst] in HD.
      destruct (Hsb v6 HD) as (A & l' & Hg' & B1 & B2 & B3).
      destruct r0 as [[]|code0| |]; (split; [exact A|]; exists l'; split; [exact Hg'|]; split; [exact B3|]; left; split; [exact B1|lia]).
    - (* it stays *)
      eapply Hgrew; eauto. exists b5. split; [exact Hb5|]. split; [exact Hid5|].
      apply andb_false_iff in Econd. destruct Econd as [E|E]; [left; exact E|right; apply Z.ltb_ge in E; exact E]. }
  destruct r2.
  - (* served from the new block *)
    destruct (lperm_get _ _ _ _ (lperm_sort_list v5 lr) Hg5) as (l6 & Hg6 & _).
    apply (Hgrew (sort_list v5 lr) (OK tt) l6).
    + eapply lch_lperm; [apply grew_lp|exact G05|apply lperm_sort_list].
    + exact Hg6.
    + destruct (S5 v5 eq_refl ltac:(lia)) as (A1 & A2 & A3 & A4). unfold get_alloc in *. rewrite sort_list_tab. auto.
  - specialize (Hgive VK_OODM). destruct (match get_blist v5 lr with Some _ => _ | None => _ end) as (v6 & dr). destruct dr; exact Hgive.
  - specialize (Hgive code). destruct (match get_blist v5 lr with Some _ => _ | None => _ end) as (v6 & dr). destruct dr; exact Hgive.
  - eapply Hgrew; eauto.
  - eapply Hgrew; eauto.
Qed.

(* ---------------------------------------------------------------- free *)

Lemma bl_free_eff v lr s keep l b :
  get_blist v lr = Some l -> get_block v lr (a_blk (get_alloc v s)) = Some b ->
  let '(v', r) := bl_free c v lr s keep in
  v_tab v' = v_tab v /\ (forall lr0, lr0 <> lr -> get_blist v' lr0 = get_blist v lr0) /\
  match r with
  | OK _ => exists mt' s3 budgetEx,
      meta_free (bk_meta b) (a_handle (get_alloc v s)) = OK mt' /\
      let b' := mkBlock (bk_id b) (bk_mem b) s3 mt' in
      get_blist v' lr = Some (incrementally_sort (set_blocks l (free_decide l (replace_block (bl_blocks l) b') b'
                                  (has_empty_block (bl_blocks l)) budgetEx keep)))
  | ER _ => exists s2, get_blist v' lr = Some (set_blocks l (replace_block (bl_blocks l) (mkBlock (bk_id b) (bk_mem b) s2 (bk_meta b))))
  | _ => True
  end.
Proof.
  intros Hg Hgb. unfold bl_free. rewrite Hg, Hgb.
  destruct (heap_budget c (v_m v) (type_heap c (bl_type l))) as ((m1 & usage) & budget).
  destruct (if a_persist (get_alloc v s) then _ else _) as ((m2 & s2) & ur).
  set (v2 := put_block (set_m v m2) lr (mkBlock (bk_id b) (bk_mem b) s2 (bk_meta b))).
  assert (Et2 : v_tab v2 = v_tab v) by (unfold v2; rewrite put_block_tab'; reflexivity).
  assert (Ho2 : forall lr0, lr0 <> lr -> get_blist v2 lr0 = get_blist v lr0).
  { intros lr0 Hne. unfold v2, put_block. rewrite get_blist_set_m, Hg. rewrite get_set_blist_other by congruence. apply get_blist_set_m. }
  assert (Hg2 : get_blist v2 lr = Some (set_blocks l (replace_block (bl_blocks l) (mkBlock (bk_id b) (bk_mem b) s2 (bk_meta b))))).
  { unfold v2, put_block. rewrite get_blist_set_m, Hg. eapply get_set_blist_same. rewrite get_blist_set_m. exact Hg. }
  destruct ur as [[]|code| |]; try (split; [exact Et2|split; [exact Ho2|exact I]]).
  2:{ split; [exact Et2|]. split; [exact Ho2|]. exists s2. exact Hg2. }
  destruct (meta_free (bk_meta b) (a_handle (get_alloc v s))) as [mt'|code| |] eqn:Efree; try (split; [exact Et2|split; [exact Ho2|exact I]]).
  destruct (sm_sub (v_m v2) (bk_mem b) s2) as (m3 & s3).
  set (b' := mkBlock (bk_id b) (bk_mem b) s3 mt'). set (bs3 := replace_block (bl_blocks l) b').
  set (budgetEx := budget <=? usage).
  assert (Edec : (let canDelete := negb keep && (bl_min l <? zlen bs3) in
                  if meta_is_empty mt' && (has_empty_block (bl_blocks l) || budgetEx) && canDelete then (remove_block bs3 (bk_id b'), Some b')
                  else if negb (meta_is_empty mt') && has_empty_block (bl_blocks l) && canDelete then
                    match rev bs3 with
                    | lastb :: rest => if meta_is_empty (bk_meta lastb) then (rev rest, Some lastb) else (bs3, None)
                    | [] => (bs3, None)
                    end
                  else (bs3, None)) =
                 (free_decide l bs3 b' (has_empty_block (bl_blocks l)) budgetEx keep,
                  snd (let canDelete := negb keep && (bl_min l <? zlen bs3) in
                  if meta_is_empty mt' && (has_empty_block (bl_blocks l) || budgetEx) && canDelete then (remove_block bs3 (bk_id b'), Some b')
                  else if negb (meta_is_empty mt') && has_empty_block (bl_blocks l) && canDelete then
                    match rev bs3 with
                    | lastb :: rest => if meta_is_empty (bk_meta lastb) then (rev rest, Some lastb) else (bs3, None)
                    | [] => (bs3, None)
                    end
                  else (bs3, None)))).
  { unfold free_decide. cbn zeta. cbn [bk_meta b']. destruct (_ && _ && _); [reflexivity|]. destruct (_ && _ && _); [|reflexivity].
    destruct (rev bs3) as [|lastb rest]; [reflexivity|]. destruct (meta_is_empty (bk_meta lastb)); reflexivity. }
  cbn zeta in Edec. rewrite Edec. clear Edec.
  set (bs4 := free_decide l bs3 b' (has_empty_block (bl_blocks l)) budgetEx keep).
  match goal with |- context [snd ?x] => generalize (snd x) end. intros toDelete.
  set (v3 := set_blist (set_m v2 m3) lr (incrementally_sort (set_blocks l bs4))).
  assert (Et3 : v_tab v3 = v_tab v) by (unfold v3; rewrite set_blist_tab; exact Et2).
  assert (Ho3 : forall lr0, lr0 <> lr -> get_blist v3 lr0 = get_blist v lr0).
  { intros lr0 Hne. unfold v3. rewrite get_set_blist_other by congruence. rewrite get_blist_set_m. apply Ho2. exact Hne. }
  assert (Hg3 : get_blist v3 lr = Some (incrementally_sort (set_blocks l bs4))).
  { unfold v3. eapply get_set_blist_same. rewrite get_blist_set_m. exact Hg2. }
  assert (Hd : let '(v4, dr) := match toDelete with
                 | Some db => match destroy_block c v3 (bl_type l) db with (v', OK _) => (v', OK tt) | (v', STUCK) => (v', STUCK) | (v', _) => (v', PANIC) end
                 | None => (v3, OK tt) end in
               (v_tab v4 = v_tab v /\ (forall lr0, get_blist v4 lr0 = get_blist v3 lr0)) /\ match dr with ER _ => False | _ => True end).
  { destruct toDelete as [db|]; [|split; [split; [exact Et3|reflexivity]|exact I]].
    unfold destroy_block. destruct (negb _); [split; [split; [exact Et3|reflexivity]|exact I]|]. destruct (free_vk _ _ _ _ _) as (mm & fr).
    destruct fr as [[]|code| |]; (split; [split; [exact Et3|intros; apply get_blist_set_m]|exact I]). }
  destruct (match toDelete with Some _ => _ | None => _ end) as (v4 & dr). destruct Hd as ((A & B) & Hne).
  assert (Hrest : v_tab v4 = v_tab v /\ (forall lr0, lr0 <> lr -> get_blist v4 lr0 = get_blist v lr0)).
  { split; [exact A|]. intros lr0 Hn. rewrite B. apply Ho3. exact Hn. }
  destruct dr as [[]|code| |]; try contradiction; try (destruct Hrest; split; [|split]; auto).
  pose proof (remove_allocation_no_error c (v_m v4) (type_heap c (bl_type l)) (a_size (get_alloc v s))) as NE.
  destruct (remove_allocation _ _ _ _) as (m5 & rr). cbn [snd] in NE.
  split; [exact A|]. split; [intros lr0 Hn; rewrite get_blist_set_m; apply Hrest; exact Hn|].
  destruct rr as [[]|code| |]; try exact I; try contradiction.
  exists mt', s3, budgetEx. split; [reflexivity|]. cbn zeta. rewrite get_blist_set_m, B. exact Hg3.
Qed.

(* ---------------------------------------------------------------- emptiness read off the Allocation table *)

Definition lref_eqb (a b : lref) : bool :=
  match a, b with LDef x, LDef y => x =? y | LPool x, LPool y => x =? y | _, _ => false end.

Lemma lref_eqb_eq a b : lref_eqb a b = true <-> a = b.
Proof.
  destruct a as [x|x], b as [y|y]; cbn; split; intros H; try discriminate; try (apply Z.eqb_eq in H; congruence);
    injection H as ->; apply Z.eqb_refl.
Qed.

Definition mem_zb (s : Z) (X : list Z) : bool := existsb (Z.eqb s) X.

Lemma mem_zb_In s X : mem_zb s X = true <-> In s X.
Proof.
  unfold mem_zb. rewrite existsb_exists. split.
  - intros (x & Hx & E). apply Z.eqb_eq in E. subst. auto.
  - intros H. exists s. split; [auto|apply Z.eqb_refl].
Qed.

(* slot s holds an allocated block allocation of block i of list lr that is not already released *)
Definition refers (v : vam) (X : list Z) (lr : lref) (i s : Z) : bool :=
  let a := get_alloc v s in
  a_allocated a && negb (mem_zb s X) && (a_kind a =? 1) && lref_eqb (a_lref a) lr && (a_blk a =? i).

Definition blk_used (v : vam) (X : list Z) (lr : lref) (i : Z) : bool :=
  existsb (refers v X lr i) (slot_range 0 (length (v_tab v))).

Lemma slot_range_in n : forall a s, In s (slot_range a n) <-> a <= s < a + Z.of_nat n.
Proof.
  induction n as [|k IH]; intros a s; cbn [slot_range In]; [lia|]. rewrite IH. lia.
Qed.

Lemma blk_used_spec v X lr i :
  blk_used v X lr i = true <->
  exists s a, slot_is v s a /\ ~ In s X /\ a_kind a = 1 /\ a_lref a = lr /\ a_blk a = i.
Proof.
  unfold blk_used. rewrite existsb_exists. split.
  - intros (s & Hs & Hr). unfold refers in Hr. repeat (apply andb_true_iff in Hr; destruct Hr as (Hr & ?)).
    exists s, (get_alloc v s). split; [apply get_alloc_allocated; exact Hr|].
    split; [intros Hin; apply mem_zb_In in Hin; rewrite Hin in *; discriminate|].
    split; [apply Z.eqb_eq; auto|]. split; [apply lref_eqb_eq; auto|apply Z.eqb_eq; auto].
  - intros (s & a & Sa & HX & K & L & B). exists s. split.
    + apply slot_range_in. pose proof (slot_is_range _ _ _ Sa). unfold zlen in *. lia.
    + unfold refers. rewrite (get_alloc_slot _ _ _ Sa). destruct Sa as (_ & Sa). rewrite Sa, K, L, B.
      assert (mem_zb s X = false) by (destruct (mem_zb s X) eqn:E; [apply mem_zb_In in E; contradiction|reflexivity]).
      rewrite H, (proj2 (lref_eqb_eq lr lr) eq_refl), !Z.eqb_refl. reflexivity.
Qed.

Lemma empty_iff_unused v U X lr l b :
  VamInvU c v U X -> get_blist v lr = Some l -> In b (bl_blocks l) -> emp b = negb (blk_used v X lr (bk_id b)).
Proof.
  intros HI Hg Hb. pose proof (vi_lists _ _ _ _ HI _ _ Hg) as Hwf. pose proof (bw_meta _ _ Hwf) as Hm. rewrite Forall_forall in Hm.
  destruct (meta_bookkeeping _ (Hm _ Hb)) as (_ & _ & He). unfold emp.
  destruct (blk_used v X lr (bk_id b)) eqn:Eu; cbn [negb].
  - apply blk_used_spec in Eu. destruct Eu as (s & a & Sa & HX & K & L & B).
    destruct (vi_slots _ _ _ _ HI s a Sa HX) as [(_ & l2 & b2 & rg & G2 & B2 & I2 & R2 & _)|(K2 & _)]; [|congruence].
    rewrite L in G2. assert (l2 = l) by congruence. subst l2.
    assert (b2 = b).
    { pose proof (in_find_block _ _ (bw_nodup _ _ Hwf) B2) as F2. pose proof (in_find_block _ _ (bw_nodup _ _ Hwf) Hb) as F1.
      rewrite I2, B in F2. congruence. }
    subst b2. destruct (meta_is_empty (bk_meta b)) eqn:E; [|reflexivity]. rewrite (proj1 He eq_refl) in R2. destruct R2.
  - destruct (meta_is_empty (bk_meta b)) eqn:E; [reflexivity|]. exfalso.
    destruct (meta_live (bk_meta b)) as [|rg tl] eqn:El; [pose proof (proj2 He eq_refl); discriminate|].
    destruct (vi_tags _ _ _ _ HI _ _ _ rg Hg Hb ltac:(rewrite El; left; reflexivity)) as (s & a & T & Sa & K & L & B & _).
    assert (HX : ~ In s X).
    { intros Hin. apply (vi_dang_tags _ _ _ _ HI s _ _ _ rg Hin Hg Hb); [rewrite El; left; reflexivity|exact T]. }
    assert (blk_used v X lr (bk_id b) = true) by (apply blk_used_spec; exists s, a; auto). congruence.
Qed.

Lemma cnt_empty_used v U X lr l :
  VamInvU c v U X -> get_blist v lr = Some l ->
  cnt_empty (bl_blocks l) = Z.of_nat (length (filter (fun i => negb (blk_used v X lr i)) (ids l))).
Proof.
  intros HI Hg. unfold cnt_empty, ids.
  assert (H : forall bs, (forall b, In b bs -> In b (bl_blocks l)) ->
            length (filter emp bs) = length (filter (fun i => negb (blk_used v X lr i)) (map bk_id bs))).
  { induction bs as [|b bs IH]; intros Hin; [reflexivity|]. cbn [filter map].
    rewrite (empty_iff_unused v U X lr l b HI Hg (Hin b (or_introl eq_refl))).
    destruct (negb _); cbn [length]; rewrite IH; auto; intros; apply Hin; right; auto. }
  rewrite H; auto.
Qed.

Lemma filter_len_perm_le (p p' : Z -> bool) L L' :
  Permutation L' L -> (forall i, In i L -> p' i = true -> p i = true) ->
  (length (filter p' L') <= length (filter p L))%nat.
Proof.
  intros P H. assert (E : length (filter p' L') = length (filter p' L)).
  { apply Permutation_length. clear H. induction P; cbn; auto.
    - destruct (p' x); [apply perm_skip|]; auto.
    - destruct (p' x), (p' y); try apply perm_swap; try apply perm_skip; apply Permutation_refl.
    - eapply Permutation_trans; eauto. }
  rewrite E. clear E P. induction L as [|x L IH]; cbn; [lia|].
  assert (IH' : (length (filter p' L) <= length (filter p L))%nat) by (apply IH; intros; apply H; auto; right; auto).
  destruct (p' x) eqn:E1.
  - rewrite (H x (or_introl eq_refl) E1). cbn. lia.
  - destruct (p x); cbn; lia.
Qed.

(* a list keeps its ids and its blocks are used at least as before: both policies carry over *)
Lemma policies_transfer v U X v' U' X' lr l l' :
  VamInvU c v U X -> VamInvU c v' U' X' -> get_blist v lr = Some l -> get_blist v' lr = Some l' ->
  Permutation (ids l') (ids l) -> cfg_eq l l' ->
  (forall i, In i (ids l) -> blk_used v X lr i = true -> blk_used v' X' lr i = true) ->
  LB l /\ RB l -> LB l' /\ RB l'.
Proof.
  intros HI HI' Hg Hg' P1 P3 Hu (HL & HR). destruct P3 as (_ & _ & Emin & Emax & _).
  assert (Ez : zlen (bl_blocks l') = zlen (bl_blocks l)).
  { pose proof (zlen_perm _ _ P1) as H. unfold ids, zlen in *. rewrite !map_length in H. exact H. }
  split.
  - unfold LB in *. rewrite Emin, Emax, Ez. exact HL.
  - unfold RB in *. rewrite Emin. rewrite (cnt_empty_used v' U' X' lr l' HI' Hg'). rewrite (cnt_empty_used v U X lr l HI Hg) in HR.
    pose proof (filter_len_perm_le (fun i => negb (blk_used v X lr i)) (fun i => negb (blk_used v' X' lr i)) (ids l) (ids l') P1) as H.
    assert (Hp : forall i, In i (ids l) -> negb (blk_used v' X' lr i) = true -> negb (blk_used v X lr i) = true).
    { intros i Hi Hn. destruct (blk_used v X lr i) eqn:E; [rewrite (Hu i Hi E) in Hn; discriminate|reflexivity]. }
    specialize (H Hp). lia.
Qed.

Lemma used_mono v X v' X' lr i :
  (forall s a, slot_is v s a -> ~ In s X -> a_kind a = 1 -> a_lref a = lr -> a_blk a = i -> slot_is v' s a /\ ~ In s X') ->
  blk_used v X lr i = true -> blk_used v' X' lr i = true.
Proof.
  intros H Hu. apply blk_used_spec in Hu. destruct Hu as (s & a & Sa & HX & K & L & B).
  destruct (H s a Sa HX K L B) as (Sa' & HX'). apply blk_used_spec. exists s, a. auto.
Qed.

(* the table changed at most at dead slots: what was used stays used *)
Lemma used_frame v v' S X lr i :
  tab_frame v v' S -> (forall s, In s S -> a_allocated (get_alloc v s) = false) ->
  blk_used v X lr i = true -> blk_used v' X lr i = true.
Proof.
  intros T Hd. apply used_mono. intros s a Sa HX _ _ _. split; [|exact HX].
  apply (slot_is_frame _ _ _ _ _ T); [|exact Sa]. intros Hin. specialize (Hd s Hin). rewrite (get_alloc_slot _ _ _ Sa) in Hd. destruct Sa. congruence.
Qed.

Lemma LInv_other v U X v' U' X' S :
  VamInvU c v U X -> VamInvU c v' U' X' -> LInv v ->
  tab_frame v v' S -> (forall s, In s S -> a_allocated (get_alloc v s) = false) -> (forall s, In s X' -> In s X) ->
  forall lr0 l0', orel lp (get_blist v lr0) (get_blist v' lr0) -> get_blist v' lr0 = Some l0' -> LB l0' /\ RB l0'.
Proof.
  intros HI HI' HL T Hd HXX lr0 l0' Ho Hg'. rewrite Hg' in Ho. unfold orel in Ho. destruct (get_blist v lr0) as [l0|] eqn:Hg0; [|contradiction].
  destruct Ho as (P1 & _ & P3). eapply policies_transfer; [exact HI|exact HI'|exact Hg0|exact Hg'|exact P1|exact P3| |exact (HL _ _ Hg0)].
  intros i _. apply used_mono. intros s a Sa HX _ _ _. split; [|intros H; apply HX; apply HXX; exact H].
  apply (slot_is_frame _ _ _ _ _ T); [|exact Sa]. intros Hin. specialize (Hd s Hin). rewrite (get_alloc_slot _ _ _ Sa) in Hd. destruct Sa. congruence.
Qed.

(* allocPage keeps both policies *)
Lemma alloc_page_L (Hc : cfg_ok c) v U X lr size align flags sub s :
  VamInvU c v U X -> LInv v -> Bits.pow2 align -> min_ok v lr align -> 0 <= s < zlen (v_tab v) -> a_allocated (get_alloc v s) = false ->
  let '(v', r) := alloc_page c v lr size align flags sub s in
  match r with PANIC | STUCK => True | _ => LInv v' end.
Proof.
  intros HI HL Hal Hmin Hs Hdead. pose proof (alloc_page_inv c Hc v U X lr size align flags sub s HI Hal Hmin Hs Hdead) as P.
  destruct (get_blist v lr) as [l|] eqn:Hg; [|unfold alloc_page; rewrite Hg; exact I].
  pose proof (alloc_page_eff v lr l size align flags sub s Hg Hs) as E.
  destruct (alloc_page c v lr size align flags sub s) as (v' & r).
  assert (Hmain : forall (I' : VamInvU c v' U X) (T : tab_frame v v' [s]),
            match r with PANIC | STUCK => False | _ => True end -> LInv v').
  { intros I' T Hok. destruct E as (Eo & l' & Hg' & Ec & Ecase).
    assert (HdS : forall s0, In s0 [s] -> a_allocated (get_alloc v s0) = false) by (intros s0 [<-|[]]; exact Hdead).
    intros lr0 l0' Hg0'. destruct (lref_eq_dec lr0 lr) as [->|Hne].
    2:{ eapply (LInv_other v U X v' U X [s]); eauto. }
    assert (l0' = l') by congruence. subst l0'. destruct (HL _ _ Hg) as (HLB & HRB).
    destruct Ecase as [(P1 & _)|(P1 & N1 & Hmax & Hr)].
    - eapply policies_transfer; [exact HI|exact I'|exact Hg|exact Hg'|exact P1|exact Ec| |split; auto].
      intros i _. eapply used_frame; eauto.
    - (* one block more *)
      destruct Ec as (_ & _ & Emin & Emax & _).
      assert (Ez : zlen (bl_blocks l') = zlen (bl_blocks l) + 1).
      { pose proof (zlen_perm _ _ P1) as H. unfold ids, zlen in *. cbn [length] in H. rewrite !map_length in H. lia. }
      assert (Hz : zlen (ids l) = zlen (bl_blocks l)) by (unfold ids, zlen; rewrite map_length; reflexivity).
      unfold LB, RB in *. rewrite Emin, Emax, Ez. split; [lia|].
      rewrite (cnt_empty_used v' U X lr l' I' Hg'). rewrite (cnt_empty_used v U X lr l HI Hg) in HRB.
      pose proof (Permutation_length (Permutation_sym P1)) as _.
      assert (Hlen : (length (filter (fun i => negb (blk_used v' X lr i)) (ids l')) =
                      length (filter (fun i => negb (blk_used v' X lr i)) (bl_next l :: ids l)))%nat).
      { apply Permutation_length. clear - P1. induction P1; cbn; auto.
        - destruct (negb _); [apply perm_skip|]; auto.
        - destruct (negb (blk_used v' X lr x)), (negb (blk_used v' X lr y)); try apply perm_swap; try apply perm_skip; apply Permutation_refl.
        - eapply Permutation_trans; eauto. }
      rewrite Hlen. cbn [filter].
      pose proof (filter_len_perm_le (fun i => negb (blk_used v X lr i)) (fun i => negb (blk_used v' X lr i)) (ids l) (ids l) (Permutation_refl _)) as Hle.
      assert (Hp : forall i, In i (ids l) -> negb (blk_used v' X lr i) = true -> negb (blk_used v X lr i) = true).
      { intros i Hi Hn. destruct (blk_used v X lr i) eqn:Eu; [|reflexivity]. rewrite (used_frame v v' [s] X lr i T HdS Eu) in Hn. discriminate. }
      specialize (Hle Hp).
      destruct r as [[]|code| |]; try contradiction.
      + (* the new block is used by the object just made *)
        destruct Hr as (A1 & A2 & A3 & A4).
        assert (Hused : blk_used v' X lr (bl_next l) = true).
        { apply blk_used_spec. exists s, (get_alloc v' s). split; [apply get_alloc_allocated; exact A1|].
          split; [|auto]. intros Hin. destruct (vi_dang _ _ _ _ HI _ Hin) as (a1 & S1 & _). rewrite (get_alloc_slot _ _ _ S1) in Hdead. destruct S1. congruence. }
        rewrite Hused. cbn [negb]. lia.
      + destruct Hr as (b' & Hb' & Hid' & [He|Hz']).
        * change (emp b' = false) in He. rewrite (empty_iff_unused v' U X lr l' b' I' Hg' Hb'), Hid' in He. rewrite He. lia.
        * pose proof (cnt_empty_bounds (bl_blocks l')) as B. rewrite (cnt_empty_used v' U X lr l' I' Hg'), Hlen in B. cbn [filter] in B. lia.
  }
  destruct r as [[]|code| |]; try exact I; cbn [ap_post] in P; destruct P as (I' & T & _ & R); apply Hmain; auto.
Qed.

Lemma allocate_loop_L (Hc : cfg_ok c) slots : forall v U X lr done size align flags sub,
  VamInvU c v U X -> LInv v -> Bits.pow2 align -> min_ok v lr align -> NoDup slots -> dead_slots v slots ->
  let '(v', r, done') := allocate_loop c v lr slots done size align flags sub in
  match r with PANIC | STUCK => True | _ => LInv v' end.
Proof.
  induction slots as [|s tl IH]; intros v U X lr done size align flags sub HI HL Hal Hmin Hnd Hdead; cbn [allocate_loop]; [exact HL|].
  destruct (Hdead s (or_introl eq_refl)) as (Hr & Hd). inversion Hnd as [|? ? Hns Hnd']; subst.
  pose proof (alloc_page_inv c Hc v U X lr size align flags sub s HI Hal Hmin Hr Hd) as AP.
  pose proof (alloc_page_L Hc v U X lr size align flags sub s HI HL Hal Hmin Hr Hd) as AL.
  destruct (alloc_page c v lr size align flags sub s) as (v1 & r). destruct r as [[]|code| |]; try exact I; [|exact AL].
  cbn [ap_post] in AP. destruct AP as (I1 & T1 & L1 & _).
  apply (IH v1 U X lr (s :: done) size align flags sub I1 AL Hal (min_ok_frame _ _ _ _ L1 Hmin) Hnd').
  eapply dead_slots_frame; [intros s1 H1; apply Hdead; right; exact H1|exact T1|]. intros s1 H1 [<-|[]]. contradiction.
Qed.

(* ---------------------------------------------------------------- the loops of a failing Allocate *)

(* blocks are only added, with fresh ids *)
Definition grows_to (l l' : blist) : Prop :=
  cfg_eq l l' /\ bl_next l <= bl_next l' /\ incl (ids l) (ids l') /\ (forall i, In i (ids l') -> In i (ids l) \/ bl_next l <= i).

Lemma grows_refl l : grows_to l l.
Proof. split; [apply cfg_eq_refl|split; [lia|split; [apply incl_refl|auto]]]. Qed.

Lemma grows_trans a b d : grows_to a b -> grows_to b d -> grows_to a d.
Proof.
  intros (A1 & A2 & A3 & A4) (B1 & B2 & B3 & B4). split; [eapply cfg_eq_trans; eauto|]. split; [lia|]. split; [eapply incl_tran; eauto|].
  intros i Hi. destruct (B4 i Hi) as [H|H]; [apply A4; exact H|right; lia].
Qed.

Lemma page_post_grows v' lr s l l' r : page_post v' lr s l l' r -> grows_to l l'.
Proof.
  intros (Ec & [(P & N)|(P & N & _)]); split; auto; (split; [lia|]); split.
  - intros i Hi. eapply Permutation_in; [apply Permutation_sym; exact P|exact Hi].
  - intros i Hi. left. eapply Permutation_in; [exact P|exact Hi].
  - intros i Hi. eapply Permutation_in; [apply Permutation_sym; exact P|right; exact Hi].
  - intros i Hi. apply (Permutation_in _ P) in Hi. destruct Hi as [<-|Hi]; [right; lia|left; exact Hi].
Qed.

Lemma allocate_loop_ids (Hc : cfg_ok c) slots : forall v U X lr l done size align flags sub,
  VamInvU c v U X -> Bits.pow2 align -> min_ok v lr align -> NoDup slots -> dead_slots v slots -> get_blist v lr = Some l ->
  let '(v', r, done') := allocate_loop c v lr slots done size align flags sub in
  match r with
  | PANIC | STUCK => True
  | _ => (forall lr0, lr0 <> lr -> orel lp (get_blist v lr0) (get_blist v' lr0)) /\
         exists l', get_blist v' lr = Some l' /\ grows_to l l'
  end.
Proof.
  induction slots as [|s tl IH]; intros v U X lr l done size align flags sub HI Hal Hmin Hnd Hdead Hg; cbn [allocate_loop].
  - split; [intros lr0 _; unfold orel; destruct (get_blist v lr0); [apply lp_refl|exact I]|]. exists l. split; [exact Hg|apply grows_refl].
  - destruct (Hdead s (or_introl eq_refl)) as (Hr & Hd). inversion Hnd as [|? ? Hns Hnd']; subst.
    pose proof (alloc_page_inv c Hc v U X lr size align flags sub s HI Hal Hmin Hr Hd) as AP.
    pose proof (alloc_page_eff v lr l size align flags sub s Hg Hr) as E.
    destruct (alloc_page c v lr size align flags sub s) as (v1 & r). destruct E as (Eo & l1 & Hg1 & Ep).
    pose proof (page_post_grows _ _ _ _ _ _ Ep) as G1.
    destruct r as [[]|code| |]; try exact I.
    + cbn [ap_post] in AP. destruct AP as (I1 & T1 & L1 & _).
      assert (Hd1 : dead_slots v1 tl).
      { eapply dead_slots_frame; [intros s1 H1; apply Hdead; right; exact H1|exact T1|]. intros s1 H1 [<-|[]]. contradiction. }
      specialize (IH v1 U X lr l1 (s :: done) size align flags sub I1 Hal (min_ok_frame _ _ _ _ L1 Hmin) Hnd' Hd1 Hg1).
      destruct (allocate_loop c v1 lr tl (s :: done) size align flags sub) as ((v2 & r2) & done2).
      destruct r2 as [[]|code| |]; try exact I; destruct IH as (Io & l2 & Hg2 & G2);
        (split; [intros lr0 Hne; eapply orel_lp_trans; [apply Eo; exact Hne|apply Io; exact Hne]|exists l2; split; [exact Hg2|eapply grows_trans; eauto]]).
    + split; [exact Eo|]. exists l1. auto.
Qed.

(* free with keepBlocks never changes a block set *)
Lemma bl_free_keep_lperm v lr s :
  let '(v', r) := bl_free c v lr s true in match r with OK _ | ER _ => lperm v v' | _ => True end.
Proof.
  destruct (get_blist v lr) as [l|] eqn:Hg; [|unfold bl_free; rewrite Hg; exact I].
  destruct (get_block v lr (a_blk (get_alloc v s))) as [b|] eqn:Hgb; [|unfold bl_free; rewrite Hg, Hgb; exact I].
  pose proof (bl_free_eff v lr s true l b Hg Hgb) as E. destruct (bl_free c v lr s true) as (v' & r).
  destruct E as (_ & Eo & Er). destruct r as [[]|code| |]; try exact I.
  - destruct Er as (mt' & s3 & be & _ & Hg'). cbn zeta in Hg'. rewrite free_decide_keep in Hg'.
    intros lr0. destruct (lref_eq_dec lr0 lr) as [->|Hne].
    + rewrite Hg, Hg'. unfold orel. eapply lp_trans; [|apply lp_sort]. unfold lp, ids. cbn. rewrite replace_block_ids.
      split; [apply Permutation_refl|split; [reflexivity|apply cfg_eq_set_blocks]].
    + rewrite (Eo lr0 Hne). unfold orel. destruct (get_blist v lr0); [apply lp_refl|exact I].
  - destruct Er as (s2 & Hg'). intros lr0. destruct (lref_eq_dec lr0 lr) as [->|Hne].
    + rewrite Hg, Hg'. unfold orel, lp, ids. cbn. rewrite replace_block_ids.
      split; [apply Permutation_refl|split; [reflexivity|apply cfg_eq_set_blocks]].
    + rewrite (Eo lr0 Hne). unfold orel. destruct (get_blist v lr0); [apply lp_refl|exact I].
Qed.

Lemma unwind_loop_lperm done : forall v lr,
  let '(v', r) := unwind_loop c v lr done in match r with OK _ => lperm v v' | _ => True end.
Proof.
  induction done as [|s tl IH]; intros v lr; cbn [unwind_loop]; [apply lperm_refl|].
  pose proof (bl_free_keep_lperm v lr s) as F. destruct (bl_free c v lr s true) as (v1 & r). destruct r as [[]|code| |]; try exact I.
  specialize (IH (set_alloc v1 s (set_allocated (get_alloc v1 s) false)) lr).
  destruct (unwind_loop c _ lr tl) as (v2 & r2). destruct r2 as [[]|code| |]; try exact I.
  eapply lperm_trans; [exact F|]. eapply lperm_trans; [apply lperm_set_alloc|exact IH].
Qed.

(* releaseEmptyBlocksCreatedSince *)
Definition released (l l' : blist) (firstId : Z) (bids : list Z) : Prop :=
  cfg_eq l l' /\ bl_next l' = bl_next l /\
  (forall b, In b (bl_blocks l') -> In b (bl_blocks l)) /\
  (forall b, In b (bl_blocks l) -> bk_id b < firstId \/ emp b = false -> In b (bl_blocks l')) /\
  NoDup (ids l') /\
  (bl_min l <= zlen (bl_blocks l) -> bl_min l <= zlen (bl_blocks l')) /\
  (zlen (bl_blocks l') <= bl_min l \/ forall b, In b (bl_blocks l') -> In (bk_id b) bids -> firstId <= bk_id b -> emp b = false).

Lemma release_loop_eff bids : forall v lr l firstId,
  get_blist v lr = Some l -> NoDup (ids l) ->
  let '(v', r) := release_loop c v lr bids firstId in
  match r with
  | OK _ => v_tab v' = v_tab v /\ (forall lr0, lr0 <> lr -> get_blist v' lr0 = get_blist v lr0) /\
            exists l', get_blist v' lr = Some l' /\ released l l' firstId bids
  | _ => True
  end.
Proof.
  induction bids as [|bid tl IH]; intros v lr l firstId Hg Hnd; cbn [release_loop].
  - split; [reflexivity|]. split; [auto|]. exists l. split; [exact Hg|]. split; [apply cfg_eq_refl|]. split; [reflexivity|].
    split; [auto|]. split; [auto|]. split; [exact Hnd|]. split; [auto|]. right. intros b _ [].
  - rewrite Hg. destruct (negb (bl_min l <? zlen (bl_blocks l))) eqn:Emin.
    { split; [reflexivity|]. split; [auto|]. exists l. split; [exact Hg|]. split; [apply cfg_eq_refl|]. split; [reflexivity|].
      split; [auto|]. split; [auto|]. split; [exact Hnd|]. split; [auto|]. left. apply negb_true_iff in Emin. apply Z.ltb_ge in Emin. exact Emin. }
    destruct (find_block (bl_blocks l) bid) as [b|] eqn:Hf; [|exact I]. destruct (find_block_in _ _ _ Hf) as (Hb & Hid).
    destruct ((bk_id b <? firstId) || negb (meta_is_empty (bk_meta b))) eqn:Eskip.
    + (* skipped *)
      specialize (IH v lr l firstId Hg Hnd). destruct (release_loop c v lr tl firstId) as (v' & r). destruct r as [[]|code| |]; try exact I.
      destruct IH as (T & Ho & l' & Hg' & (R1 & R2 & R3 & R4 & R5 & R6 & R7)). split; [exact T|]. split; [exact Ho|]. exists l'. split; [exact Hg'|].
      split; [exact R1|]. split; [exact R2|]. split; [exact R3|]. split; [exact R4|]. split; [exact R5|]. split; [exact R6|].
      destruct R7 as [R7|R7]; [left; exact R7|right]. intros b0 Hb0 [E|Hin] Hge; [|apply R7; auto].
      assert (b0 = b).
      { pose proof (in_find_block _ _ Hnd (R3 _ Hb0)) as F0. rewrite E in Hf. congruence. }
      subst b0. apply orb_true_iff in Eskip. destruct Eskip as [E1|E1]; [apply Z.ltb_lt in E1; lia|apply negb_true_iff in E1; exact E1].
    + (* released *)
      apply orb_false_iff in Eskip. destruct Eskip as (E1 & E2). apply Z.ltb_ge in E1. apply negb_false_iff in E2.
      set (l1 := set_blocks l (remove_block (bl_blocks l) bid)). set (v1 := set_blist v lr l1).
      assert (Hg1 : get_blist v1 lr = Some l1) by (unfold v1; eapply get_set_blist_same; eauto).
      assert (Hnd1 : NoDup (ids l1)) by (unfold ids, l1; cbn; apply remove_block_nodup; exact Hnd).
      unfold destroy_block. fold (emp b). unfold emp. rewrite E2. cbn [negb].
      destruct (free_vk c (v_m v1) (bl_type l) (meta_size (bk_meta b)) (bk_mem b)) as (m2 & fr).
      destruct fr as [[]|code| |]; try exact I.
      specialize (IH (set_m v1 m2) lr l1 firstId ltac:(rewrite get_blist_set_m; exact Hg1) Hnd1).
      destruct (release_loop c (set_m v1 m2) lr tl firstId) as (v' & r). destruct r as [[]|code| |]; try exact I.
      destruct IH as (T & Ho & l' & Hg' & (R1 & R2 & R3 & R4 & R5 & R6 & R7)).
      split; [rewrite T; cbn; unfold v1; apply set_blist_tab|].
      split; [intros lr0 Hne; rewrite (Ho lr0 Hne), get_blist_set_m; unfold v1; apply get_set_blist_other; congruence|].
      exists l'. split; [exact Hg'|].
      assert (Hrm : forall x, In x (bl_blocks l1) <-> In x (bl_blocks l) /\ bk_id x <> bid).
      { intros x. unfold l1. cbn. split.
        - intros H. split; [eapply in_remove_block; eauto|exact (in_remove_block_ne _ _ _ Hnd H)].
        - intros (H & Hn). apply remove_block_keeps; auto. }
      destruct (cnt_remove (bl_blocks l) b Hnd Hb) as (_ & Zr). rewrite Hid in Zr.
      apply negb_false_iff in Emin. apply Z.ltb_lt in Emin.
      split; [eapply cfg_eq_trans; [apply cfg_eq_set_blocks|exact R1]|]. split; [rewrite R2; reflexivity|].
      split; [intros x Hx; apply Hrm; apply R3; exact Hx|].
      split.
      { intros x Hx Hor. apply R4; [apply Hrm; split; [exact Hx|]|exact Hor].
        intros E. assert (x = b) by (pose proof (in_find_block _ _ Hnd Hx) as F0; rewrite E in F0; congruence). subst x.
        destruct Hor as [H|H]; [lia|unfold emp in H; congruence]. }
      split; [exact R5|]. split.
      { intros _. apply R6. unfold l1. cbn [bl_blocks set_blocks bl_min]. lia. }
      destruct R7 as [R7|R7]; [left; exact R7|right]. intros b0 Hb0 [E|Hin] Hge; [|apply R7; auto].
      exfalso. destruct (proj1 (Hrm b0) (R3 _ Hb0)) as (_ & Hn). congruence.
Qed.

(* ---------------------------------------------------------------- memoryBlockList.Allocate keeps both policies *)

Lemma nodup_incl_perm (a b : list Z) : NoDup a -> NoDup b -> incl a b -> incl b a -> Permutation a b.
Proof. intros Ha Hb H1 H2. apply NoDup_Permutation; auto. intros x. split; auto. Qed.

Lemma bl_allocate_L (Hc : cfg_ok c) v U X lr slots size align0 flags sub :
  VamInvU c v U X -> LInv v -> align0 = 0 \/ Bits.pow2 align0 -> NoDup slots -> dead_slots v slots ->
  let '(v', r) := bl_allocate c v lr slots size align0 flags sub in
  match r with OK _ | ER _ => LInv v' | _ => True end.
Proof.
  intros HI HL Hal Hnd Hdead.
  pose proof (bl_allocate_inv c Hc v U X lr slots size align0 flags sub HI Hal Hnd Hdead) as P.
  unfold bl_allocate in *. destruct (get_blist v lr) as [l|] eqn:Hg; [|exact I].
  pose proof (vi_lists _ _ _ _ HI _ _ Hg) as Hwf.
  assert (Hal' : Bits.pow2 (if align0 <? bl_minalign l then bl_minalign l else align0)).
  { pose proof (bw_align _ _ Hwf) as Hm. pose proof (Bits.pow2_pos _ Hm). destruct (align0 <? bl_minalign l) eqn:E; [auto|].
    destruct Hal as [->|H']; [apply Z.ltb_ge in E; lia|auto]. }
  assert (Hnd0 : NoDup (slots ++ [])) by (rewrite app_nil_r; auto).
  assert (Hbs0 : block_slots v lr X []) by (split; [constructor|intros ? []]).
  assert (Hmin0 : min_ok v lr (if align0 <? bl_minalign l then bl_minalign l else align0)).
  { intros l' G'. rewrite Hg in G'. injection G' as <-. destruct (align0 <? bl_minalign l) eqn:E; [lia|apply Z.ltb_ge in E; lia]. }
  pose proof (allocate_loop_inv c Hc slots v U X lr [] size _ flags sub HI Hal' Hmin0 Hnd0 Hdead Hbs0) as AL.
  pose proof (allocate_loop_L Hc slots v U X lr [] size _ flags sub HI HL Hal' Hmin0 Hnd Hdead) as LL.
  pose proof (allocate_loop_ids Hc slots v U X lr l [] size _ flags sub HI Hal' Hmin0 Hnd Hdead Hg) as IL.
  destruct (allocate_loop c v lr slots [] size _ flags sub) as ((v1 & r) & done).
  destruct r as [[]|code| |]; try exact I; [exact LL|].
  destruct AL as (K1 & B1 & _ & Q1 & O1). destruct IL as (Io1 & l1 & Hg1 & G1).
  pose proof (unwind_loop_inv c done v1 U X lr (proj1 K1) B1) as UW.
  pose proof (unwind_loop_lperm done v1 lr) as UP.
  destruct (unwind_loop c v1 lr done) as (v2 & ur). destruct ur as [[]|ucode| |]; try exact I; [|contradiction].
  destruct UW as (K2 & D2). destruct (lperm_get _ _ _ _ UP Hg1) as (l2 & Hg2 & P12).
  pose proof (vi_lists _ _ _ _ (proj1 K2) _ _ Hg2) as Hwf2.
  unfold release_empty_since in *. rewrite Hg2 in *.
  pose proof (release_loop_inv c (map bk_id (rev (bl_blocks l2))) v2 U X lr (bl_next l) (proj1 K2)) as RE.
  pose proof (release_loop_eff (map bk_id (rev (bl_blocks l2))) v2 lr l2 (bl_next l) Hg2 (bw_nodup _ _ Hwf2)) as RL.
  destruct (release_loop c v2 lr (map bk_id (rev (bl_blocks l2))) (bl_next l)) as (v3 & rr). destruct rr as [[]|rcode| |]; try exact I; [|contradiction].
  destruct RL as (T3 & Ro & l3 & Hg3 & (R1 & R2 & R3 & R4 & R5 & R6 & R7)). destruct RE as (I3 & T23 & _).
  (* the table: outside the caller's objects nothing changed, and those are unallocated before and after *)
  assert (Hsub : forall s, In s done -> In s slots) by (intros s Hs; specialize (Q1 s Hs); rewrite app_nil_r in Q1; auto).
  assert (T03 : tab_frame v v3 slots).
  { eapply tab_frame_trans_same; [apply K1|]. eapply tab_frame_trans_same; [eapply tab_frame_weaken; [apply K2|exact Hsub]|].
    eapply tab_frame_weaken; [exact T23|intros ? []]. }
  assert (HdS : forall s, In s slots -> a_allocated (get_alloc v s) = false) by (intros s Hs; apply Hdead; exact Hs).
  intros lr0 l0' Hg0'. destruct (lref_eq_dec lr0 lr) as [->|Hne].
  2:{ eapply (LInv_other v U X v3 U X slots); eauto.
      eapply orel_lp_trans; [apply Io1; exact Hne|]. eapply orel_lp_trans; [apply UP|]. rewrite (Ro lr0 Hne).
      unfold orel. destruct (get_blist v2 lr0); [apply lp_refl|exact I]. }
  assert (l0' = l3) by congruence. subst l0'.
  destruct (HL _ _ Hg) as (HLB & HRB). destruct (LL _ _ Hg1) as (HLB1 & _).
  destruct G1 as (C01 & N01 & In01 & New01). destruct P12 as (Pm12 & N12 & C12).
  assert (Ecfg : cfg_eq l l3) by (eapply cfg_eq_trans; [exact C01|]; eapply cfg_eq_trans; [exact C12|exact R1]).
  destruct Ecfg as (Ety & Epf & Emin & Emax & Eex & Eal).
  assert (Ez12 : zlen (bl_blocks l2) = zlen (bl_blocks l1)).
  { pose proof (zlen_perm _ _ Pm12) as H. unfold ids, zlen in *. rewrite !map_length in H. exact H. }
  destruct C01 as (_ & _ & Emin1 & Emax1 & _). destruct C12 as (_ & _ & Emin2 & Emax2 & _).
  assert (Hlen3 : zlen (bl_blocks l3) <= zlen (bl_blocks l2)).
  { assert (Hincl : incl (ids l3) (ids l2)) by (intros i Hi; unfold ids in *; apply in_map_iff in Hi; destruct Hi as (b & <- & Hb); apply in_map; apply R3; exact Hb).
    pose proof (NoDup_incl_length R5 Hincl) as H. unfold ids, zlen in *. rewrite !map_length in H. lia. }
  assert (HLB3 : LB l3).
  { unfold LB in *. rewrite Emin, Emax. split; [|lia]. rewrite <- Emin. rewrite Emin in *.
    assert (bl_min l2 <= zlen (bl_blocks l2)) by (rewrite Emin2, Emin1, Ez12; lia).
    specialize (R6 H). lia. }
  split; [exact HLB3|].
  (* the blocks of the list are used exactly as before the call *)
  assert (Huse : forall i, blk_used v3 X lr i = blk_used v X lr i).
  { intros i. destruct (blk_used v X lr i) eqn:E.
    - eapply used_frame; eauto.
    - destruct (blk_used v3 X lr i) eqn:E3; [|reflexivity]. exfalso.
      apply blk_used_spec in E3. destruct E3 as (s & a & Sa & HX & K & L & B).
      assert (Hns : ~ In s slots).
      { intros Hin. assert (Hd3 : a_allocated (get_alloc v3 s) = false).
        { destruct (in_dec Z.eq_dec s done) as [Hd|Hnd'].
          - rewrite (get_alloc_frame _ _ _ _ T23) by (intros []). apply D2. exact Hd.
          - destruct (O1 s Hin) as [H|(_ & Hd1)]; [contradiction|].
            rewrite (get_alloc_frame _ _ _ _ T23) by (intros []).
            rewrite (get_alloc_frame _ _ _ _ (proj1 (proj2 K2))) by exact Hnd'. exact Hd1. }
        rewrite (get_alloc_slot _ _ _ Sa) in Hd3. destruct Sa. congruence. }
      assert (Sa0 : slot_is v s a) by (apply (slot_is_frame _ _ _ _ _ T03); auto).
      assert (blk_used v X lr i = true) by (apply blk_used_spec; exists s, a; auto). congruence. }
  unfold RB. rewrite Emin.
  destruct R7 as [R7|R7].
  { pose proof (cnt_empty_bounds (bl_blocks l3)). lia. }
  (* no block made by this call is left: the ids are those of before *)
  assert (Hold3 : forall b, In b (bl_blocks l3) -> bk_id b < bl_next l).
  { intros b Hb. destruct (Z.lt_ge_cases (bk_id b) (bl_next l)) as [H|H]; [exact H|exfalso].
    assert (Hin2 : In (bk_id b) (map bk_id (rev (bl_blocks l2)))) by (apply in_map; apply in_rev; rewrite rev_involutive; apply R3; exact Hb).
    specialize (R7 b Hb Hin2 H).
    rewrite (empty_iff_unused v3 U X lr l3 b I3 Hg3 Hb), Huse in R7.
    apply negb_false_iff in R7. apply blk_used_spec in R7. destruct R7 as (s & a & Sa & HX & K & L & B).
    destruct (vi_slots _ _ _ _ HI s a Sa HX) as [(_ & l' & b' & rg & G' & B' & I' & _)|(K2' & _)]; [|congruence].
    rewrite L in G'. assert (l' = l) by congruence. subst l'.
    pose proof (bw_ids _ _ Hwf) as Hids. rewrite Forall_forall in Hids. specialize (Hids b' B'). lia. }
  assert (Pm03 : Permutation (ids l3) (ids l)).
  { apply nodup_incl_perm; [exact R5|apply (bw_nodup _ _ Hwf)| |].
    - intros i Hi. unfold ids in Hi. apply in_map_iff in Hi. destruct Hi as (b & <- & Hb).
      assert (Hi2 : In (bk_id b) (ids l2)) by (apply in_map; apply R3; exact Hb).
      apply (Permutation_in _ Pm12) in Hi2. destruct (New01 _ Hi2) as [H|H]; [exact H|]. specialize (Hold3 b Hb). lia.
    - intros i Hi. pose proof (In01 i Hi) as Hi1. apply (Permutation_in _ (Permutation_sym Pm12)) in Hi1.
      unfold ids in Hi1. apply in_map_iff in Hi1. destruct Hi1 as (b & <- & Hb).
      apply in_map. apply R4; [exact Hb|]. left.
      pose proof (bw_ids _ _ Hwf) as Hids. rewrite Forall_forall in Hids.
      unfold ids in Hi. apply in_map_iff in Hi. destruct Hi as (b0 & E0 & Hb0). specialize (Hids b0 Hb0). lia. }
  rewrite (cnt_empty_used v3 U X lr l3 I3 Hg3). unfold RB in HRB. rewrite (cnt_empty_used v U X lr l HI Hg) in HRB.
  pose proof (filter_len_perm_le (fun i => negb (blk_used v X lr i)) (fun i => negb (blk_used v3 X lr i)) (ids l) (ids l3) Pm03) as H.
  assert (Hp : forall i, In i (ids l) -> negb (blk_used v3 X lr i) = true -> negb (blk_used v X lr i) = true) by (intros i _; rewrite Huse; auto).
  specialize (H Hp). lia.
Qed.

(* ---------------------------------------------------------------- free keeps both policies *)

Lemma bl_free_L v U X s a :
  VamInvU c v U X -> LInv v -> slot_is v s a -> ~ In s X -> a_kind a = 1 ->
  let '(v', r) := bl_free c v (a_lref a) s false in
  match r with OK _ | ER _ => LInv v' | _ => True end.
Proof.
  intros HI HL Sa HX Ka.
  destruct (vi_slots _ _ _ _ HI s a Sa HX) as [(_ & l & b & rg & Hg & Hb & Hid & Hrg & _)|(K & _)]; [|congruence].
  pose proof (vi_lists _ _ _ _ HI _ _ Hg) as Hwf. pose proof (bw_nodup _ _ Hwf) as Hnd.
  pose proof (bw_meta _ _ Hwf) as Hmeta. rewrite Forall_forall in Hmeta.
  assert (Hgb : get_block v (a_lref a) (a_blk (get_alloc v s)) = Some b).
  { rewrite (get_alloc_slot _ _ _ Sa). unfold get_block. rewrite Hg, <- Hid. apply in_find_block; auto. }
  assert (Hne : emp b = false).
  { unfold emp. destruct (meta_bookkeeping _ (Hmeta _ Hb)) as (_ & _ & He). destruct (meta_is_empty (bk_meta b)) eqn:E; [|reflexivity].
    rewrite (proj1 He eq_refl) in Hrg. destruct Hrg. }
  pose proof (bl_free_eff v (a_lref a) s false l b Hg Hgb) as E.
  destruct (bl_free c v (a_lref a) s false) as (v' & r). destruct E as (_ & Eo & Er).
  destruct (HL _ _ Hg) as (HLB & HRB).
  assert (Hfin : forall l', get_blist v' (a_lref a) = Some l' -> LB l' /\ RB l' -> LInv v').
  { intros l' Hg' Hp lr0 l0 Hg0. destruct (lref_eq_dec lr0 (a_lref a)) as [->|Hn]; [assert (l0 = l') by congruence; subst; exact Hp|].
    rewrite (Eo lr0 Hn) in Hg0. exact (HL _ _ Hg0). }
  destruct r as [[]|code| |]; try exact I.
  - destruct Er as (mt' & s3 & be & _ & Hg'). cbn zeta in Hg'. eapply Hfin; [exact Hg'|].
    set (nb := mkBlock (bk_id b) (bk_mem b) s3 mt') in *.
    destruct (free_decide_policies l (bl_blocks l) b nb be Hnd Hb Hne eq_refl HLB HRB) as (P1 & P2).
    set (bs4 := free_decide l (replace_block (bl_blocks l) nb) nb (has_empty_block (bl_blocks l)) be false) in *.
    assert (Pm : Permutation (bl_blocks (set_blocks l bs4)) (bl_blocks (incrementally_sort (set_blocks l bs4)))).
    { unfold incrementally_sort. destruct (_ || _); [apply Permutation_refl|]. cbn. apply bubble_once_perm. }
    assert (Ecf : bl_min (incrementally_sort (set_blocks l bs4)) = bl_min l /\ bl_max (incrementally_sort (set_blocks l bs4)) = bl_max l).
    { unfold incrementally_sort. destruct (_ || _); cbn; auto. }
    destruct Ecf as (E1 & E2). unfold LB, RB. rewrite E1, E2, <- (zlen_perm _ _ Pm), (cnt_empty_perm _ _ Pm). cbn [bl_blocks set_blocks]. auto.
  - destruct Er as (s2 & Hg'). eapply Hfin; [exact Hg'|].
    destruct (cnt_replace (bl_blocks l) b (mkBlock (bk_id b) (bk_mem b) s2 (bk_meta b)) Hnd Hb eq_refl) as (C1 & Z1).
    unfold LB, RB in *. cbn [bl_blocks set_blocks bl_min bl_max]. rewrite C1, Z1. unfold emp at 2. cbn [bk_meta]. fold (emp b). split; [auto|]. destruct (emp b); lia.
Qed.

(* Destroy: a list without blocks *)
Lemma bl_destroy_lists v lr :
  let '(v', r) := bl_destroy c v lr in
  match r with
  | OK _ => (forall lr0, lr0 <> lr -> get_blist v' lr0 = get_blist v lr0) /\
            forall l, get_blist v lr = Some l -> get_blist v' lr = Some (set_blocks l [])
  | _ => True
  end.
Proof.
  unfold bl_destroy. destruct (get_blist v lr) as [l|] eqn:Hg; [|exact I]. destruct (existsb _ _); [exact I|].
  destruct (destroy_blocks_machine c (bl_blocks l) v (bl_type l)) as (m' & Em).
  destruct (destroy_blocks c v (bl_type l) (bl_blocks l)) as (v1 & r1). cbn [fst] in Em. subst v1.
  destruct r1 as [[]|code| |]; try exact I. rewrite get_blist_set_m, Hg. split.
  - intros lr0 Hn. rewrite get_set_blist_other by congruence. apply get_blist_set_m.
  - intros l0 E. injection E as <-. eapply get_set_blist_same. rewrite get_blist_set_m. exact Hg.
Qed.

(* CreateMinBlocks: n blocks more, or an error *)
Lemma create_min_blocks_eff n : forall v lr l size,
  get_blist v lr = Some l ->
  let '(v', r) := create_min_blocks c n v lr size in
  v_tab v' = v_tab v /\ (forall lr0, lr0 <> lr -> orel lp (get_blist v lr0) (get_blist v' lr0)) /\
  exists l', get_blist v' lr = Some l' /\ cfg_eq l l' /\
    match r with OK _ => zlen (bl_blocks l') = zlen (bl_blocks l) + Z.of_nat n | _ => True end.
Proof.
  induction n as [|k IH]; intros v lr l size Hg; cbn [create_min_blocks].
  - split; [reflexivity|]. split; [intros lr0 _; unfold orel; destruct (get_blist v lr0); [apply lp_refl|exact I]|].
    exists l. split; [exact Hg|]. split; [apply cfg_eq_refl|lia].
  - pose proof (create_block_eff v lr l size Hg) as CB. destruct (create_block c v lr size) as (v1 & r1). destruct CB as (T1 & CB).
    destruct r1 as [bid|code| |].
    + destruct CB as (_ & (Go & Gl)). destruct (lch_get _ _ _ _ _ (conj Go Gl) Hg) as (l1 & Hg1 & (P1 & N1 & C1)).
      specialize (IH v1 lr l1 size Hg1). destruct (create_min_blocks c k v1 lr size) as (v2 & r2).
      destruct IH as (T2 & Io & l2 & Hg2 & C2 & Z2). split; [congruence|].
      split; [intros lr0 Hn; eapply orel_lp_trans; [apply Go; exact Hn|apply Io; exact Hn]|].
      exists l2. split; [exact Hg2|]. split; [eapply cfg_eq_trans; eauto|].
      destruct r2 as [[]|c2| |]; auto. rewrite Z2.
      pose proof (zlen_perm _ _ P1) as H. unfold ids, zlen in *. cbn [length] in H. rewrite !map_length in H. lia.
    + split; [exact T1|]. split; [intros; apply CB|]. destruct (lperm_get _ _ _ _ CB Hg) as (l1 & Hg1 & (_ & _ & C1)). exists l1. auto.
    + split; [exact T1|]. split; [intros; apply CB|]. destruct (lperm_get _ _ _ _ CB Hg) as (l1 & Hg1 & (_ & _ & C1)). exists l1. auto.
    + split; [exact T1|]. split; [intros; apply CB|]. destruct (lperm_get _ _ _ _ CB Hg) as (l1 & Hg1 & (_ & _ & C1)). exists l1. auto.
Qed.

End WithCfg.
