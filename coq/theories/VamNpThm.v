(* VamNpThm.v — C13 at allocator level: no public API call ever panics (and none leaves the model).

   step_never_panics: along every history of the balance domain (reachB, VamBalThm.v), for EVERY op of the model -
   including the malformed ones (sizes <= 0, alignments that are no power of two, contradictory flags, unallocated
   or already allocated Allocation objects: they all come back as RErr) - and for ANY fault oracle, the result is
   neither RPanic nor RStuck.  So the hypotheses "r <> RPanic -> r <> RStuck" of the step_preserves* theorems and of
   the reach* constructors are always satisfied.

   Domain:
     op_ok / op_dom   the harness' own conventions (slot indices inside the table, sizes < 2^62; VamInvThm / VamAcctThm)
     op_bal           Unmap only of an Allocation with an outstanding Map (Allocation.Unmap of an unmapped Allocation
                      panics in Go: "allocation was already unmapped"-style assertion, modelled as PANIC); Free only of
                      Allocations without outstanding Maps (VamBalThm.v)
     op_live          the pool handle passed to the call is the handle of a live pool.  A stale *Pool is a dangling Go
                      pointer: outside "handles of live objects"; the model answers STUCK for it. *)
From Coq Require Import ZArith NArith List Bool Lia Permutation.
From Arsenal Require Import Util Budget BudgetProofs VamDev VamBlockList Vam VamInvMeta VamInv VamInvUpd VamInvDev.
From Arsenal Require Import VamInvStep VamInvStep2 VamInvThm VamProps VamAcct VamAcctStep VamAcctStep2 VamAcctThm VamMap VamMapStep VamMapStep2 VamMapThm.
From Arsenal Require Import VamBal VamBalStep VamBalStep2 VamBalThm VamNpStep VamNpStep2 VamStats.
From Arsenal Require SyncMem SyncMemProofs VamFlush VamHvThm.
Import ListNotations.
Open Scope Z_scope.

(* the handles passed to the call belong to live objects *)
Definition op_live (v : vam) (o : op) : Prop :=
  match o with
  | OAlloc _ _ _ _ _ _ _ _ _ pool => pool_live v pool
  | OAllocN _ _ _ _ _ _ _ _ _ _ pool => pool_live v pool
  | OCreateBuf _ _ _ _ _ _ _ _ _ _ pool => pool_live v pool
  | OCreateImg _ _ _ _ _ _ _ _ _ _ pool => pool_live v pool
  | OAllocFor _ _ _ _ _ _ _ _ pool => pool_live v pool
  | ORmPool uid => find_pool (v_pools v) uid <> None
  | _ => True
  end.

Lemma op_live_set_m v m o : op_live v o -> op_live (set_m v m) o.
Proof. destruct o; cbn; auto; apply pool_live_set_m. Qed.

Section WithCfg.
Variable c : vcfg.
Hypothesis Ha : cfg_acct c.
Let Hc := ca_ok c Ha.
Let Hmax := ca_max c Ha.
Let Hlarge := ca_large c Ha.

Notation VamInvA := (VamAcctStep.VamInvA c).

(* no block is larger than its heap *)
Lemma blocks_bounded_A v U X : VamInvA v U X -> blocks_bounded v.
Proof.
  intros HI lr l b Hg Hb. destruct (vi_block_mem _ _ _ _ (va_s _ _ _ _ HI) _ _ _ Hg Hb) as (d & Hf & _ & Hds).
  destruct (find_mem_in _ _ _ Hf) as (Hin & _).
  pose proof (mem_size_bound c Hc Hmax Hlarge (v_m v) _ d (ai_mb _ _ _ (va_a _ _ _ _ HI)) Hin) as Hb2.
  rewrite <- Hds. unfold MAXINT. lia.
Qed.

Section Step.
Variable ms0 : list dmem.
Notation VamInvB := (VamBalStep.VamInvB c ms0).

Lemma exec_np G v o :
  VamInvB G v [] [] -> op_ok v o -> op_dom o -> op_bal G o -> op_live v o -> npu (snd (exec c v o)).
Proof.
  intros HI Hok Hd Hbal Hlive.
  pose proof (VamBalStep.vb_s c Hc Hmax Hlarge ms0 G _ _ _ HI) as HU.
  pose proof (VamBalStep.vb_b _ _ _ _ _ _ HI) as HB.
  destruct o; cbn [exec op_ok op_dom op_bal op_live] in *.
  - apply (allocate_memory_np c Hc Hmax Hlarge ms0 G v []); auto.
  - destruct Hok as (H0 & Hn). apply (allocate_memory_slice_np c Hc Hmax Hlarge ms0 G v []); auto.
  - apply (allocation_free_np c Hc Hmax Hlarge ms0 G); auto.
  - apply (free_slice_np c Hc Hmax Hlarge ms0 G); auto.
  - apply (allocation_map_np c Hc Hmax Hlarge); auto.
  - apply (allocation_unmap_np c Hc Hmax Hlarge); auto.
    destruct (a_allocated (get_alloc v slot)) eqn:E; [reflexivity|]. pose proof (bb_G0 _ _ _ HB slot E). lia.
  - pose proof (VamFlush.allocation_flush_valid c Hc (ca_atom c Ha) v inval slot off size HU) as P.
    destruct (allocation_flush c v inval slot off size) as (v' & r). destruct P as (A & B & _). split; auto.
  - (* the harness' read-write: Map, then Unmap of the map just made *)
    unfold harness_rw. pose proof (allocation_map_B c Ha ms0 G v slot HI) as P1.
    pose proof (VamMapStep2.allocation_map_inv c Hc Hmax Hlarge ms0 v slot (VamBalStep.vb_m _ _ _ _ _ _ HI)) as Q1.
    pose proof (allocation_map_np c Hc Hmax Hlarge v slot HU) as N1.
    destruct (allocation_map c v slot) as (v1 & r1). cbn [snd] in N1. destruct r1 as [[]|code| |]; auto.
    destruct Q1 as (A1 & T1 & L1).
    assert (Ea : a_allocated (get_alloc v1 slot) = true).
    { destruct (a_allocated (get_alloc v1 slot)) eqn:E; [reflexivity|]. pose proof (bb_G0 _ _ _ P1 slot E) as H0.
      rewrite upd_same in H0. pose proof (bb_G _ _ _ HB slot). lia. }
    pose proof (allocation_unmap_np c Hc Hmax Hlarge v1 slot (VamMapStep.vm_s c Hc Hmax Hlarge ms0 _ _ _ A1) Ea) as N2.
    destruct (allocation_unmap v1 slot) as (v2 & ur). cbn [snd] in *. destruct ur as [[]|ucode| |]; auto. apply npu_er.
  - apply (create_pool_np c Hc Hmax Hlarge ms0 G); auto.
  - apply (pool_destroy_np c Hc Hmax Hlarge ms0 G); auto.
  - rewrite (build_stats_string_np c v HU (blocks_bounded_A v [] [] (VamMapStep.vm_a _ _ _ _ _ (VamBalStep.vb_m _ _ _ _ _ _ HI)))). apply npu_ok.
  - apply (allocator_destroy_np c Hc Hmax Hlarge ms0 G); auto.
  - apply (create_buffer_np c Hc Hmax Hlarge ms0 G); auto.
  - apply (create_image_np c Hc Hmax Hlarge ms0 G); auto.
  - apply (destroy_with_resource_np c Hc Hmax Hlarge ms0 G); auto.
  - apply (allocate_for_resource_np c Hc Hmax Hlarge ms0 G); auto.
  - apply (bind_memory_np c); auto.
  - unfold raw_create. destruct (dev_create_res (v_m v) image kind devreq) as ((m1 & code) & id). cbn [snd].
    destruct (code =? 0); [apply npu_ok|apply npu_er].
  - apply npu_ok.
Qed.

End Step.

Lemma result_of_np (r : out unit) : npu r -> result_of r <> RPanic /\ result_of r <> RStuck.
Proof. intros (A & B). destruct r as [[]|code| |]; cbn; split; congruence. Qed.

(* one API call in the domain, any fault oracle (same hypotheses as step_preservesB, plus op_live) *)
Theorem step_np v G o f :
  VamInvA v [] [] -> MapInv v [] -> BInv v G [] -> op_ok v o -> op_dom o -> op_bal G o -> op_live v o ->
  let '(v', r, calls) := step c v o f in r <> RPanic /\ r <> RStuck.
Proof.
  intros HI HM HB Hok Hd Hbal Hlive. unfold step.
  set (ms0 := m_mems (v_m v)).
  set (v0 := set_m v (clear_calls (set_fault (v_m v) f 0))).
  assert (Hms : forall m ff n, mach_sameA c m (clear_calls (set_fault m ff n))).
  { intros m ff n. eapply (mach_sameA_trans c Hc Hmax Hlarge); [apply (mach_sameA_set_fault c Hc Hmax Hlarge)|apply (mach_sameA_clear c Hc Hmax Hlarge)]. }
  assert (I0 : VamBalStep.VamInvB c ms0 G v0 [] []).
  { split; [|apply BInv_mach; exact HB]. split; [apply (VamAcctStep.VamInvA_mach_same c Hc Hmax Hlarge); [exact HI|apply Hms]|].
    split; [apply (MapInv_sub v []); [exact HM|reflexivity|apply blocks_sub_eq; intros; apply get_blist_set_m|apply deds_sub_nil; apply tab_frame_set_m]|].
    unfold LogOk, v0, ms0. cbn. constructor. }
  assert (Hok0 : op_ok v0 o) by (destruct o; exact Hok).
  pose proof (exec_np ms0 G v0 o I0 Hok0 Hd Hbal (op_live_set_m _ _ _ Hlive)) as N.
  destruct (exec c v0 o) as (v1 & r). cbn [snd] in N. apply result_of_np. exact N.
Qed.

(* C13: along every history of the domain, for every op and every fault oracle *)
Theorem step_never_panics v G o f v' r calls :
  reachB c v G -> op_ok v o -> op_dom o -> op_bal G o -> op_live v o ->
  step c v o f = (v', r, calls) -> r <> RPanic /\ r <> RStuck.
Proof.
  intros R Hok Hd Hbal Hlive Hs.
  pose proof (reachB_reachA c _ _ R) as RA.
  pose proof (step_np v G o f (reachA_inv c Ha v RA) (reachA_map c Ha v RA) (reachB_bal c Ha _ _ R) Hok Hd Hbal Hlive) as P.
  rewrite Hs in P. exact P.
Qed.

(* the history can always be continued: the constructor of reachB without its two side conditions *)
Corollary reachB_step' v G o f v' r calls :
  reachB c v G -> op_ok v o -> op_dom o -> op_bal G o -> op_live v o -> step c v o f = (v', r, calls) -> reachB c v' (gstep G o r).
Proof.
  intros R Hok Hd Hbal Hlive Hs. destruct (step_never_panics v G o f v' r calls R Hok Hd Hbal Hlive Hs) as (Hp & Hk).
  exact (reachB_step c v G o f v' r calls R Hok Hd Hbal Hs Hp Hk).
Qed.

(* the step theorems without their two side conditions *)
Corollary step_preserves_np v G o f v' r calls :
  reachB c v G -> op_ok v o -> op_dom o -> op_bal G o -> op_live v o -> step c v o f = (v', r, calls) ->
  VamInvA v' [] [] /\ MapInv v' [] /\ BInv v' (gstep G o r) [] /\ zlen (v_tab v') = zlen (v_tab v).
Proof.
  intros R Hok Hd Hbal Hlive Hs. pose proof (reachB_step' v G o f v' r calls R Hok Hd Hbal Hlive Hs) as R'.
  pose proof (reachB_reachA c _ _ R') as RA'. destruct (step_never_panics v G o f v' r calls R Hok Hd Hbal Hlive Hs) as (Hp & Hk).
  pose proof (step_preservesA c Ha v o f (reachA_inv c Ha v (reachB_reachA c _ _ R)) Hok Hd) as P. rewrite Hs in P.
  split; [apply (reachA_inv c Ha v' RA')|]. split; [apply (reachA_map c Ha v' RA')|]. split; [apply (reachB_bal c Ha _ _ R')|apply P; auto].
Qed.

(* C08 *)
Corollary driver_calls_valid_np v G o f v' r calls :
  reachB c v G -> op_ok v o -> op_dom o -> op_bal G o -> op_live v o -> step c v o f = (v', r, calls) ->
  replay (m_mems (v_m v)) calls (m_mems (v_m v')).
Proof.
  intros R Hok Hd Hbal Hlive Hs. destruct (step_never_panics v G o f v' r calls R Hok Hd Hbal Hlive Hs) as (Hp & Hk).
  exact (driver_calls_valid c Ha v o f v' r calls (reachB_reachA c _ _ R) Hok Hd Hs Hp Hk).
Qed.

Corollary maps_only_host_visible_np v G o f v' r calls :
  reachB c v G -> op_ok v o -> op_dom o -> op_bal G o -> op_live v o -> VamHvThm.op_map_ok c v o -> step c v o f = (v', r, calls) ->
  VamHvThm.maps_hv c (m_mems (v_m v)) calls.
Proof.
  intros R Hok Hd Hbal Hlive Hmap Hs. destruct (step_never_panics v G o f v' r calls R Hok Hd Hbal Hlive Hs) as (Hp & Hk).
  exact (VamHvThm.maps_only_host_visible c Ha v o f v' r calls (reachB_reachA c _ _ R) Hok Hd Hmap Hs Hp Hk).
Qed.

End WithCfg.
