(* VamKindThm.v — C13 for BeginDefragPass without a state hypothesis.

   reachDK: the histories of reachDB (VamDefragBal.v) in which, in addition,
     - no pool is destroyed while it is being defragmented (op_avoids_pool: in Go the DefragmentationContext keeps a
       pointer to the pool's block list; the model has no such list any more and answers STUCK),
     - BeginDefragmentation is given the handle of a live pool (dbegin_live).
   Along them KInv (VamKind.v) holds and the block lists of the open context are alive and use the TLSF algorithm
   (RInv); together they give VamDefragNp.dpass_inv, so that dstep_never_panics_full has no hypothesis on the state. *)
From Coq Require Import ZArith List Bool Lia Permutation.
From Arsenal Require Import Util Budget BudgetProofs VamDev VamBlockList VamDefrag Vam VamInvMeta VamInv VamInvUpd VamInvDev.
From Arsenal Require Import VamInvStep VamInvStep2 VamInvThm VamProps VamAcct VamAcctStep VamAcctStep2 VamAcctThm VamMap VamMapStep VamMapStep2 VamMapThm.
From Arsenal Require Import VamBal VamBalStep VamBalStep2 VamBalThm VamNpStep VamNpStep2 VamNpThm.
From Arsenal Require Import VamDefragInv VamDefragStep VamDefragPass VamDefragThm VamDefragAcct VamDefragMap VamDefragBal VamDefragNp VamKind.
From Arsenal Require Pass PassProofs Defrag DefragProofs SyncMem.
Import ListNotations.
Open Scope Z_scope.

(* ---------------------------------------------------------------- the contexts of a run keep their list and algorithm *)

Definition ctx_same (dc dc' : dfctx) : Prop := dc_lr dc' = dc_lr dc /\ Defrag.c_algo (dc_ctx dc') = Defrag.c_algo (dc_ctx dc).
Definition ctxs_same (l l' : list dfctx) : Prop := Forall2 ctx_same l l'.

Lemma ctxs_same_refl l : ctxs_same l l.
Proof. induction l; constructor; [split; reflexivity|auto]. Qed.

Lemma ctxs_same_trans a b d : ctxs_same a b -> ctxs_same b d -> ctxs_same a d.
Proof.
  intros H. revert d. induction H as [|x y l l' (A1 & A2) _ IH]; intros d H2; inversion H2 as [|? z ? l'' (B1 & B2) H3]; subst; constructor.
  - split; congruence.
  - apply IH. exact H3.
Qed.

Lemma ctxs_same_set l i dc dc' : nth_z l i = Some dc -> ctx_same dc dc' -> ctxs_same l (set_nth_ctx l i dc').
Proof.
  unfold set_nth_ctx, set_nth_z, nth_z. destruct (i <? 0); [discriminate|]. generalize (Z.to_nat i). intros n. revert n.
  induction l as [|x l IH]; intros [|n] E Hs; cbn in *; try discriminate.
  - injection E as ->. constructor; [exact Hs|apply ctxs_same_refl].
  - constructor; [split; reflexivity|apply IH; auto].
Qed.

Lemma ctxs_same_nth l l' i dc' : ctxs_same l l' -> nth_z l' i = Some dc' -> exists dc, nth_z l i = Some dc /\ ctx_same dc dc'.
Proof.
  unfold nth_z. destruct (i <? 0); [discriminate|]. generalize (Z.to_nat i). intros n H. revert n.
  induction H as [|x y l l' Hxy _ IH]; intros [|n] E; cbn in *; try discriminate; [injection E as <-; eauto|eauto].
Qed.

Section Run.
Variable c : vcfg.

Lemma collect_list_ctx v dc p v1 dc' p' : collect_list c v dc p = (v1, OK (dc', p')) -> ctx_same dc dc'.
Proof.
  unfold collect_list. destruct (project v (dc_lr dc)); [|discriminate]. destruct (get_blist v (dc_lr dc)); [|discriminate].
  destruct (Defrag.collect_moves_f _ _ _ _ _ _) as (((cs & env) & log) & wr). destruct wr; try discriminate;
    (destruct (replay_log c _ _ _) as (v2 & r); destruct r as [[]|code| |]; try discriminate; intros H; injection H as _ <- _; split; reflexivity).
Qed.

Lemma pass_loop_ctxs fuel : forall v run p, ctxs_same (dr_ctxs run) (dr_ctxs (snd (fst (pass_loop c fuel v run p)))).
Proof.
  induction fuel as [|f IH]; intros v run p; cbn [pass_loop]; [apply ctxs_same_refl|].
  destruct (nth_z (dr_ctxs run) (dr_progress run)) as [dc|] eqn:En; [|apply ctxs_same_refl].
  destruct (collect_list c v dc p) as (v1 & r) eqn:Ec. destruct r as [(dc' & p')|code| |]; cbn [fst snd]; try apply ctxs_same_refl.
  pose proof (ctxs_same_set _ _ _ _ En (collect_list_ctx _ _ _ _ _ _ Ec)) as Hs.
  destruct (Defrag.c_moves (dc_ctx dc')); [|exact Hs]. eapply ctxs_same_trans; [exact Hs|].
  match goal with |- ctxs_same _ (dr_ctxs (snd (fst (pass_loop c f v1 ?r p')))) => pose proof (IH v1 r p') as Hi end. cbn [dr_ctxs] in Hi. exact Hi.
Qed.

Lemma complete_pass_ctx v dc p ds : ctx_same dc (snd (fst (fst (complete_pass c v dc p ds)))).
Proof.
  unfold complete_pass. destruct (complete_moves c v (dc_lr dc) p [] _ ds) as (((v1 & p1) & imm) & r).
  destruct r as [[]|code| |]; cbn [fst snd]; try (split; reflexivity). destruct (get_blist v1 (dc_lr dc)); cbn [fst snd]; [|split; reflexivity].
  destruct (fold_left _ imm _) as (bs & immc). split; reflexivity.
Qed.

Lemma defrag_end_ctxs v run ds : ctxs_same (dr_ctxs run) (dr_ctxs (snd (fst (defrag_end c v run ds)))).
Proof.
  unfold defrag_end. destruct (nth_z (dr_ctxs run) (dr_progress run)) as [dc|] eqn:En; [|apply ctxs_same_refl].
  destruct (Defrag.c_moves (dc_ctx dc)); [apply ctxs_same_refl|].
  pose proof (complete_pass_ctx v dc (dr_pass run) ds) as H. destruct (complete_pass c v dc (dr_pass run) ds) as (((v1 & dc') & p') & r). cbn [fst snd] in H.
  destruct r; cbn [fst snd dr_ctxs]; apply (ctxs_same_set _ _ _ _ En H).
Qed.

End Run.

(* ---------------------------------------------------------------- the run invariant *)

(* the block lists of the open context are alive, use the TLSF algorithm, and the context has a known algorithm *)
Definition RInv (v : vam) (run : option dfrun) : Prop :=
  match run with
  | Some rn => forall i dc, nth_z (dr_ctxs rn) i = Some dc ->
      (exists l, get_blist v (dc_lr dc) = Some l /\ bl_algo l = 0) /\ (Defrag.c_algo (dc_ctx dc) = 1 \/ Defrag.c_algo (dc_ctx dc) = 2)
  | None => True
  end.

(* no pool is destroyed while it is being defragmented *)
Definition op_avoids_pool (run : option dfrun) (o : op) : Prop :=
  match o, run with
  | ORmPool uid, Some rn => ~ In (LPool uid) (map dc_lr (dr_ctxs rn))
  | _, _ => True
  end.

(* BeginDefragmentation is given the handle of a live pool *)
Definition dbegin_live (v : vam) (o : dop) : Prop :=
  match o with DBegin _ pool _ _ => pool_live v pool | _ => True end.

Lemma RInv_keep v v' run : RInv v run -> akeep v v' -> RInv v' run.
Proof.
  destruct run as [rn|]; [|auto]. intros R A i dc Hn. destruct (R i dc Hn) as ((l & Hg & Ea) & Al). split; [|exact Al].
  destruct (A _ _ Hg) as (l' & Hg' & E'). exists l'. split; [exact Hg'|congruence].
Qed.

Lemma RInv_keepx v v' run uid : RInv v run -> akeepx (LPool uid) v v' -> op_avoids_pool run (ORmPool uid) -> RInv v' run.
Proof.
  destruct run as [rn|]; [|auto]. intros R A Hav i dc Hn. destruct (R i dc Hn) as ((l & Hg & Ea) & Al). split; [|exact Al].
  assert (Hne : dc_lr dc <> LPool uid) by (intros E; apply Hav; rewrite <- E; apply in_map; eapply nth_z_in; eauto).
  destruct (A _ _ Hne Hg) as (l' & Hg' & E'). exists l'. split; [exact Hg'|congruence].
Qed.

Lemma RInv_ctxs v rn rn' : RInv v (Some rn) -> ctxs_same (dr_ctxs rn) (dr_ctxs rn') -> RInv v (Some rn').
Proof.
  intros R Hs i dc' Hn. destruct (ctxs_same_nth _ _ _ _ Hs Hn) as (dc & Hn0 & (E1 & E2)). rewrite E1, E2. exact (R i dc Hn0).
Qed.

Lemma dpass_inv_of v rn : KInv v -> RInv v (Some rn) -> dpass_inv v rn.
Proof.
  intros K R. split; [|apply (k_pa _ K)]. intros i dc Hn. destruct (R i dc Hn) as ((l & Hg & Ea) & Al). split; [|exact Al].
  exists l. split; [exact Hg|]. apply forallb_forall. intros b Hb. rewrite (k_kind _ K _ _ _ Hg Hb), Ea. reflexivity.
Qed.

Lemma default_lrefs_in v n : forall t lr, In lr (default_lrefs v n t) -> exists t' l, lr = LDef t' /\ get_blist v lr = Some l.
Proof.
  induction n as [|k IH]; intros t lr Hin; cbn [default_lrefs] in Hin; [destruct Hin|].
  apply in_app_iff in Hin. destruct Hin as [Hin|Hin]; [|eapply IH; eauto].
  destruct (get_blist v (LDef t)) as [l|] eqn:Hg; [|destruct Hin]. destruct Hin as [<-|[]]. eauto.
Qed.

Section Thm.
Variable c : vcfg.
Hypothesis Ha : cfg_acct c.
Let Hc := ca_ok c Ha.
Let Hmax := ca_max c Ha.
Let Hlarge := ca_large c Ha.

Lemma vam_new_K nslots v : vam_new c nslots = OK v -> KInv v.
Proof using.
  unfold vam_new. destruct (negb _); [discriminate|]. destruct (negb _); [discriminate|]. intros H. injection H as <-.
  assert (Hl : forall t l, nth_z (init_lists c (Select.global_bits false (types_n c)) (length (c_types c)) 0) t = Some (Some l) -> bl_algo l = 0 /\ bl_blocks l = []).
  { intros t l E. destruct (VamInvStep2.init_lists_spec c _ _ _ _ _ E) as (_ & ->). split; reflexivity. }
  constructor.
  - intros lr l b Hg Hb. destruct lr as [t|u]; cbn in Hg; [|discriminate].
    destruct (nth_z _ t) as [[x|]|] eqn:E; try discriminate. injection Hg as <-. destruct (Hl _ _ E) as (_ & Eb). rewrite Eb in Hb. destruct Hb.
  - intros lr l Hg. destruct lr as [t|u]; cbn in Hg; [|discriminate].
    destruct (nth_z _ t) as [[x|]|] eqn:E; try discriminate. injection Hg as <-. left. apply (Hl _ _ E).
  - intros t l Hg. cbn in Hg. destruct (nth_z _ t) as [[x|]|] eqn:E; try discriminate. injection Hg as <-. apply (Hl _ _ E).
  - intros s a (Sn & Sal). cbn in Sn. apply nth_z_in in Sn. apply repeat_spec in Sn. subst a. cbn in Sal. discriminate.
Qed.

Lemma uids_fresh v : VamInv c v -> NoDup (map p_uid (v_pools v)) /\ ~ In (v_next_uid v) (map p_uid (v_pools v)).
Proof using.
  intros HI. split; [apply (vi_pools_nodup _ _ _ _ HI)|]. intros Hin. apply in_map_iff in Hin. destruct Hin as (q & Eq & Hq).
  pose proof (vi_pools_uid _ _ _ _ HI) as Hu. rewrite Forall_forall in Hu. specialize (Hu q Hq). cbn in Hu. lia.
Qed.

(* one API call *)
Lemma step_K v o f : VamInv c v -> KInv v -> KInv (fst (fst (step c v o f))) /\ akeepo (op_ex o) v (fst (fst (step c v o f))).
Proof using.
  intros HI K. unfold step. set (v0 := set_m v (clear_calls (set_fault (v_m v) f 0))).
  destruct (uids_fresh v HI) as (Hnd & Hfr).
  destruct (KR_set_m v (clear_calls (set_fault (v_m v) f 0)) K) as (K0 & A0). fold v0 in K0, A0.
  destruct (exec_K c v0 o Hnd Hfr K0) as (K1 & A1). destruct (exec c v0 o) as (v1 & r). cbn [fst] in *.
  destruct (KR_set_m v1 (clear_calls (set_fault (v_m v1) no_fault (m_fired (v_m v1)))) K1) as (K2 & A2). split; [exact K2|].
  destruct o; cbn [op_ex akeepo] in *; try (eapply akeep_trans; [exact A0|]; eapply akeep_trans; [exact A1|exact A2]).
  eapply akeepx_trans_r; [|exact A2]. eapply akeepx_trans_l; [exact A0|exact A1].
Qed.

Lemma defrag_begin_RInv v flags pool mb ma v1 rn :
  KInv v -> pool_live v pool -> defrag_begin c v flags pool mb ma = (v1, OK rn) -> RInv v1 (Some rn).
Proof using.
  intros K Hpl. unfold defrag_begin. destruct (_ || _); [discriminate|]. destruct (_ =? 3); [discriminate|].
  destruct (match pool with Some uid => list_is_linear v (LPool uid) | None => false end) eqn:Elin; [discriminate|].
  set (lrs := match pool with Some uid => [LPool uid] | None => default_lrefs v (length (c_types c)) 0 end).
  destruct (prepare_lists_K lrs v K) as (K1 & A1).
  assert (Hlrs : forall lr, In lr lrs -> exists l, get_blist v lr = Some l /\ bl_algo l = 0).
  { intros lr Hin. unfold lrs in Hin. destruct pool as [uid|].
    - destruct Hin as [<-|[]]. unfold pool_live in Hpl. destruct (get_blist v (LPool uid)) as [l|] eqn:Hg; [|congruence].
      exists l. split; [reflexivity|]. unfold list_is_linear in Elin. rewrite Hg in Elin. apply Z.eqb_neq in Elin. destruct (k_algo _ K _ _ Hg); [auto|congruence].
    - destruct (default_lrefs_in v _ _ _ Hin) as (t' & l & -> & Hg). exists l. split; [exact Hg|apply (k_def _ K _ _ Hg)]. }
  destruct (negb _); [discriminate|]. intros H. injection H as <- <-. intros i dc Hn. cbn [dr_ctxs] in Hn.
  apply nth_z_in in Hn. apply in_map_iff in Hn. destruct Hn as (lr & <- & Hin). cbn [dc_lr dc_ctx Defrag.c_algo].
  split; [|destruct (_ =? 1); auto]. destruct (Hlrs lr Hin) as (l & Hg & Ea). destruct (A1 _ _ Hg) as (l' & Hg' & E'). exists l'. split; [exact Hg'|congruence].
Qed.

(* one defragmentation call *)
Lemma dstep_K v run o f :
  KInv v -> RInv v run -> dbegin_live v o ->
  let '(v', run', r, calls, dr) := dstep c v run o f in KInv v' /\ (r <> RPanic -> r <> RStuck -> RInv v' run').
Proof using.
  intros K R Hlive. unfold dstep. set (v0 := set_m v (clear_calls (set_fault (v_m v) f 0))).
  destruct (KR_set_m v (clear_calls (set_fault (v_m v) f 0)) K) as (K0 & A0). fold v0 in K0, A0.
  pose proof (RInv_keep v v0 run R A0) as R0.
  pose proof (dexec_K c v0 run o K0) as (K1 & A1).
  assert (HR : let '(v1, run1, r, dr) := dexec c v0 run o in result_of r <> RPanic -> result_of r <> RStuck -> RInv v1 run1).
  { destruct o as [flags pool mb ma| |ds|]; cbn [dexec].
    - destruct (defrag_begin c v0 flags pool mb ma) as (v1 & r) eqn:E. destruct r as [rn|code| |]; intros Hp Hs; cbn in Hp, Hs; try congruence.
      + apply (defrag_begin_RInv v0 flags pool mb ma v1 rn K0); [|exact E]. cbn in Hlive. destruct pool as [uid|]; [|exact I]. unfold pool_live in *. unfold v0. rewrite get_blist_set_m. exact Hlive.
      + pose proof (defrag_begin_K c v0 flags pool mb ma K0) as (_ & Ab). rewrite E in Ab. cbn [fst] in Ab. apply (RInv_keep v0 v1 run R0 Ab).
    - destruct run as [rn|]; [|intros _ Hs; cbn in Hs; congruence]. unfold defrag_pass.
      pose proof (pass_loop_K c (S (length (dr_ctxs rn))) v0 rn (Pass.pass_init (dr_max_bytes rn) (dr_max_allocs rn)) K0) as (_ & Ap).
      pose proof (pass_loop_ctxs c (S (length (dr_ctxs rn))) v0 rn (Pass.pass_init (dr_max_bytes rn) (dr_max_allocs rn))) as Cs.
      destruct (pass_loop c _ v0 rn _) as ((v1 & rn') & r). cbn [fst snd] in *.
      assert (RInv v1 (Some rn')) by (apply (RInv_ctxs v1 rn rn'); [apply (RInv_keep v0 v1 _ R0 Ap)|exact Cs]).
      destruct r; intros _ _; exact H.
    - destruct run as [rn|]; [|intros _ Hs; cbn in Hs; congruence].
      pose proof (defrag_end_K c v0 rn ds K0) as (_ & Ae). pose proof (defrag_end_ctxs c v0 rn ds) as Cs.
      destruct (defrag_end c v0 rn ds) as ((v1 & rn') & r). cbn [fst snd] in *.
      assert (RInv v1 (Some rn')) by (apply (RInv_ctxs v1 rn rn'); [apply (RInv_keep v0 v1 _ R0 Ae)|exact Cs]).
      destruct r; intros _ _; exact H.
    - destruct run as [rn|]; [|intros _ Hs; cbn in Hs; congruence].
      pose proof (defrag_finish_K v0 rn K0) as (_ & Af). destruct (defrag_finish v0 rn) as (v1 & st). cbn [fst] in *. intros _ _. apply (RInv_keep v0 v1 _ R0 Af). }
  destruct (dexec c v0 run o) as (((v1 & run1) & r) & dr). cbn [fst] in *.
  destruct (KR_set_m v1 (clear_calls (set_fault (v_m v1) no_fault (m_fired (v_m v1)))) K1) as (K2 & A2). split; [exact K2|].
  intros Hp Hs. apply (RInv_keep v1 _ run1 (HR Hp Hs) A2).
Qed.

(* ---------------------------------------------------------------- histories *)

Inductive reachDK : vam -> option dfrun -> (Z -> Z) -> Prop :=
| reachDK_new nslots v : vam_new c nslots = OK v -> Z.of_nat nslots <= 4194304 -> reachDK v None (fun _ => 0)
| reachDK_step v run G o f v' r calls :
    reachDK v run G -> op_avoids run o -> op_avoids_pool run o -> op_ok v o -> op_dom o -> op_bal G o ->
    step c v o f = (v', r, calls) -> r <> RPanic -> r <> RStuck -> reachDK v' run (gstep G o r)
| reachDK_dstep v run G o f v' run' r calls dr :
    reachDK v run G -> dop_ok v run o -> dop_bal G run o -> dbegin_live v o ->
    dstep c v run o f = (v', run', r, calls, dr) -> r <> RPanic -> r <> RStuck -> zlen (v_tab v') <= 4194304 -> reachDK v' run' G.

Lemma reachDK_reachDB v run G : reachDK v run G -> reachDB c v run G.
Proof using.
  induction 1 as [nslots v E Hn|v run G o f v' r calls R IH Hav Hap Hok Hd Hbal Hs Hp Hk|v run G o f v' run' r calls dr R IH Hok Hbal Hl Hs Hp Hk Hb];
    [eapply reachDB_new; eauto|eapply reachDB_step; eauto|eapply reachDB_dstep; eauto].
Qed.

Theorem reachDK_inv v run G : reachDK v run G -> KInv v /\ RInv v run.
Proof using Ha.
  induction 1 as [nslots v E Hn|v run G o f v' r calls R IH Hav Hap Hok Hd Hbal Hs Hp Hk|v run G o f v' run' r calls dr R IH Hok Hbal Hl Hs Hp Hk Hb].
  - split; [eapply vam_new_K; eauto|exact I].
  - destruct IH as (K & Rr). pose proof (reachDB_reachDA c Ha _ _ _ (reachDK_reachDB _ _ _ R)) as RA. destruct (reachDA_inv c Ha v run RA) as (HI & _).
    pose proof (step_K v o f (va_s _ _ _ _ HI) K) as (K' & A'). rewrite Hs in K', A'. cbn [fst] in K', A'. split; [exact K'|].
    destruct o; cbn [op_ex akeepo] in A'; try (apply (RInv_keep v v' run Rr A')). apply (RInv_keepx v v' run uid Rr A' Hap).
  - destruct IH as (K & Rr). pose proof (dstep_K v run o f K Rr Hl) as P. rewrite Hs in P. destruct P as (K' & R'). split; [exact K'|apply R'; auto].
Qed.

(* the block lists of an open context are alive and TLSF, in every state of such a history *)
Corollary reachDK_dpass_inv v rn G : reachDK v (Some rn) G -> dpass_inv v rn.
Proof using Ha. intros R. destruct (reachDK_inv _ _ _ R) as (K & Rr). apply dpass_inv_of; auto. Qed.

(* a run exists for BeginDefragPass / EndDefragPass / Finish *)
Definition drun_exists (run : option dfrun) (o : dop) : Prop :=
  match o, run with DBegin _ _ _ _, _ => True | _, Some _ => True | _, None => False end.

(* C13 for the defragmentation calls: never a panic, never outside the model, for any fault oracle (a vkMapMemory that
   fails while BeginDefragPass commits a move makes the planner go on, as in the real code) *)
Theorem dstep_never_fails_full v run G o f v' run' r calls dr :
  reachDK v run G -> dop_ok v run o -> dop_bal G run o -> drun_exists run o ->
  dstep c v run o f = (v', run', r, calls, dr) -> r <> RPanic /\ r <> RStuck.
Proof using Ha.
  intros R Hok Hbal Hex Hs. apply (dstep_never_fails c Ha v run G o f v' run' r calls dr (reachDK_reachDB _ _ _ R) Hok Hbal); [|exact Hs].
  destruct o as [flags pool mb ma| |ds|]; cbn [dop_live drun_exists] in *; auto; destruct run as [rn|]; auto.
  apply (reachDK_dpass_inv v rn G R).
Qed.

(* the earlier, weaker form, kept under its name *)
Theorem dstep_never_panics_full v run G o f v' run' r calls dr :
  reachDK v run G -> dop_ok v run o -> dop_bal G run o -> drun_exists run o ->
  dstep c v run o f = (v', run', r, calls, dr) ->
  r <> RPanic /\ (r = RStuck -> o = DPass /\ exists mem off size code, code <> 0 /\ In (CMap mem off size code) calls).
Proof using Ha.
  intros R Hok Hbal Hex Hs. destruct (dstep_never_fails_full v run G o f v' run' r calls dr R Hok Hbal Hex Hs) as (A & B).
  split; [exact A|]. intros E. contradiction.
Qed.

End Thm.
