(* VamDefragHv.v — the host-visibility of every vkMapMemory (VamHv.HH) through the defragmentation calls.
   BeginDefragPass maps the destination block of a move when the source allocation is persistently mapped; the
   destination block belongs to the same block list, hence to the same memory type, and persistently mapped
   allocations live in host-visible memory (PersistInv) — so that map is on host-visible memory too. *)
From Coq Require Import ZArith List Bool Lia Permutation.
From Arsenal Require Import Util Budget BudgetProofs VamDev VamBlockList VamDefrag Vam VamInvMeta VamInv VamInvUpd VamInvDev.
From Arsenal Require Import VamInvStep VamInvStep2 VamInvThm VamProps VamAcct VamAcctStep VamAcctStep2 VamAcctThm VamMap VamMapStep VamMapStep2 VamMapThm.
From Arsenal Require Import VamHv VamHvStep VamHvStep2 VamHvThm.
From Arsenal Require Import VamDefragInv VamDefragStep VamDefragPass VamDefragThm VamDefragAcct VamDefragMap.
From Arsenal Require Pass PassProofs Defrag DefragProofs DefragGranProofs Gran GranInv GranTlsf VamGran SyncMem SyncMemProofs VamDefragBridge.
Import ListNotations.
Open Scope Z_scope.

Section WithCfg.
Variable c : vcfg.
Hypothesis Hc : cfg_ok c.
Hypothesis Hmax : 0 <= c_maxcount c < 2147483647.
Hypothesis Hlarge : 0 <= c_large c < 2 ^ 61.
Variable ms0 : list dmem.
Set Default Proof Using "Hc Hmax Hlarge".

Notation HHc := (HH c ms0).
Notation HH_lists := (VamHvStep.HH_lists c Hc Hmax Hlarge ms0).
Notation tab_eq_frame := (VamHvStep.tab_eq_frame c Hc Hmax Hlarge).

(* the memory objects of the blocks of list lr have type ty0; the list has type ty0 *)
Definition TB (w : vam) (lr : lref) (ty0 : Z) : Prop :=
  forall l, get_blist w lr = Some l -> bl_type l = ty0 /\
    forall b d, In b (bl_blocks l) -> find_mem (m_mems (v_m w)) (bk_mem b) = Some d -> dm_type d = ty0.

Lemma types_kept_trans a b d : types_kept a b -> types_kept b d -> types_kept a d.
Proof using.
  intros H1 H2 id x Hx. destruct (H2 _ _ Hx) as (y & Hy & E1). destruct (H1 _ _ Hy) as (z & Hz & E2). exists z. split; [exact Hz|congruence].
Qed.

(* ---------------------------------------------------------------- BeginDefragPass: the write-back *)

Lemma commit_move_HH w lr mv ty0 v1 :
  HHc w [] -> MM ms0 w [] -> TB w lr ty0 -> grown v1 w -> src_of mv < zlen (v_tab v1) ->
  (a_persist (get_alloc v1 (src_of mv)) = true -> host_visible c ty0 = true) ->
  let '(w', r) := commit_move c w lr mv in
  match r with OK _ => HHc w' [] /\ TB w' lr ty0 /\ grown v1 w' | _ => True end.
Proof.
  intros (LH & PI) (MI & L) HT HG Hsrc Hp. unfold commit_move.
  destruct (get_blist w lr) as [l|] eqn:Hg; [|exact I]. destruct (get_block w lr (Defrag.m_dstblk mv)) as [b|] eqn:Hgb; [|exact I].
  destruct (get_block_in _ _ _ _ Hgb) as (l' & Hg' & Hb & Hbid). assert (l' = l) by congruence. subst l'. clear Hg'.
  destruct (HT l Hg) as (Ety & Hmt).
  destruct (negb _); [exact I|].
  assert (Esrc : get_alloc w (Z.of_nat (Defrag.m_src mv)) = get_alloc v1 (src_of mv)).
  { unfold get_alloc. fold (src_of mv). rewrite (proj2 HG) by exact Hsrc. reflexivity. }
  rewrite Esrc.
  pose proof (sm_sub_M ms0 (v_m w) (bk_mem b) (bk_sm b) L (mi_blocks _ _ MI _ _ _ Hg Hb)) as Psub.
  pose proof (sm_sub_ext (v_m w) (bk_mem b) (bk_sm b)) as Esub. pose proof (sm_sub_types (v_m w) (bk_mem b) (bk_sm b)) as Tsub.
  destruct (sm_sub (v_m w) (bk_mem b) (bk_sm b)) as (m1 & s1). cbn [fst] in Esub, Tsub.
  assert (LH1 : LogHV c ms0 m1) by (eapply LogHV_ext; eauto).
  assert (Pmap : forall m2 s2 (mr : out unit),
            (if a_persist (get_alloc v1 (src_of mv)) then sm_map c m1 (bk_mem b) s1 else (m1, s1, OK tt)) = (m2, s2, mr) ->
            LogHV c ms0 m2 /\ types_kept (v_m w) m2).
  { intros m2 s2 mr E. destruct (a_persist (get_alloc v1 (src_of mv))) eqn:Ep.
    - assert (Hty : forall d, find_mem (m_mems m1) (bk_mem b) = Some d -> host_visible c (dm_type d) = true).
      { intros d Fd. destruct (Tsub _ _ Fd) as (d0 & F0 & E0). rewrite E0, (Hmt b d0 Hb F0). auto. }
      pose proof (sm_map_H c ms0 m1 (bk_mem b) s1 LH1 (proj1 Psub) Hty) as P. pose proof (sm_map_types c m1 (bk_mem b) s1) as T.
      rewrite E in P, T. cbn [fst] in P, T. split; [exact P|eapply types_kept_trans; eauto].
    - injection E as <- _ _. auto. }
  destruct (if a_persist (get_alloc v1 (src_of mv)) then sm_map c m1 (bk_mem b) s1 else (m1, s1, OK tt)) as ((m2 & s2) & mr) eqn:Emap.
  destruct (Pmap _ _ _ eq_refl) as (LH2 & T2).
  destruct mr as [[]|code| |]; try exact I. destruct (_ && _); [exact I|].
  set (b2 := mkBlock (bk_id b) (bk_mem b) s2 (bk_meta b)).
  set (v2 := put_block (set_m w m2) lr b2).
  match goal with |- context [set_tab v2 (v_tab v2 ++ [?t])] => set (tmp := t) end.
  assert (Et2 : v_tab v2 = v_tab w) by (unfold v2; rewrite put_block_tab; reflexivity).
  assert (Hg2m : get_blist (set_m w m2) lr = Some l) by (rewrite get_blist_set_m; exact Hg).
  split; [|split].
  - apply (HH_mach c); [|apply mach_ext_sameM; apply add_allocation_sameM]. split; [cbn [v_m set_tab]; unfold v2; rewrite put_block_m; exact LH2|].
    intros s a Sa _ Hpa. destruct Sa as (Sa & Aa). cbn [v_tab set_tab] in Sa. rewrite Et2 in Sa.
    destruct (Z_lt_dec s (zlen (v_tab w))) as [Hlt|Hge]; [rewrite nth_z_app_old in Sa by exact Hlt; apply (PI s a (conj Sa Aa) (fun H => H) Hpa)|].
    assert (Hr : 0 <= s) by (apply nth_z_some_range in Sa; lia).
    replace s with (zlen (v_tab w) + Z.of_nat (Z.to_nat (s - zlen (v_tab w)))) in Sa by lia. rewrite nth_z_app_new in Sa.
    destruct (Z.to_nat (s - zlen (v_tab w))) as [|n]; cbn in Sa; [|destruct n; discriminate]. injection Sa as <-. unfold tmp in *. cbn in Hpa |- *. rewrite Ety. auto.
  - intros l0 G0. rewrite get_blist_set_m, get_blist_set_tab in G0. unfold v2 in G0. rewrite (put_block_eq _ _ _ _ Hg2m) in G0.
    rewrite (get_set_blist_same _ _ _ _ Hg2m) in G0. injection G0 as <-. split; [exact Ety|].
    intros b0 d0 B0 F0. cbn [v_m set_m] in F0.
    assert (Em : m_mems (add_allocation c (v_m (set_tab v2 (v_tab v2 ++ [tmp]))) (type_heap c (bl_type l)) (Defrag.m_size mv)) = m_mems m2).
    { rewrite (proj1 (add_allocation_sameM c _ _ _)). cbn [v_m set_tab]. unfold v2. rewrite put_block_m. reflexivity. }
    rewrite Em in F0. destruct (T2 _ _ F0) as (d1 & F1 & E1). rewrite E1. cbn in B0.
    destruct (replace_block_cases _ _ _ B0) as [->|Hin]; [apply (Hmt b d1 Hb F1)|apply (Hmt b0 d1 Hin F1)].
  - destruct HG as (G1 & G2). split; [cbn [v_tab set_m set_tab]; rewrite Et2; unfold zlen in *; rewrite app_length; lia|].
    intros s Hs. cbn [v_tab set_m set_tab]. rewrite Et2, nth_z_app_old by lia. apply G2. exact Hs.
Qed.

Lemma commit_moves_HH mvs : forall w lr ty0 v1,
  HHc w [] -> MM ms0 w [] -> NA w -> TB w lr ty0 -> grown v1 w ->
  Forall (fun mv => src_of mv < zlen (v_tab v1) /\ (a_persist (get_alloc v1 (src_of mv)) = true -> host_visible c ty0 = true)) mvs ->
  let '(w', r) := commit_moves c w lr mvs in match r with OK _ => HHc w' [] | _ => True end.
Proof.
  induction mvs as [|mv tl IH]; intros w lr ty0 v1 HH0 HM HN HT HG Hall; cbn [commit_moves]; [exact HH0|].
  inversion Hall as [|? ? (Hs1 & Hp1) Hs2]; subst.
  pose proof (commit_move_HH w lr mv ty0 v1 HH0 HM HT HG Hs1 Hp1) as P.
  pose proof (VamDefragMap.commit_move_MM c Hc Hmax Hlarge ms0 w lr mv HM HN) as PM.
  destruct (commit_move c w lr mv) as (w1 & r). destruct r as [[]|code| |]; auto.
  destruct P as (H1 & T1 & G1). destruct PM as (M1 & N1). apply (IH w1 lr ty0 v1); auto.
Qed.

Lemma commit_attempt_HH w lr slot dst ty0 v1 :
  HHc w [] -> MM ms0 w [] -> TB w lr ty0 -> grown v1 w -> Z.of_nat slot < zlen (v_tab v1) ->
  (a_persist (get_alloc v1 (Z.of_nat slot)) = true -> host_visible c ty0 = true) ->
  HHc (fst (commit_attempt c w lr slot dst)) [] /\ TB (fst (commit_attempt c w lr slot dst)) lr ty0 /\ grown v1 (fst (commit_attempt c w lr slot dst)).
Proof.
  intros (LH & PI) (MI & L) HT HG Hsrc Hp. unfold commit_attempt.
  destruct (get_block w lr dst) as [b|] eqn:Hgb; [|cbn [fst]; split; [split; auto|auto]].
  destruct (get_block_in _ _ _ _ Hgb) as (l & Hg & Hb & Hbid).
  destruct (HT l Hg) as (Ety & Hmt).
  assert (Esrc : get_alloc w (Z.of_nat slot) = get_alloc v1 (Z.of_nat slot)).
  { unfold get_alloc. rewrite (proj2 HG) by exact Hsrc. reflexivity. }
  rewrite Esrc.
  pose proof (sm_sub_M ms0 (v_m w) (bk_mem b) (bk_sm b) L (mi_blocks _ _ MI _ _ _ Hg Hb)) as Psub.
  pose proof (sm_sub_ext (v_m w) (bk_mem b) (bk_sm b)) as Esub. pose proof (sm_sub_types (v_m w) (bk_mem b) (bk_sm b)) as Tsub.
  destruct (sm_sub (v_m w) (bk_mem b) (bk_sm b)) as (m1 & s1). cbn [fst] in Esub, Tsub.
  assert (LH1 : LogHV c ms0 m1) by (eapply LogHV_ext; eauto).
  assert (Pmap : forall m2 s2 (mr : out unit),
            (if a_persist (get_alloc v1 (Z.of_nat slot)) then sm_map c m1 (bk_mem b) s1 else (m1, s1, OK tt)) = (m2, s2, mr) ->
            LogHV c ms0 m2 /\ types_kept (v_m w) m2).
  { intros m2 s2 mr E. destruct (a_persist (get_alloc v1 (Z.of_nat slot))) eqn:Ep.
    - assert (Hty : forall d, find_mem (m_mems m1) (bk_mem b) = Some d -> host_visible c (dm_type d) = true).
      { intros d Fd. destruct (Tsub _ _ Fd) as (d0 & F0 & E0). rewrite E0, (Hmt b d0 Hb F0). auto. }
      pose proof (sm_map_H c ms0 m1 (bk_mem b) s1 LH1 (proj1 Psub) Hty) as P. pose proof (sm_map_types c m1 (bk_mem b) s1) as T.
      rewrite E in P, T. cbn [fst] in P, T. split; [exact P|eapply types_kept_trans; eauto].
    - injection E as <- _ _. auto. }
  destruct (if a_persist (get_alloc v1 (Z.of_nat slot)) then sm_map c m1 (bk_mem b) s1 else (m1, s1, OK tt)) as ((m2 & s2) & mr) eqn:Emap.
  destruct (Pmap _ _ _ eq_refl) as (LH2 & T2). cbn [fst].
  set (b2 := mkBlock (bk_id b) (bk_mem b) s2 (bk_meta b)).
  set (v2 := put_block (set_m w m2) lr b2).
  assert (Et2 : v_tab v2 = v_tab w) by (unfold v2; rewrite put_block_tab; reflexivity).
  assert (Hg2m : get_blist (set_m w m2) lr = Some l) by (rewrite get_blist_set_m; exact Hg).
  split; [|split].
  - split; [unfold v2; rewrite put_block_m; exact LH2|].
    intros s a Sa HX Hpa. apply (PI s a); [|exact HX|exact Hpa]. unfold slot_is in *. rewrite Et2 in Sa. exact Sa.
  - intros l0 G0. unfold v2 in G0. rewrite (put_block_eq _ _ _ _ Hg2m) in G0.
    rewrite (get_set_blist_same _ _ _ _ Hg2m) in G0. injection G0 as <-. split; [exact Ety|].
    intros b0 d0 B0 F0. unfold v2 in F0. rewrite put_block_m in F0. cbn [v_m set_m] in F0.
    destruct (T2 _ _ F0) as (d1 & F1 & E1). rewrite E1. cbn in B0.
    destruct (replace_block_cases _ _ _ B0) as [->|Hin]; [apply (Hmt b d1 Hb F1)|apply (Hmt b0 d1 Hin F1)].
  - destruct HG as (G1 & G2). split; [rewrite Et2; exact G1|]. intros s Hs. rewrite Et2. apply G2. exact Hs.
Qed.

Definition src_hv (v1 : vam) (ty0 : Z) (slot : Z) : Prop :=
  slot < zlen (v_tab v1) /\ (a_persist (get_alloc v1 slot) = true -> host_visible c ty0 = true).

Lemma replay_HH log : forall w lr ty0 v1,
  HHc w [] -> MM ms0 w [] -> NA w -> TB w lr ty0 -> grown v1 w ->
  Forall (fun a => src_hv v1 ty0 (Z.of_nat (DefragGranProofs.at_slot a))) log ->
  let '(w', r) := replay_log c w lr log in match r with OK _ => HHc w' [] | _ => True end.
Proof.
  induction log as [|[slot dst|mv] tl IH]; intros w lr ty0 v1 HH0 HM HN HT HG Hall; cbn [replay_log]; [exact HH0| |];
    inversion Hall as [|? ? (Hs1 & Hp1) Hs2]; subst; cbn [DefragGranProofs.at_slot] in *.
  - destruct (commit_attempt_HH w lr slot dst ty0 v1 HH0 HM HT HG Hs1 Hp1) as (H1 & T1 & G1).
    destruct (VamDefragMap.commit_attempt_MM c Hc Hmax Hlarge ms0 w lr slot dst HM HN) as (M1 & N1).
    destruct (commit_attempt c w lr slot dst) as (w1 & r). cbn [fst] in *.
    destruct r as [[]|code| |]; try exact I. apply (IH w1 lr ty0 v1); auto.
  - pose proof (commit_move_HH w lr mv ty0 v1 HH0 HM HT HG Hs1 Hp1) as P.
    pose proof (VamDefragMap.commit_move_MM c Hc Hmax Hlarge ms0 w lr mv HM HN) as PM.
    destruct (commit_move c w lr mv) as (w1 & r). destruct r as [[]|code| |]; auto.
    destruct P as (H1 & T1 & G1). destruct PM as (M1 & N1). apply (IH w1 lr ty0 v1); auto.
Qed.

Lemma collect_list_HH v dc p :
  VamInv c v -> MM ms0 v [] -> HHc v [] -> Defrag.c_moves (dc_ctx dc) = [] -> PassProofs.pass_running p ->
  VamGran.GV c v ->
  let '(v', r) := collect_list c v dc p in match r with OK _ => HHc v' [] | _ => True end.
Proof.
  intros HI HM HH0 Hidle Hrun HG1. unfold collect_list.
  destruct (project v (dc_lr dc)) as [st|] eqn:Ep; [|exact I].
  destruct (get_blist v (dc_lr dc)) as [l|] eqn:Hg; [|exact I].
  assert (Est : exists bl, project_blocks (bl_blocks l) = Some bl /\ st = Defrag.mkD bl (map (project_entry (dc_lr dc)) (v_tab v)) false).
  { unfold project in Ep. rewrite Hg in Ep. destruct (project_blocks (bl_blocks l)) as [bl|]; [|discriminate]. injection Ep as <-. eauto. }
  destruct Est as (bl & Epb & Est).
  pose proof (project_wf c v (dc_lr dc) l st HI HG1 Hg Ep) as HW.
  pose proof (VamDefragBridge.collect_moves_f_strace_p (bl_gran l) vam (att_commit c (dc_lr dc)) st (dc_ctx dc) p v HW Hrun) as HT. cbn zeta in HT.
  destruct (Defrag.collect_moves_f vam (att_commit c (dc_lr dc)) st (dc_ctx dc) p v) as (((cs & env) & log) & wr).
  unfold Defrag.log_f, Defrag.env_f in HT. cbn [fst snd] in HT.
  set (ty0 := bl_type l).
  (* the sources of the attempts are block allocations of the list *)
  assert (Hsrc : Forall (fun a => src_hv v ty0 (Z.of_nat (DefragGranProofs.at_slot a))) log).
  { destruct HT as (_ & Hsl). eapply Forall_impl; [|exact Hsl]. intros a (es & E1 & _). subst st.
    destruct (entry_project _ _ _ _ _ _ E1) as (a0 & Sa & Ka & La & _).
    split; [apply (slot_is_range _ _ _ Sa)|]. rewrite (get_alloc_slot _ _ _ Sa). intros Hp.
    destruct (vi_slots _ _ _ _ HI _ _ Sa (fun H => H)) as [(_ & l2 & b2 & rg & G2 & _ & _ & _ & _ & _ & _ & _ & _ & Ty2)|(K & _)]; [|congruence].
    rewrite La in G2. assert (l2 = l) by congruence. subst l2. unfold ty0. rewrite <- Ty2. apply (proj2 HH0 _ _ Sa (fun H => H) Hp). }
  set (bl' := Defrag.d_blocks (Defrag.cs_st cs)).
  set (l1 := set_blocks l (unproject_blocks (bl_blocks l) bl')). set (v1 := set_blist v (dc_lr dc) l1).
  assert (Hun : forall b1, In b1 (bl_blocks l1) -> exists b, In b (bl_blocks l) /\ bk_id b = bk_id b1 /\ bk_mem b = bk_mem b1 /\ bk_sm b = bk_sm b1).
  { intros b1 Hb1. unfold l1 in Hb1. cbn in Hb1. unfold unproject_blocks in Hb1. apply in_map_iff in Hb1. destruct Hb1 as (b & <- & Hb).
    exists b. split; [exact Hb|]. destruct (Defrag.find_id (bk_id b) bl'); cbn; auto. }
  assert (M1 : MM ms0 v1 []).
  { apply (MM_lists ms0 v []); [exact HM|apply set_blist_m|apply tab_frame_set_blist|].
    apply (blocks_sub_set_blist v (dc_lr dc) l _ Hg). intros b1 Hb1. destruct (Hun b1 Hb1) as (b & Hb & _ & E1 & E2). exists b. auto. }
  assert (N1 : NA v1).
  { apply (NA_sub c Hc Hmax Hlarge v); [apply (NA_inv c Hc Hmax Hlarge v [] []); exact HI| |].
    - intros lr0 l0 G0. destruct (get_set_blist_cases v (dc_lr dc) l l1 lr0 l0 Hg G0) as [(-> & ->)|(Hne & G)].
      + exists l. split; [exact Hg|]. split; [unfold l1; cbn; apply unproject_ids|]. intros b1 Hb1. destruct (Hun b1 Hb1) as (b & Hb & E0 & E1 & _). exists b. auto.
      + exists l0. split; [exact G|]. split; [reflexivity|]. intros b' Hb'. exists b'. auto.
    - intros s a Sa _. unfold slot_is, v1 in *. rewrite set_blist_tab in Sa. exact Sa. }
  assert (H1 : HHc v1 []) by (apply (HH_lists v []); [exact HH0|apply set_blist_m|apply tab_frame_set_blist]).
  assert (T1 : TB v1 (dc_lr dc) ty0).
  { intros l0 G0. unfold v1 in G0. rewrite (get_set_blist_same _ _ _ _ Hg) in G0. injection G0 as <-. split; [reflexivity|].
    intros b1 d B1 F1. unfold v1 in F1. rewrite set_blist_m in F1. destruct (Hun b1 B1) as (b & Hb & _ & Em & _). rewrite <- Em in F1.
    destruct (vi_block_mem _ _ _ _ HI _ _ _ Hg Hb) as (d0 & F0 & T0 & _). assert (d0 = d) by congruence. subst d0. exact T0. }
  assert (G1 : grown v v1) by (unfold v1; split; [rewrite set_blist_tab; lia|intros; rewrite set_blist_tab; reflexivity]).
  destruct wr as [| |why]; [| |exact I];
    (pose proof (replay_HH log v1 (dc_lr dc) ty0 v H1 M1 N1 T1 G1 Hsrc) as P; destruct (replay_log c v1 (dc_lr dc) log) as (v2 & r);
     destruct r as [[]|code| |]; auto).
Qed.

Lemma pass_loop_HH fuel : forall v run p,
  VamInv c v -> MM ms0 v [] -> HHc v [] -> run_idle run -> 0 <= dr_max_bytes run -> 0 <= dr_max_allocs run -> PassProofs.pass_running p -> VamGran.GV c v ->
  let '(v', run', r) := pass_loop c fuel v run p in match r with OK _ => HHc v' [] | _ => True end.
Proof.
  induction fuel as [|f IH]; intros v run p HI HM HH0 Hidle Hb Ha Hrun HG; cbn [pass_loop]; [exact I|].
  destruct (nth_z (dr_ctxs run) (dr_progress run)) as [dc|] eqn:En; [|exact HH0].
  assert (Hdc : Defrag.c_moves (dc_ctx dc) = []) by (eapply Hidle; eauto).
  pose proof (VamDefragPass.collect_list_inv_gv c v dc p HI HG Hdc Hrun) as PS.
  pose proof (VamDefragMap.collect_list_MM c Hc Hmax Hlarge ms0 v dc p HI HM) as PM.
  pose proof (collect_list_HH v dc p HI HM HH0 Hdc Hrun HG) as P.
  destruct (collect_list c v dc p) as (v1 & r). destruct r as [(dc' & p')|code| |]; auto.
  destruct PS as ((S1 & LS1 & GS1 & Elr & MS1 & Hrun') & HG1).
  pose proof (nth_z_some_range _ _ _ En) as Hrg.
  destruct (Defrag.c_moves (dc_ctx dc')) as [|m0 ms1] eqn:Em; [|exact P].
  match goal with |- context [pass_loop c f v1 ?rr p'] => set (run1 := rr) end.
  assert (Hidle1 : run_idle run1).
  { intros i dc1 Hn1. unfold run1 in Hn1. cbn [dr_ctxs] in Hn1. unfold set_nth_ctx in Hn1.
    destruct (Z.eq_dec i (dr_progress run)) as [->|Hne].
    - rewrite nth_z_set_same in Hn1 by exact Hrg. injection Hn1 as <-. exact Em.
    - rewrite nth_z_set_other in Hn1 by congruence. eapply Hidle; eauto. }
  apply IH; auto.
Qed.

(* ---------------------------------------------------------------- EndDefragPass *)

Lemma free_or_panic_HH v s : HHc v [] -> let '(v', r) := free_or_panic c v s in match r with OK _ => HHc v' [] | _ => True end.
Proof.
  intros H. unfold free_or_panic. destruct (a_allocated (get_alloc v s)); cbn [negb]; [|exact I]. destruct (a_kind (get_alloc v s) =? 1); cbn [negb]; [|exact I].
  pose proof (VamHvStep.bl_free_HH c Hc Hmax Hlarge ms0 v [] (a_lref (get_alloc v s)) s false H) as P.
  destruct (bl_free c v (a_lref (get_alloc v s)) s false) as (v1 & r). cbn [fst] in P. destruct r as [[]|code| |]; auto.
  apply (VamHvStep.HH_unmark c Hc Hmax Hlarge ms0); [|reflexivity]. eapply (VamHvStep.HH_weaken c Hc Hmax Hlarge ms0); [exact P|intros ? []].
Qed.

Lemma swap_HH v s t a b lr :
  VamInv c v -> HHc v [] -> s <> t -> slot_is v s a -> slot_is v t b ->
  a_kind a = 1 -> a_kind b = 1 -> a_lref a = lr -> a_lref b = lr -> a_size a = a_size b -> a_align a = a_align b ->
  HHc (fst (swap_block_allocation v s t)) [].
Proof.
  intros HI H Hst Sa Sb Ka Kb La Lb Esz Eal.
  pose proof (VamDefragInv.swap_inv c v [] [] s t a b lr HI Hst Sa Sb (fun H => H) (fun H => H) Ka Kb La Lb Esz Eal) as P.
  pose proof (VamDefragAcct.swap_m c Hc Hmax Hlarge v s t) as Hm.
  destruct (swap_block_allocation v s t) as (v' & r). cbn [fst] in *. destruct P as (_ & I1 & _ & Z1 & O1 & Gs & Gt).
  apply (HH_step c ms0 v []); [exact H|rewrite Hm; apply mach_ext_refl|].
  intros s0 a0 S0 _ Hp. destruct (Z.eq_dec s0 s) as [->|Hns].
  - exists s, a. assert (a0 = swapped a b) by (rewrite <- Gs; symmetry; apply get_alloc_slot; exact S0). subst a0. cbn in Hp |- *. auto.
  - destruct (Z.eq_dec s0 t) as [->|Hnt].
    + exists t, b. assert (a0 = swapped b a) by (rewrite <- Gt; symmetry; apply get_alloc_slot; exact S0). subst a0. cbn in Hp |- *. auto.
    + exists s0, a0. split; [split; [rewrite <- O1 by auto; apply S0|apply S0]|auto].
Qed.

Lemma complete_move_HH v lr mv d :
  VamInv c v -> HHc v [] -> mv_ok v lr mv -> src_of mv <> tmp_of mv ->
  let '(v', r) := complete_move c v mv d in match r with OK _ => HHc v' [] | _ => True end.
Proof.
  intros HI H (a & b & Sa & Sb & Ka & Kb & La & Lb & Esz & Eal & _) Hne. unfold complete_move.
  fold (src_of mv). fold (tmp_of mv).
  destruct (d =? 0).
  - pose proof (swap_HH v (src_of mv) (tmp_of mv) a b lr HI H Hne Sa Sb Ka Kb La Lb Esz Eal) as PH.
    pose proof (VamDefragInv.swap_inv c v [] [] (src_of mv) (tmp_of mv) a b lr HI Hne Sa Sb (fun H => H) (fun H => H) Ka Kb La Lb Esz Eal) as P.
    destruct (swap_block_allocation v (src_of mv) (tmp_of mv)) as (v1 & r1). cbn [fst] in PH. destruct P as (-> & _). apply free_or_panic_HH. exact PH.
  - destruct (d =? 2).
    + pose proof (free_or_panic_HH v (src_of mv) H) as P. destruct (free_or_panic c v (src_of mv)) as (v1 & r1). destruct r1 as [[]|code| |]; auto.
      apply free_or_panic_HH. exact P.
    + apply free_or_panic_HH. exact H.
Qed.

Lemma complete_moves_HH mvs : forall v lr p imm ds,
  VamInv c v -> HHc v [] -> moves_ok v lr mvs ->
  let '(v', p', imm', r) := complete_moves c v lr p imm mvs ds in match r with OK _ => HHc v' [] | _ => True end.
Proof.
  induction mvs as [|mv rest IH]; intros v lr p imm ds HI H (Hnd & Hf); cbn [complete_moves]; [exact H|].
  destruct (list_alloc_stats v lr) as (pc & pb).
  inversion Hf as [|? ? Hmv Hrest]; subst.
  destruct (mv_slots_cons _ _ Hnd) as (Hne & Hs & Ht & Hnd').
  pose proof (VamDefragStep.complete_move_inv c v lr mv (norm_decision (hd 0 ds)) HI Hmv Hne) as P.
  pose proof (complete_move_HH v lr mv (norm_decision (hd 0 ds)) HI H Hmv Hne) as PH.
  destruct (complete_move c v mv (norm_decision (hd 0 ds))) as (v1 & r). destruct r as [[]|code| |]; auto.
  destruct (list_alloc_stats v1 lr) as (ac & ab).
  assert (Hok1 : moves_ok v1 lr rest).
  { apply (moves_ok_frame v v1 lr [src_of mv; tmp_of mv] rest); [apply P| |split; auto].
    intros s [<-|[<-|[]]]; auto. }
  apply IH; [apply P|exact PH|exact Hok1].
Qed.

Lemma defrag_end_HH v run ds :
  VamInv c v -> HHc v [] -> run_ok v run ->
  let '(v', run', r) := defrag_end c v run ds in match r with OK _ => HHc v' [] | _ => True end.
Proof.
  intros HI H (Hb & Ha & Hr). unfold defrag_end.
  destruct (nth_z (dr_ctxs run) (dr_progress run)) as [dc|] eqn:En; [|exact H].
  destruct (Defrag.c_moves (dc_ctx dc)) as [|m0 ms1] eqn:Em; [exact H|].
  destruct (Hr _ _ En) as (Hok & _). specialize (Hok eq_refl). rewrite Em in Hok.
  unfold complete_pass. rewrite Em.
  pose proof (complete_moves_HH (m0 :: ms1) v (dc_lr dc) (dr_pass run) [] ds HI H Hok) as P.
  destruct (complete_moves c v (dc_lr dc) (dr_pass run) [] (m0 :: ms1) ds) as (((v1 & p1) & imm) & r).
  destruct r as [[]|code| |]; auto.
  destruct (get_blist v1 (dc_lr dc)) as [l|] eqn:Hg; [|exact I].
  destruct (fold_left _ imm (bl_blocks l, Defrag.c_immovable (dc_ctx dc))) as (bs & immc).
  apply (HH_lists v1 []); [exact P|apply set_blist_m|apply tab_frame_set_blist].
Qed.

(* ---------------------------------------------------------------- one defragmentation call *)

Lemma dexec_HH v run o :
  VamInv c v -> MM ms0 v [] -> HHc v [] -> VamGran.GV c v -> drun_ok v run -> dop_ok v run o ->
  let '(v', run', r, dr) := dexec c v run o in match r with OK _ | ER _ => HHc v' [] | _ => True end.
Proof.
  intros HI HM H HV Hr Hok. destruct o as [flags pool mb ma| |ds|]; cbn [dexec].
  - pose proof (defrag_begin_inv c v flags pool mb ma HI) as P. pose proof (VamDefragAcct.defrag_begin_m c v flags pool mb ma) as Hm.
    destruct (defrag_begin c v flags pool mb ma) as (v1 & r). cbn [fst] in Hm. destruct P as (_ & T1 & _).
    assert (H1 : HHc v1 []) by (apply (HH_lists v []); auto).
    destruct r as [rn|code| |]; auto.
  - destruct run as [rn|]; [|exact I]. pose proof Hok as Hidle. pose proof HV as HG. destruct Hr as (Hb & Ha & Hr).
    pose proof (pass_loop_HH (S (length (dr_ctxs rn))) v rn (Pass.pass_init (dr_max_bytes rn) (dr_max_allocs rn)) HI HM H Hidle Hb Ha
                  (PassProofs.pass_init_running _ _ Hb Ha) HG) as P.
    pose proof (defrag_pass_inv c v rn HI (conj Hb (conj Ha Hr)) Hidle HG) as PS.
    unfold defrag_pass in *. destruct (pass_loop c _ v rn _) as ((v1 & rn') & r). destruct r as [mvs|code| |]; auto. contradiction.
  - destruct run as [rn|]; [|exact I].
    pose proof (defrag_end_HH v rn ds HI H Hr) as P. pose proof (VamDefragStep.defrag_end_inv c v rn ds HI Hr) as PS.
    destruct (defrag_end c v rn ds) as ((v1 & rn') & r). destruct r as [b|code| |]; auto. contradiction.
  - destruct run as [rn|]; [|exact I].
    pose proof (defrag_finish_inv c v rn HI) as P. pose proof (VamDefragAcct.defrag_finish_m v rn) as Hm.
    destruct (defrag_finish v rn) as (v1 & st). cbn [fst] in Hm. destruct P as (_ & T1 & _).
    apply (HH_lists v []); auto.
Qed.

End WithCfg.

(* ---------------------------------------------------------------- histories with defragmentation *)

Section Thm.
Variable c : vcfg.
Hypothesis Ha : cfg_acct c.
Let Hc := ca_ok c Ha.
Let Hmax := ca_max c Ha.
Let Hlarge := ca_large c Ha.

Theorem dstep_preservesH v run o f :
  VamInv c v -> MapInv v [] -> PersistInv c v [] -> VamGran.GV c v -> drun_ok v run -> dop_ok v run o ->
  let '(v', run', r, calls, dr) := dstep c v run o f in
  r <> RPanic -> r <> RStuck -> PersistInv c v' [] /\ maps_hv c (m_mems (v_m v)) calls.
Proof.
  intros HI HM HP HV Hr Hok. unfold dstep.
  set (ms0 := m_mems (v_m v)).
  set (v0 := set_m v (clear_calls (set_fault (v_m v) f 0))).
  assert (Hsub : forall w m', MapInv w [] -> m_mems m' = m_mems (v_m w) -> MapInv (set_m w m') []).
  { intros w m' I E. apply (MapInv_sub w []); [exact I|exact E|apply blocks_sub_eq; intros; apply get_blist_set_m|apply deds_sub_nil; apply tab_frame_set_m]. }
  assert (Hps : forall w m', PersistInv c w [] -> PersistInv c (set_m w m') []).
  { intros w m' P. apply (PersistInv_sub c w []); [exact P|apply persist_sub_nil; apply tab_frame_set_m]. }
  assert (I0 : VamInv c v0).
  { unfold v0, VamInv. apply VamInvU_mach_same; [exact HI|]. split; cbn; [apply mems_same_refl|lia]. }
  assert (M0 : MM ms0 v0 []).
  { split; [apply Hsub; [exact HM|reflexivity]|]. unfold LogOk, v0, ms0. cbn. constructor. }
  assert (H0 : HH c ms0 v0 []) by (split; [apply LogHV_start|apply Hps; exact HP]).
  assert (Hr0 : drun_ok v0 run) by (destruct run as [rn|]; [apply run_ok_set_m; exact Hr|exact I]).
  assert (Hok0 : dop_ok v0 run o) by (destruct o; cbn in *; auto).
  pose proof (dexec_HH c Hc Hmax Hlarge ms0 v0 run o I0 M0 H0 (VamGran.GR_set_m c v _ HV) Hr0 Hok0) as E.
  destruct (dexec c v0 run o) as (((v1 & run1) & r) & dr).
  intros Hp Hs. destruct r as [[]|code| |]; cbn in Hp, Hs; try congruence; destruct E as (L & P);
    (split; [apply Hps; exact P|exact L]).
Qed.

Theorem reachDA_persist v run : reachDA c v run -> PersistInv c v [].
Proof.
  intros R. induction R as [nslots v H Hn|v run o f v' r calls R IH Hidle Hok Hd Hs Hp Hk|v run o f v' run' r calls dr R IH Hok Hs Hp Hk Hb].
  - eapply (vam_new_persist c); eauto.
  - destruct (reachDA_inv c Ha v run R) as (HI & _). pose proof (reachDA_map c Ha v run R) as HM.
    assert (Hps : forall w m', PersistInv c w [] -> PersistInv c (set_m w m') []).
    { intros w m' P. apply (PersistInv_sub c w []); [exact P|apply persist_sub_nil; apply tab_frame_set_m]. }
    assert (Hgen : op_map_ok c v o -> PersistInv c v' []).
    { intros Hmap. pose proof (step_preservesH c Ha v o f HI HM IH Hok Hd Hmap) as P. rewrite Hs in P. apply P; auto. }
    destruct o; try (apply Hgen; exact I).
    + unfold step in Hs. cbn [exec] in Hs.
      pose proof (allocation_map_persist c (set_m v (clear_calls (set_fault (v_m v) f 0))) slot (Hps _ _ IH)) as P.
      destruct (allocation_map c _ slot) as (v1 & r1). cbn [fst] in P. injection Hs as <- _ _. apply Hps. exact P.
    + unfold step in Hs. cbn [exec] in Hs. unfold harness_rw in Hs.
      pose proof (allocation_map_persist c (set_m v (clear_calls (set_fault (v_m v) f 0))) slot (Hps _ _ IH)) as P.
      destruct (allocation_map c _ slot) as (v1 & r1). cbn [fst] in P.
      destruct r1 as [[]|code| |]; try (injection Hs as <- _ _; apply Hps; exact P).
      pose proof (allocation_unmap_persist c v1 slot P) as P2. destruct (allocation_unmap v1 slot) as (v2 & ur). cbn [fst] in P2.
      destruct ur as [[]|ucode| |]; injection Hs as <- _ _; apply Hps; exact P2.
  - destruct (reachDA_inv c Ha v run R) as (HI & Hr).
    pose proof (dstep_preservesH v run o f (va_s _ _ _ _ HI) (reachDA_map c Ha v run R) IH (reachD_gv c Hc v run (reachDA_reachD c Ha v run R)) Hr Hok) as P. rewrite Hs in P. apply P; auto.
Qed.

(* C08: the maps of a defragmentation call are on host-visible memory *)
Theorem dstep_maps_host_visible v run o f v' run' r calls dr :
  reachDA c v run -> dop_ok v run o -> dstep c v run o f = (v', run', r, calls, dr) -> r <> RPanic -> r <> RStuck ->
  maps_hv c (m_mems (v_m v)) calls.
Proof.
  intros R Hok Hs Hp Hk. destruct (reachDA_inv c Ha v run R) as (HI & Hr).
  pose proof (dstep_preservesH v run o f (va_s _ _ _ _ HI) (reachDA_map c Ha v run R) (reachDA_persist v run R) (reachD_gv c Hc v run (reachDA_reachD c Ha v run R)) Hr Hok) as P.
  rewrite Hs in P. apply P; auto.
Qed.

(* ... and so are the maps of an ordinary call in a history with defragmentation *)
Theorem maps_only_host_visible_defrag v run o f v' r calls :
  reachDA c v run -> op_ok v o -> op_dom o -> op_map_ok c v o -> step c v o f = (v', r, calls) -> r <> RPanic -> r <> RStuck ->
  maps_hv c (m_mems (v_m v)) calls.
Proof.
  intros R Hok Hd Hmap Hs Hp Hk. destruct (reachDA_inv c Ha v run R) as (HI & _).
  pose proof (step_preservesH c Ha v o f HI (reachDA_map c Ha v run R) (reachDA_persist v run R) Hok Hd Hmap) as P.
  rewrite Hs in P. apply P; auto.
Qed.

End Thm.
