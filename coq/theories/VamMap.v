(* VamMap.v — the mapping invariant of the whole-allocator model (fourth pass over Vam*.v; C08 / C14).

   MapInv v: every device memory object owned by the allocator (the memory of a block, the memory of a dedicated
   allocation) is alive on the device and its mapping state on the device agrees with the SynchronizedMemory
   object that guards it (SyncMemProofs.Inv: device mapped = mapData present, and that holds iff there are map
   references or the hysteresis extra mapping).
   LogOk ms0 m: the driver calls logged since the beginning of the API call (m_calls), replayed from the device
   memory objects ms0 the call started with, are valid one by one — vkMapMemory only on a live object that is not
   mapped, vkUnmapMemory only on a live mapped object, vkFreeMemory only on a live object — and lead to the
   current device memory objects.
   The component facts come from SyncMemProofs (map_inv / unmap_inv / sub_inv: the calls SynchronizedMemory
   issues are valid for a device object that satisfies Inv, and Inv holds again afterwards). *)
From Coq Require Import ZArith List Bool Lia Permutation.
From Arsenal Require Import Util Budget BudgetProofs VamDev VamBlockList Vam VamInvMeta VamInv VamInvUpd VamInvDev VamInvStep VamInvStep2.
From Arsenal Require SyncMem SyncMemProofs.
Import ListNotations.
Open Scope Z_scope.

(* ---------------------------------------------------------------- device memory objects *)

Definition dv (d : dmem) : SyncMem.devstate := SyncMem.mkDev true (dm_mapped d).

(* the SynchronizedMemory object s guards the live memory object mem *)
Definition sm_ok (ms : list dmem) (mem : Z) (s : SyncMem.sm) : Prop :=
  exists d, find_mem ms mem = Some d /\ SyncMemProofs.Inv s (dv d) /\ SyncMem.freed s = false.

Lemma find_set_mapped_same ms id b d :
  find_mem ms id = Some d -> find_mem (set_mem_mapped ms id b) id = Some (mkDmem (dm_id d) (dm_type d) (dm_size d) b).
Proof.
  induction ms as [|x ms IH]; cbn; [discriminate|]. destruct (dm_id x =? id) eqn:E.
  - intros H; injection H as <-. cbn. rewrite E. reflexivity.
  - intros H. cbn. rewrite E. apply IH. exact H.
Qed.

Lemma find_set_mapped_other ms id b id' : id' <> id -> find_mem (set_mem_mapped ms id b) id' = find_mem ms id'.
Proof.
  intros Hne. induction ms as [|x ms IH]; cbn; [reflexivity|]. destruct (dm_id x =? id) eqn:E; cbn.
  - apply Z.eqb_eq in E. destruct (dm_id x =? id') eqn:E'; [apply Z.eqb_eq in E'; congruence|reflexivity].
  - destruct (dm_id x =? id'); [reflexivity|exact IH].
Qed.

Lemma find_remove_mem_other' ms id id' : id' <> id -> find_mem (remove_mem ms id) id' = find_mem ms id'.
Proof.
  intros Hne. induction ms as [|x ms IH]; cbn; [reflexivity|]. destruct (dm_id x =? id) eqn:E; cbn.
  - apply Z.eqb_eq in E. destruct (dm_id x =? id') eqn:E'; [apply Z.eqb_eq in E'; congruence|reflexivity].
  - destruct (dm_id x =? id'); [reflexivity|exact IH].
Qed.

Lemma find_mem_app_old ms d id x : find_mem ms id = Some x -> find_mem (ms ++ [d]) id = Some x.
Proof. intros H. rewrite find_mem_app, H. reflexivity. Qed.

Lemma sm_ok_other_mapped ms id b mem s : mem <> id -> sm_ok ms mem s -> sm_ok (set_mem_mapped ms id b) mem s.
Proof. intros Hne (d & F & I & Fr). exists d. rewrite find_set_mapped_other by exact Hne. auto. Qed.

Lemma sm_ok_other_removed ms id mem s : mem <> id -> sm_ok ms mem s -> sm_ok (remove_mem ms id) mem s.
Proof. intros Hne (d & F & I & Fr). exists d. rewrite find_remove_mem_other' by exact Hne. auto. Qed.

Lemma sm_ok_app ms d mem s : sm_ok ms mem s -> sm_ok (ms ++ [d]) mem s.
Proof. intros (x & F & I & Fr). exists x. split; [apply find_mem_app_old; exact F|auto]. Qed.

(* ---------------------------------------------------------------- the log of driver calls *)

Definition call_ok (ms : list dmem) (k : call) : Prop :=
  match k with
  | CMap mem _ _ _ => exists d, find_mem ms mem = Some d /\ dm_mapped d = false
  | CUnmap mem => exists d, find_mem ms mem = Some d /\ dm_mapped d = true
  | CFree mem => exists d, find_mem ms mem = Some d
  | CBind _ _ mem _ _ => exists d, find_mem ms mem = Some d
  | CFlush _ mem off size _ => exists d, find_mem ms mem = Some d /\ 0 <= off /\ 0 < size /\ off + size <= dm_size d
  | _ => True
  end.

Definition call_eff (ms : list dmem) (k : call) (ms' : list dmem) : Prop :=
  match k with
  | CMap mem _ _ r => ms' = if r =? 0 then set_mem_mapped ms mem true else ms
  | CUnmap mem => ms' = set_mem_mapped ms mem false
  | CFree mem => ms' = remove_mem ms mem
  | CAlloc id ty size _ r => ms' = if r =? 0 then ms ++ [mkDmem id ty size false] else ms
  | _ => ms' = ms
  end.

(* oldest call first *)
Inductive replay : list dmem -> list call -> list dmem -> Prop :=
| rp_nil ms : replay ms [] ms
| rp_snoc ms cs ms1 k ms2 : replay ms cs ms1 -> call_ok ms1 k -> call_eff ms1 k ms2 -> replay ms (cs ++ [k]) ms2.

Definition LogOk (ms0 : list dmem) (m : mach) : Prop := replay ms0 (rev (m_calls m)) (m_mems m).

Lemma LogOk_start m : LogOk (m_mems m) (clear_calls m).
Proof. unfold LogOk. cbn. constructor. Qed.

Lemma LogOk_log ms0 m k ms' :
  LogOk ms0 m -> call_ok (m_mems m) k -> call_eff (m_mems m) k ms' -> LogOk ms0 (log_call (set_mems m ms') k).
Proof. intros H Hok He. unfold LogOk. cbn. eapply rp_snoc; eauto. Qed.

(* calls that concern neither the mapping nor the lifetime of a memory object *)
Definition neutral (k : call) : Prop :=
  match k with
  | CMap _ _ _ _ | CUnmap _ | CFree _ | CBind _ _ _ _ _ | CFlush _ _ _ _ _ => False
  | CAlloc _ _ _ _ r => r <> 0
  | _ => True
  end.

Lemma neutral_ok ms k : neutral k -> call_ok ms k /\ call_eff ms k ms.
Proof.
  destruct k; cbn; try tauto. intros H. split; [exact I|]. destruct (result =? 0) eqn:E; [apply Z.eqb_eq in E; contradiction|reflexivity].
Qed.

(* the machine changed only in ways that concern neither memory objects nor their mapping *)
Definition mach_sameM (m m' : mach) : Prop :=
  m_mems m' = m_mems m /\ exists ks, m_calls m' = ks ++ m_calls m /\ Forall neutral ks.

Lemma mach_sameM_refl m : mach_sameM m m.
Proof. split; [reflexivity|]. exists []. split; [reflexivity|constructor]. Qed.

Lemma mach_sameM_trans a b d : mach_sameM a b -> mach_sameM b d -> mach_sameM a d.
Proof.
  intros (A1 & k1 & A2 & A3) (B1 & k2 & B2 & B3). split; [congruence|]. exists (k2 ++ k1).
  split; [rewrite B2, A2, app_assoc; reflexivity|apply Forall_app; auto].
Qed.

Lemma mach_sameM_quiet m m' : m_mems m' = m_mems m -> m_calls m' = m_calls m -> mach_sameM m m'.
Proof. intros H1 H2. split; [exact H1|]. exists []. split; [exact H2|constructor]. Qed.

Lemma mach_sameM_log m k : neutral k -> mach_sameM m (log_call m k).
Proof. intros H. split; [reflexivity|]. exists [k]. split; [reflexivity|constructor; [exact H|constructor]]. Qed.

Lemma LogOk_same ms0 m m' : LogOk ms0 m -> mach_sameM m m' -> LogOk ms0 m'.
Proof.
  intros H (E1 & ks & E2 & F). unfold LogOk in *. rewrite E1, E2, rev_app_distr. clear E1 E2.
  induction ks as [|k ks IH]; [cbn; rewrite app_nil_r; exact H|]. inversion F as [|? ? Hk Hks]; subst.
  cbn [rev]. rewrite app_assoc. destruct (neutral_ok (m_mems m) k Hk) as (A & B). eapply rp_snoc; [apply IH; exact Hks|exact A|exact B].
Qed.

Lemma mach_sameM_set_fault m f n : mach_sameM m (set_fault m f n).
Proof. apply mach_sameM_quiet; reflexivity. Qed.
Lemma mach_sameM_set_bud m b : mach_sameM m (set_bud m b).
Proof. apply mach_sameM_quiet; reflexivity. Qed.

Lemma heap_budget_sameM c m h : mach_sameM m (fst (fst (heap_budget c m h))).
Proof. unfold heap_budget. destruct (Budget.heap_budget _ _ _ _) as ((b' & r) & cs). destruct r; cbn; apply mach_sameM_set_bud. Qed.

Lemma heap_budget_full_sameM c m h : mach_sameM m (fst (heap_budget_full c m h)).
Proof. unfold heap_budget_full. destruct (Budget.heap_budget _ _ _ _) as ((b' & r) & cs). destruct r; cbn; apply mach_sameM_set_bud. Qed.

Lemma add_allocation_sameM c m h size : mach_sameM m (add_allocation c m h size).
Proof. unfold add_allocation. destruct (Budget.add_alloc _ _ _ _) as ((b' & r) & cs). apply mach_sameM_set_bud. Qed.

Lemma remove_allocation_sameM c m h size : mach_sameM m (fst (remove_allocation c m h size)).
Proof. unfold remove_allocation. destruct (Budget.remove_alloc _ _ _ _) as ((b' & r) & cs). apply mach_sameM_set_bud. Qed.

(* a call that leaves the memory objects alone, valid in the current device state *)
Lemma LogOk_log_same ms0 m m1 k :
  LogOk ms0 m -> m_mems m1 = m_mems m -> m_calls m1 = m_calls m -> call_ok (m_mems m) k -> call_eff (m_mems m) k (m_mems m) ->
  LogOk ms0 (log_call m1 k).
Proof. intros H E1 E2 Hok He. unfold LogOk in *. cbn. rewrite E1, E2. eapply rp_snoc; eauto. Qed.

(* vkFlushMappedMemoryRanges / vkInvalidateMappedMemoryRanges on a live object with a range inside it *)
Lemma dev_flush_M ms0 m inval id off size :
  LogOk ms0 m -> (exists d, find_mem (m_mems m) id = Some d /\ 0 <= off /\ 0 < size /\ off + size <= dm_size d) ->
  m_mems (fst (dev_flush m inval id off size)) = m_mems m /\ LogOk ms0 (fst (dev_flush m inval id off size)).
Proof.
  intros H Hv. unfold dev_flush. destruct Hv as (d & Hf & Hr). rewrite Hf.
  destruct (dev_fault _ _ _) as ((f1 & fired1) & r). cbn [fst].
  split; [reflexivity|apply (LogOk_log_same ms0 m); [exact H|reflexivity|reflexivity|exists d; auto|reflexivity]].
Qed.

Lemma dev_create_res_sameM m image kind req : mach_sameM m (fst (fst (dev_create_res m image kind req))).
Proof.
  unfold dev_create_res. destruct (dev_fault _ _ _) as ((f1 & fired1) & r).
  destruct (negb _); cbn [fst]; [eapply mach_sameM_trans; [apply (mach_sameM_set_fault m f1 fired1)|apply mach_sameM_log; exact I]|].
  destruct (_ <=? _); cbn [fst]; (split; [reflexivity|]; eexists [_]; split; [reflexivity|constructor; [exact I|constructor]]).
Qed.

Lemma dev_destroy_res_sameM m image id : mach_sameM m (dev_destroy_res m image id).
Proof. unfold dev_destroy_res. split; [reflexivity|]. eexists [_]. split; [reflexivity|constructor; [exact I|constructor]]. Qed.

Lemma dev_requirements_sameM m image id : mach_sameM m (fst (dev_requirements m image id)).
Proof. unfold dev_requirements. cbn [fst]. apply mach_sameM_log. exact I. Qed.

(* vkBindBufferMemory / vkBindImageMemory with a live memory object *)
Lemma dev_bind_M ms0 m image res mem off :
  LogOk ms0 m -> (exists d, find_mem (m_mems m) mem = Some d) ->
  m_mems (fst (dev_bind m image res mem off)) = m_mems m /\ LogOk ms0 (fst (dev_bind m image res mem off)).
Proof.
  intros H Hv. unfold dev_bind. destruct Hv as (d & Hf). rewrite Hf.
  destruct (find_res _ _) as [r|]; [|split; [reflexivity|apply (LogOk_log_same ms0 m); [exact H|reflexivity|reflexivity|exists d; auto|reflexivity]]].
  destruct (dev_fault _ _ _) as ((f1 & fired1) & code). destruct (negb _); cbn [fst];
    (split; [reflexivity|apply (LogOk_log_same ms0 m); [exact H|reflexivity|reflexivity|exists d; auto|reflexivity]]).
Qed.

Lemma dev_forget_binding_sameM m res : mach_sameM m (dev_forget_binding m res).
Proof. unfold dev_forget_binding. destruct (find_res _ _); [apply mach_sameM_quiet; reflexivity|apply mach_sameM_refl]. Qed.

(* ---------------------------------------------------------------- SynchronizedMemory over the device *)

(* what one SynchronizedMemory operation on (mem, s) does: the calls are valid for the log, the object is
   guarded again, and no other memory object is touched *)
Definition sm_post (ms0 : list dmem) (m : mach) (mem : Z) (m' : mach) (s' : SyncMem.sm) : Prop :=
  LogOk ms0 m' /\ sm_ok (m_mems m') mem s' /\
  (forall mem2 s2, mem2 <> mem -> sm_ok (m_mems m) mem2 s2 -> sm_ok (m_mems m') mem2 s2) /\
  (forall id, find_mem (m_mems m') id = None <-> find_mem (m_mems m) id = None).

Lemma find_set_mapped_none ms id b id' : find_mem (set_mem_mapped ms id b) id' = None <-> find_mem ms id' = None.
Proof.
  destruct (Z.eq_dec id' id) as [->|Hne]; [|rewrite find_set_mapped_other by exact Hne; tauto].
  destruct (find_mem ms id) as [d|] eqn:E; [rewrite (find_set_mapped_same _ _ b _ E); split; discriminate|].
  split; [auto|]. intros _. clear - E. induction ms as [|x ms IH]; cbn in *; [reflexivity|]. destruct (dm_id x =? id) eqn:Ex; [discriminate|]. cbn. rewrite Ex. auto.
Qed.

Lemma sm_map_M c ms0 m mem s :
  LogOk ms0 m -> sm_ok (m_mems m) mem s ->
  let '(m', s', r) := sm_map c m mem s in sm_post ms0 m mem m' s'.
Proof.
  intros HL (d & F & I & Fr). unfold sm_map.
  destruct (dev_map c m mem) as (m1 & code) eqn:Edm.
  destruct (SyncMem.do_map s 1 (negb (code =? 0))) as ((s' & r) & cs) eqn:Edo.
  destruct (SyncMemProofs.map_inv s (dv d) 1 _ s' r cs I Fr ltac:(lia) Edo) as (d' & Hrun & I' & _ & Fr' & _).
  assert (Hcs : cs = [] \/ cs = [SyncMem.DMap (code =? 0)]).
  { unfold SyncMem.do_map in Edo. cbn [Z.eqb] in Edo. destruct (SyncMem.post_map_unmap s) as (s1 & sw).
    destruct (0 <? SyncMem.references s); [destruct (SyncMem.mapped _); injection Edo as _ _ <-; left; reflexivity|].
    destruct (negb (code =? 0)) eqn:En; injection Edo as _ _ <-; right; [apply negb_true_iff in En|apply negb_false_iff in En]; rewrite En; reflexivity. }
  destruct Hcs as [->| ->].
  - cbn in Hrun. injection Hrun as <-. split; [exact HL|]. split; [exists d; auto|]. split; [auto|tauto].
  - cbn in Hrun. destruct (dm_mapped d) eqn:Emp; [discriminate|]. cbn in Hrun. injection Hrun as <-.
    unfold dev_map in Edm. rewrite F in Edm.
    (* the speculative device call really happened: it must have been a real map attempt *)
    destruct (negb (host_visible c (dm_type d))) eqn:Ehv.
    { injection Edm as <- <-. split; [|split; [|split; [auto|tauto]]].
      - unfold LogOk. cbn. eapply rp_snoc; [exact HL|exists d; auto|reflexivity].
      - exists d. cbn. split; [exact F|]. split; [|exact Fr']. replace (dv d) with (SyncMem.mkDev true (VK_MAPFAIL =? 0)); [exact I'|].
        unfold dv. rewrite Emp. reflexivity. }
    destruct (dm_size d <=? 0) eqn:Esz.
    { injection Edm as <- <-. split; [|split; [|split; [auto|tauto]]].
      - unfold LogOk. cbn. eapply rp_snoc; [exact HL|exists d; auto|reflexivity].
      - exists d. cbn. split; [exact F|]. split; [|exact Fr']. replace (dv d) with (SyncMem.mkDev true (VK_MAPFAIL =? 0)); [exact I'|].
        unfold dv. rewrite Emp. reflexivity. }
    destruct (dev_fault (m_fault m) (m_fired m) 2) as ((f1 & fired1) & r0).
    destruct (negb (r0 =? 0)) eqn:Er.
    + injection Edm as <- <-. apply negb_true_iff in Er. rewrite Er in I'. split; [|split; [|split; [auto|tauto]]].
      * unfold LogOk. cbn. eapply rp_snoc; [exact HL|exists d; auto|cbn; rewrite Er; reflexivity].
      * exists d. cbn. split; [exact F|]. split; [|exact Fr']. replace (dv d) with (SyncMem.mkDev true false); [exact I'|]. unfold dv. rewrite Emp. reflexivity.
    + injection Edm as <- <-. cbn [Z.eqb] in I'. split; [|split; [|split]].
      * unfold LogOk. cbn. eapply rp_snoc; [exact HL|exists d; auto|reflexivity].
      * cbn. eexists. split; [apply find_set_mapped_same; exact F|]. split; [exact I'|exact Fr'].
      * intros mem2 s2 Hne H2. cbn. apply sm_ok_other_mapped; auto.
      * intros id. cbn. apply find_set_mapped_none.
Qed.

Lemma sm_unmap_M ms0 m mem s :
  LogOk ms0 m -> sm_ok (m_mems m) mem s ->
  let '(m', s', r) := sm_unmap m mem s in sm_post ms0 m mem m' s'.
Proof.
  intros HL (d & F & I & Fr). unfold sm_unmap.
  destruct (SyncMem.do_unmap s 1) as ((s' & r) & cs) eqn:Edo.
  destruct (SyncMemProofs.unmap_inv s (dv d) 1 s' r cs I Fr Edo) as (d' & Hrun & I' & _ & Fr' & _).
  assert (Hcs : cs = [] \/ cs = [SyncMem.DUnmap]).
  { unfold SyncMem.do_unmap in Edo. destruct (SyncMem.mapRefs s =? 0); [injection Edo as _ _ <-; auto|].
    destruct (SyncMem.mapRefs s <? 1); [injection Edo as _ _ <-; auto|]. destruct (SyncMem.post_map_unmap _) as (s1 & sw).
    destruct (SyncMem.references s1 <=? 0); injection Edo as _ _ <-; auto. }
  destruct Hcs as [->| ->].
  - cbn in Hrun. injection Hrun as <-. split; [exact HL|]. split; [exists d; auto|]. split; [auto|tauto].
  - cbn in Hrun. destruct (dm_mapped d) eqn:Emp; [|discriminate]. cbn in Hrun. injection Hrun as <-.
    unfold dev_unmap. split; [|split; [|split]].
    + unfold LogOk. cbn. eapply rp_snoc; [exact HL|exists d; auto|reflexivity].
    + cbn. eexists. split; [apply find_set_mapped_same; exact F|]. split; [exact I'|exact Fr'].
    + intros mem2 s2 Hne H2. cbn. apply sm_ok_other_mapped; auto.
    + intros id. cbn. apply find_set_mapped_none.
Qed.

Lemma sm_sub_M ms0 m mem s :
  LogOk ms0 m -> sm_ok (m_mems m) mem s ->
  let '(m', s') := sm_sub m mem s in sm_post ms0 m mem m' s'.
Proof.
  intros HL (d & F & I & Fr). unfold sm_sub.
  destruct (SyncMem.do_sub s) as ((s' & r) & cs) eqn:Edo.
  destruct (SyncMemProofs.sub_inv s (dv d) s' r cs I Fr Edo) as (d' & Hrun & I' & _ & Fr' & _).
  assert (Hcs : cs = [] \/ cs = [SyncMem.DUnmap]).
  { unfold SyncMem.do_sub in Edo. destruct (_ <=? _); [|injection Edo as _ _ <-; auto].
    destruct (_ <=? -2); [|injection Edo as _ _ <-; auto]. destruct (SyncMem.extra s); [|injection Edo as _ _ <-; auto].
    destruct (_ && _); injection Edo as _ _ <-; auto. }
  destruct Hcs as [->| ->].
  - cbn in Hrun. injection Hrun as <-. split; [exact HL|]. split; [exists d; auto|]. split; [auto|tauto].
  - cbn in Hrun. destruct (dm_mapped d) eqn:Emp; [|discriminate]. cbn in Hrun. injection Hrun as <-.
    unfold dev_unmap. split; [|split; [|split]].
    + unfold LogOk. cbn. eapply rp_snoc; [exact HL|exists d; auto|reflexivity].
    + cbn. eexists. split; [apply find_set_mapped_same; exact F|]. split; [exact I'|exact Fr'].
    + intros mem2 s2 Hne H2. cbn. apply sm_ok_other_mapped; auto.
    + intros id. cbn. apply find_set_mapped_none.
Qed.

(* ---------------------------------------------------------------- vkAllocateMemory / vkFreeMemory *)

Lemma dev_alloc_M c ms0 m ty size ded :
  LogOk ms0 m ->
  let '(m1, code, id) := dev_alloc c m ty size ded in
  LogOk ms0 m1 /\ ((code = 0 /\ m_mems m1 = m_mems m ++ [mkDmem id ty size false]) \/ (code <> 0 /\ m_mems m1 = m_mems m)).
Proof.
  intros HL. unfold dev_alloc.
  assert (Hfail : forall m0 r, LogOk ms0 m0 -> r <> 0 -> LogOk ms0 (log_call m0 (CAlloc 0 ty size ded r))).
  { intros m0 r H0 Hr. apply (LogOk_same ms0 m0); [exact H0|apply mach_sameM_log; exact Hr]. }
  destruct (negb (type_valid c ty)); [split; [apply Hfail; [exact HL|discriminate]|right; split; [discriminate|reflexivity]]|].
  destruct (size <=? 0); [split; [apply Hfail; [exact HL|discriminate]|right; split; [discriminate|reflexivity]]|].
  destruct (dev_fault _ _ _) as ((f1 & fired1) & r).
  assert (HL1 : LogOk ms0 (set_fault m f1 fired1)) by (apply (LogOk_same ms0 m); [exact HL|apply mach_sameM_set_fault]).
  destruct (negb (r =? 0)) eqn:Er.
  { apply negb_true_iff in Er. apply Z.eqb_neq in Er. split; [apply Hfail; auto|right; split; [exact Er|reflexivity]]. }
  cbn [set_fault m_mems m_fault m_fired m_next].
  destruct (_ && _); [split; [apply Hfail; [exact HL1|discriminate]|right; split; [discriminate|reflexivity]]|].
  destruct (heap_size c (type_heap c ty) <? _); [split; [apply Hfail; [exact HL1|discriminate]|right; split; [discriminate|reflexivity]]|].
  destruct (DEV_TABLE <=? m_next m + 1).
  { split; [|right; split; [discriminate|reflexivity]]. apply Hfail; [|discriminate].
    apply (LogOk_same ms0 (set_fault m f1 fired1)); [exact HL1|apply mach_sameM_quiet; reflexivity]. }
  split; [|left; split; reflexivity].
  unfold LogOk. cbn. eapply rp_snoc; [exact HL|exact I|reflexivity].
Qed.

Lemma alloc_vk_M c ms0 m ty size ded :
  LogOk ms0 m ->
  let '(m', r) := alloc_vk c m ty size ded in
  LogOk ms0 m' /\ match r with OK id => m_mems m' = m_mems m ++ [mkDmem id ty size false] | _ => m_mems m' = m_mems m end.
Proof.
  intros HL. unfold alloc_vk. pose proof (dev_alloc_M c ms0 m ty size ded HL) as D.
  destruct (dev_alloc c m ty size ded) as ((m1 & code) & id). destruct D as (HL1 & D).
  assert (Hq : forall b', LogOk ms0 (set_bud m b')) by (intros; apply (LogOk_same ms0 m); [exact HL|apply mach_sameM_set_bud]).
  assert (Hq1 : forall b', LogOk ms0 (set_bud m1 b')) by (intros; apply (LogOk_same ms0 m1); [exact HL1|apply mach_sameM_set_bud]).
  unfold Budget.alloc_mem.
  destruct (Budget.maxCount _ <? _); [cbn; split; [apply Hq|reflexivity]|].
  match goal with |- context [match ?x with Some _ => _ | None => _ end] => destruct x as [s2|] end; [|cbn; split; [apply Hq|reflexivity]].
  destruct (negb (code =? 0)) eqn:Ec.
  - destruct (Budget.remove_block _ _ _) as (s3 & p). cbn.
    destruct D as [(E & _)|(_ & D)]; [subst; discriminate|].
    destruct p; cbn; (split; [apply Hq1|exact D]).
  - cbn. apply negb_false_iff in Ec. apply Z.eqb_eq in Ec. destruct D as [(_ & D)|(E & _)]; [|congruence].
    split; [apply Hq1|exact D].
Qed.

Lemma free_vk_M c ms0 m ty size mem :
  LogOk ms0 m -> (exists d, find_mem (m_mems m) mem = Some d) ->
  LogOk ms0 (fst (free_vk c m ty size mem)) /\ m_mems (fst (free_vk c m ty size mem)) = remove_mem (m_mems m) mem.
Proof.
  intros HL Hd. unfold free_vk. destruct (Budget.free_mem _ _ _) as ((b' & r) & cs). cbn [fst].
  split; [|reflexivity]. apply (LogOk_same ms0 (dev_free m mem)); [|apply mach_sameM_set_bud].
  unfold dev_free. apply LogOk_log; [exact HL|exact Hd|reflexivity].
Qed.

(* ---------------------------------------------------------------- the mapping invariant *)

Section WithCfg.
Variable c : vcfg.
Hypothesis Hc : cfg_ok c.

(* X: allocations whose memory was already released inside a running Free (as in VamAcct) *)
Record MapInv (v : vam) (X : list Z) : Prop := mkMapInv {
  mi_blocks : forall lr l b, get_blist v lr = Some l -> In b (bl_blocks l) -> sm_ok (m_mems (v_m v)) (bk_mem b) (bk_sm b);
  mi_ded : forall s a, slot_is v s a -> ~ In s X -> a_kind a = 2 -> sm_ok (m_mems (v_m v)) (a_mem a) (a_sm a)
}.

(* the state part and the log of the running API call (ms0: the memory objects when the call began) *)
Definition MM (ms0 : list dmem) (v : vam) (X : list Z) : Prop := MapInv v X /\ LogOk ms0 (v_m v).

(* the guarded objects of v' are guarded objects of v, the device memory objects are the same *)
Definition blocks_sub (v v' : vam) : Prop :=
  forall lr l' b', get_blist v' lr = Some l' -> In b' (bl_blocks l') ->
  exists lr0 l b, get_blist v lr0 = Some l /\ In b (bl_blocks l) /\ bk_mem b = bk_mem b' /\ bk_sm b = bk_sm b'.

Definition deds_sub (v v' : vam) (X X' : list Z) : Prop :=
  forall s a', slot_is v' s a' -> ~ In s X' -> a_kind a' = 2 ->
  exists s0 a, slot_is v s0 a /\ ~ In s0 X /\ a_kind a = 2 /\ a_mem a = a_mem a' /\ a_sm a = a_sm a'.

Lemma MapInv_sub v X v' X' :
  MapInv v X -> m_mems (v_m v') = m_mems (v_m v) -> blocks_sub v v' -> deds_sub v v' X X' -> MapInv v' X'.
Proof.
  intros [B D] Em Hb Hd. constructor.
  - intros lr l' b' Hg Hin. destruct (Hb _ _ _ Hg Hin) as (lr0 & l & b & G & I0 & E1 & E2). rewrite Em, <- E1, <- E2. eauto.
  - intros s a' Sa HX K. destruct (Hd _ _ Sa HX K) as (s0 & a & S0 & HX0 & K0 & E1 & E2). rewrite Em, <- E1, <- E2. eauto.
Qed.

Lemma blocks_sub_refl v : blocks_sub v v.
Proof. intros lr l b Hg Hb. eauto 10. Qed.

Lemma blocks_sub_eq v v' : (forall lr, get_blist v' lr = get_blist v lr) -> blocks_sub v v'.
Proof. intros H lr l b Hg Hb. rewrite H in Hg. eauto 10. Qed.

Lemma deds_sub_frame v v' X S : tab_frame v v' S -> (forall s, In s S -> forall a, ~ slot_is v' s a) -> deds_sub v v' X X.
Proof.
  intros T Hd s a' Sa HX K. exists s, a'. split; [|auto]. apply (slot_is_frame _ _ _ _ _ T); [|exact Sa].
  intros Hin. exact (Hd s Hin a' Sa).
Qed.

Lemma deds_sub_nil v v' X : tab_frame v v' [] -> deds_sub v v' X X.
Proof. intros T. apply (deds_sub_frame v v' X [] T). intros s []. Qed.

Lemma MM_mach_mems ms0 v X m' : MM ms0 v X -> m_mems m' = m_mems (v_m v) -> LogOk ms0 m' -> MM ms0 (set_m v m') X.
Proof.
  intros (I & L) Hm L'. split; [|exact L'].
  apply (MapInv_sub v X); [exact I|cbn; exact Hm|apply blocks_sub_eq; intros; apply get_blist_set_m|].
  apply deds_sub_nil. apply tab_frame_set_m.
Qed.

Lemma MM_mach ms0 v X m' : MM ms0 v X -> mach_sameM (v_m v) m' -> MM ms0 (set_m v m') X.
Proof.
  intros (I & L) Hm. split; [|cbn; eapply LogOk_same; eauto].
  apply (MapInv_sub v X); [exact I|cbn; apply Hm|apply blocks_sub_eq; intros; apply get_blist_set_m|].
  apply deds_sub_nil. apply tab_frame_set_m.
Qed.

(* list-only changes that keep every block's memory object and SynchronizedMemory object *)
Lemma MM_lists ms0 v X v' :
  MM ms0 v X -> v_m v' = v_m v -> tab_frame v v' [] -> blocks_sub v v' -> MM ms0 v' X.
Proof.
  intros (I & L) Em T Hb. split; [|rewrite Em; exact L].
  apply (MapInv_sub v X); [exact I|rewrite Em; reflexivity|exact Hb|apply deds_sub_nil; exact T].
Qed.

Lemma blocks_sub_set_blist v lr l l' :
  get_blist v lr = Some l -> (forall b', In b' (bl_blocks l') -> exists b, In b (bl_blocks l) /\ bk_mem b = bk_mem b' /\ bk_sm b = bk_sm b') ->
  blocks_sub v (set_blist v lr l').
Proof.
  intros Hg H lr0 l0 b0 G0 B0. destruct (get_set_blist_cases v lr l l' lr0 l0 Hg G0) as [(-> & ->)|(Hne & G)].
  - destruct (H _ B0) as (b & Hb & E1 & E2). exists lr, l, b. auto.
  - exists lr0, l0, b0. auto.
Qed.

Lemma blocks_sub_perm v lr l bs : get_blist v lr = Some l -> Permutation (bl_blocks l) bs -> blocks_sub v (set_blist v lr (set_blocks l bs)).
Proof.
  intros Hg P. apply (blocks_sub_set_blist v lr l _ Hg). cbn. intros b' Hb'. exists b'. split; [|auto].
  eapply Permutation_in; [apply Permutation_sym; exact P|exact Hb'].
Qed.

End WithCfg.
