From Coq Require Import ZArith List Lia.
From Arsenal Require Import VamDev VamBlockList VamDefrag Vam VamInvMeta VamInv VamInvStep VamInvThm VamProps VamPropsOps
  VamDefragStep VamDefragPass VamDefragThm.
From Arsenal Require Bits Defrag Budget.
From Arsenal.Props Require Import C02.
Import ListNotations.
Open Scope Z_scope.

(* non-vacuity: two block allocations, the first is freed, a defragmentation run moves the second one from
   offset 1008 to offset 0 (BeginDefragPass proposes the move, EndDefragPass with MoveOperation copy completes
   it); the states between and after the calls are reachable *)
Definition dx0 : vam :=
  match vam_new ex_cfg 4 with OK v => v | _ => mkVam (mkMach [] 0 no_fault 0 Budget.bzero [] [] 0) 0%N [] [] [] 0 1 [] end.
Definition dx1 := fst (fst (step ex_cfg dx0 (OAlloc 0 1000 16 3 0 0 0 0 0 None) no_fault)).
Definition dx2 := fst (fst (step ex_cfg dx1 (OAlloc 1 1000 16 3 0 0 0 0 0 None) no_fault)).
Definition dx3 := fst (fst (step ex_cfg dx2 (OFree 0) no_fault)).
Definition dd1 := dstep ex_cfg dx3 None (DBegin 0 None 0 0) no_fault.
Definition dx4 := fst (fst (fst (fst dd1))).
Definition dr4 := snd (fst (fst (fst dd1))).
Definition dd2 := dstep ex_cfg dx4 dr4 DPass no_fault.
Definition dx5 := fst (fst (fst (fst dd2))).
Definition dr5 := snd (fst (fst (fst dd2))).
Definition dd3 := dstep ex_cfg dx5 dr5 (DEnd [0]) no_fault.
Definition dx6 := fst (fst (fst (fst dd3))).
Definition dr6 := snd (fst (fst (fst dd3))).

Example C02_defrag_nonvacuous :
  reachD ex_cfg dx5 dr5 /\ reachD ex_cfg dx6 dr6 /\
  map (fun a => (a_allocated a, a_handle a, a_temp a)) (v_tab dx5) =
    [(false, 0, false); (true, 1008, false); (false, 0, false); (false, 0, false); (true, 0, true)] /\
  map (fun a => (a_allocated a, a_handle a, a_temp a)) (v_tab dx6) =
    [(false, 0, false); (true, 0, false); (false, 0, false); (false, 0, false); (false, 1008, true)].
Proof.
  assert (R0 : reachD ex_cfg dx0 None) by (eapply reachD_new with (nslots := 4%nat); vm_compute; reflexivity).
  assert (R1 : reachD ex_cfg dx1 None).
  { eapply reachD_step with (r := ROk) (o := OAlloc 0 1000 16 3 0 0 0 0 0 None) (f := no_fault)
      (calls := snd (step ex_cfg dx0 (OAlloc 0 1000 16 3 0 0 0 0 0 None) no_fault));
      [exact R0|exact I| |vm_compute; reflexivity|discriminate|discriminate]. vm_compute. split; [discriminate|reflexivity]. }
  assert (R2 : reachD ex_cfg dx2 None).
  { eapply reachD_step with (r := ROk) (o := OAlloc 1 1000 16 3 0 0 0 0 0 None) (f := no_fault)
      (calls := snd (step ex_cfg dx1 (OAlloc 1 1000 16 3 0 0 0 0 0 None) no_fault));
      [exact R1|exact I| |vm_compute; reflexivity|discriminate|discriminate]. vm_compute. split; [discriminate|reflexivity]. }
  assert (R3 : reachD ex_cfg dx3 None).
  { eapply reachD_step with (r := ROk) (o := OFree 0) (f := no_fault) (calls := snd (step ex_cfg dx2 (OFree 0) no_fault));
      [exact R2|exact I|exact I|vm_compute; reflexivity|discriminate|discriminate]. }
  assert (R4 : reachD ex_cfg dx4 dr4).
  { eapply reachD_dstep with (r := ROk) (o := DBegin 0 None 0 0) (f := no_fault) (calls := snd (fst dd1)) (dr := snd dd1);
      [exact R3|exact I|vm_compute; reflexivity|discriminate|discriminate]. }
  assert (R5 : reachD ex_cfg dx5 dr5).
  { eapply reachD_dstep with (r := ROk) (o := DPass) (f := no_fault) (calls := snd (fst dd2)) (dr := snd dd2);
      [exact R4| |vm_compute; reflexivity|discriminate|discriminate].
    apply (C02_defrag_domain_gran1 ex_cfg dx4 dr4 DPass ex_cfg_ok eq_refl R4).
    intros i dc Hn. apply nth_z_in in Hn. vm_compute in Hn. destruct Hn as [<-|[<-|[]]]; reflexivity. }
  split; [exact R5|]. split; [|split; vm_compute; reflexivity].
  eapply reachD_dstep with (r := ROk) (o := DEnd [0]) (f := no_fault) (calls := snd (fst dd3)) (dr := snd dd3);
    [exact R5|exact I|vm_compute; reflexivity|discriminate|discriminate].
Qed.
